"""U(consts): one lemma per published constant, generated from the literals found in /repo on every run and
discharged by Verus' `by(compute_only)` evaluator (exact evaluation, C17; also the constants other units rely on)."""
import re
import hashlib
from vx.extract import Unit, src, REPO
from vx.rsscan import LostAnchor
from .fieldc import field_params, parse_int_array, resolve_int_array, limbs_to_int, FIELDS

# prime factorisations of p - 1 (certificates: the product is re-checked by compute; primality of the factors is M-PRIME)
FACTORS = {
    "fq": [2, 3, 5, 7, 13, 499, 9586122913090633729, 958612291309063373],
    "fr": [2, 1553, 1282495723, 4153589585267, 127594226306900005382664386181896662579473947460767],
    "fp": [2, 3, 7, 13, 53, 409, 499, 2557, 6633514200929891813,
           73387170334035996766247648424745786170238574695861388454532790956181],
}
REF_CRATES = {
    "fq": ("ark-ed-on-bls12-377-0.4.0/src/fields/fq.rs", None),   # re-export of ark_bls12_377::Fr
    "fr": ("ark-ed-on-bls12-377-0.4.0/src/fields/fr.rs", None),
    "fp": ("ark-bls12-377-0.4.0/src/fields/fq.rs", None),
}


class Gen:
    def __init__(self):
        self.lemmas = []
        self.obls = []

    def add(self, name, expr, props, descr, file="", item=None):
        """lemma `name`: assert(expr) by(compute_only)"""
        body = f"pub proof fn {name}()\n{{\n    assert({expr}) by(compute_only);\n}}\n"
        self.lemmas.append(body)
        ob = dict(name=name, props=props, descr=descr, file=file)
        if item is not None:
            ob["lines"] = list(item.line_span())
            ob["sha256"] = item.sha256()
        self.obls.append(ob)


def const_item(path, header, name):
    return src(path).find_const(header, name)


def mont_limbs(item):
    return limbs_to_int(parse_int_array(item.text.split('=', 1)[1]))


def I(n):
    return f"{n}int"


def field_lemmas(g, f):
    fp = field_params(f)
    F, P, R, RINV = fp["F"], fp["P"], fp["R"], fp["RINV"]
    path = f"src/fields/{f}.rs"
    hdr = f"impl {F}"
    pr = ("C17",)

    def c(name):
        return const_item(path, hdr, name)
    # R * RINV == 1 (the Montgomery inverse used by every contract)
    g.add(f"c17_{f}_rinv", f"mmul({I(P)}, {I(R % P)}, {I(RINV)}) == 1", pr, f"{F}: 2^(64N) * RINV == 1 mod p", path)
    it = c("MODULUS_MINUS_ONE_DIV_TWO_LIMBS")
    v = mont_limbs(it)
    g.add(f"c17_{f}_MODULUS_MINUS_ONE_DIV_TWO", f"2 * {I(v)} + 1 == {I(P)}", pr, "(p-1)/2", path, it)
    it = c("MODULUS_BIT_SIZE")
    bits = int(re.search(r'=\s*(0x[0-9a-fA-F]+|\d+)', it.text).group(1), 0)
    g.add(f"c17_{f}_MODULUS_BIT_SIZE", f"mpow_nat(2, {bits - 1}) <= {I(P)} && {I(P)} < mpow_nat(2, {bits})", pr, "bit size", path, it)
    it_s = c("TWO_ADICITY")
    s_ = int(re.search(r'=\s*(0x[0-9a-fA-F]+|\d+)', it_s.text).group(1), 0)
    it_t = c("TRACE_LIMBS")
    t_ = mont_limbs(it_t)
    g.add(f"c17_{f}_TRACE", f"{I(t_)} * mpow_nat(2, {s_}) + 1 == {I(P)} && {I(t_)} % 2 == 1", pr, "trace and two-adicity: p-1 = t*2^s, t odd", path, it_t)
    it = c("TRACE_MINUS_ONE_DIV_TWO_LIMBS")
    g.add(f"c17_{f}_TRACE_MINUS_ONE_DIV_TWO", f"2 * {I(mont_limbs(it))} + 1 == {I(t_)}", pr, "(t-1)/2", path, it)
    # generator
    it_g = c("MULTIPLICATIVE_GENERATOR")
    gm = mont_limbs(it_g)
    gexpr = f"mmul({I(P)}, {I(gm)}, {I(RINV)})"
    facs = FACTORS[f]
    prod = " * ".join(I(x) for x in facs)
    # product certificate: p-1 == 2^s * prod(odd factors with multiplicity): recompute multiplicities here
    rem = P - 1
    mult = {}
    for q_ in facs:
        while rem % q_ == 0:
            rem //= q_
            mult[q_] = mult.get(q_, 0) + 1
    cert = " * ".join(f"mpow_nat({I(q_)}, {k})" for q_, k in mult.items())
    g.add(f"c17_{f}_factor_certificate", f"{cert} == {I(P)} - 1" if rem == 1 else "false", pr,
          "p-1 equals the product of the certified prime powers", path)
    g.add(f"c17_{f}_GENERATOR_in_range", f"{I(gm)} < {I(P)}", pr, "generator limbs are reduced", path, it_g)
    for q_ in facs:
        g.add(f"c17_{f}_GENERATOR_order_{q_}", f"mpow({I(P)}, {gexpr}, {(P - 1) // q_}nat) != 1", pr,
              f"g^((p-1)/{q_}) != 1 (g generates the multiplicative group)", path, it_g)
    it_w = c("TWO_ADIC_ROOT_OF_UNITY")
    wm = mont_limbs(it_w)
    wexpr = f"mmul({I(P)}, {I(wm)}, {I(RINV)})"
    g.add(f"c17_{f}_ROOT_is_g_pow_t", f"{wexpr} == mpow({I(P)}, {gexpr}, {t_}nat)", pr, "root of unity == g^t", path, it_w)
    g.add(f"c17_{f}_ROOT_order", f"mpow({I(P)}, {wexpr}, {1 << s_}nat) == 1 && mpow({I(P)}, {wexpr}, {1 << (s_ - 1)}nat) != 1", pr,
          "root has order exactly 2^s", path, it_w)
    it = c("FIELD_SIZE_POWER_OF_TWO")
    g.add(f"c17_{f}_FIELD_SIZE_POWER_OF_TWO", f"mmul({I(P)}, {I(mont_limbs(it))}, {I(RINV)}) == mpow_nat(2, {8 * fp['N8']}) % {I(P)} && {I(mont_limbs(it))} < {I(P)}", pr,
          "2^(8*N_8) mod p", path, it)
    g.add(f"c17_{f}_FIELD_SIZE_POWER_OF_TWO_value", f"mpow_nat(2, {8 * fp['N8']}) % {I(P)} == {I(pow(2, 8 * fp['N8'], P))}", pr + ("C11",),
          "the literal the abstract-field units use for FIELD_SIZE_POWER_OF_TWO", path, it)
    try:
        it = c("QUADRATIC_NON_RESIDUE_TO_TRACE")
        z = mont_limbs(it)
        zexpr = f"mmul({I(P)}, {I(z)}, {I(RINV)})"
        # z = nu^t for a non-residue nu  <=>  z has order exactly 2^s
        g.add(f"c17_{f}_QNR_TO_TRACE", f"mpow({I(P)}, {zexpr}, {1 << s_}nat) == 1 && mpow({I(P)}, {zexpr}, {1 << (s_ - 1)}nat) == {I(P)} - 1 && {I(z)} < {I(P)}",
              pr, "QUADRATIC_NON_RESIDUE_TO_TRACE has order exactly 2^s (it is nu^t for a non-residue nu)", path, it)
    except LostAnchor:
        pass
    # reference crate modulus (decimal string in the cargo registry)
    import glob
    import os
    refs = glob.glob(os.path.expanduser("~/.cargo/registry/src/*/" + REF_CRATES[f][0]))
    if f == "fq":
        refs = glob.glob(os.path.expanduser("~/.cargo/registry/src/*/ark-bls12-377-0.4.0/src/fields/fr.rs"))
    if refs:
        m = re.search(r'#\[modulus\s*=\s*"(\d+)"\]', open(refs[0]).read())
        if m:
            g.add(f"c17_{f}_MODULUS_matches_reference", f"{I(int(m.group(1)))} == {I(P)}", pr,
                  "MODULUS_LIMBS equals the modulus of the reference arkworks crate", path, c("MODULUS_LIMBS"))
    # u32 backend spellings
    w32 = f"src/fields/{f}/u32/wrapper.rs"
    try:
        it = const_item(w32, f"impl {F}", "ONE")
        one32 = limbs_to_int(parse_int_array(it.text.split('=', 1)[1]), 32)
        g.add(f"c17_{f}_u32_ONE", f"{I(one32)} == {I(R % P)}", pr + ("C10", "C12"), "u32 backend ONE == 2^(32 N) mod p (Montgomery form of 1)", w32, it)
    except LostAnchor:
        pass
    for nm, val in (("MINUS_ONE", P - 1), ("QUADRATIC_NON_RESIDUE", None)):
        try:
            it32 = const_item(w32, f"impl {F}", nm)
            it64 = const_item(f"src/fields/{f}/u64/wrapper.rs", f"impl {F}", nm)
        except LostAnchor:
            continue
        v32 = limbs_to_int(parse_int_array(it32.text.split('=', 1)[1]), 32)
        v64 = mont_limbs(it64)
        g.add(f"c17_{f}_{nm}_u32_u64_agree", f"{I(v32)} == {I(v64)} && {I(v64)} < {I(P)}", pr + ("C12",), f"{nm}: both backends spell the same Montgomery value", w32, it32)
        if val is not None:
            g.add(f"c17_{f}_{nm}", f"mmul({I(P)}, {I(v64)}, {I(RINV)}) == {I(val)}", pr, f"{nm} value", w32, it64)
        else:
            g.add(f"c17_{f}_{nm}", f"mpow({I(P)}, mmul({I(P)}, {I(v64)}, {I(RINV)}), {(P - 1) // 2}nat) == {I(P)} - 1", pr, f"{nm} is a non-residue (Euler)", w32, it64)
    # SQRT_PRECOMP of Fr: (r+1)/4
    if f == "fr":
        a = src("src/fields/fr/arkworks.rs")
        it = a.find_const("impl Field for Fr", "SQRT_PRECOMP")
        v = limbs_to_int(resolve_int_array(it.text, ["src/fields/fr/arkworks.rs", "src/fields/fr.rs"]))
        g.add("c17_fr_SQRT_PRECOMP", f"4 * {I(v)} == {I(P)} + 1", pr + ("C09",), "Case3Mod4: (r+1)/4", "src/fields/fr/arkworks.rs", it)


def curve_lemmas(g):
    fq = field_params("fq")
    fr = field_params("fr")
    P, RINV = fq["P"], fq["RINV"]
    pr = ("C17",)

    def val(m):
        return f"mmul({I(P)}, {I(m)}, {I(RINV)})"
    ed = "src/ark_curve/edwards.rs"
    ac = "src/ark_curve/constants.rs"
    mc = "src/min_curve/constants.rs"
    ZETA = 2841681278031794617739547238867782961338435681360110683443920362658525667816
    GX = 4959445789346820725352484487855828915252512307947624787834978378872129235627
    GY = 6060471950081851567114691557659790004756535011754163002297540472747064943288
    GT = 7709528722369014828560854854815397945854484030754980890329689855465844419067
    a_it = const_item(ed, "impl TECurveConfig for Decaf377EdwardsConfig", "COEFF_A")
    d_it = const_item(ed, "impl TECurveConfig for Decaf377EdwardsConfig", "COEFF_D")
    g.add("c17_ark_COEFF_A", f"{val(mont_limbs(a_it))} == {I(P)} - 1 && {I(mont_limbs(a_it))} < {I(P)}", pr + ("C04", "C12"), "a = -1", ed, a_it)
    g.add("c17_ark_COEFF_D", f"{val(mont_limbs(d_it))} == 3021 && {I(mont_limbs(d_it))} < {I(P)}", pr + ("C04", "C12"), "d = 3021", ed, d_it)
    g.add("c17_d_nonsquare", f"mpow({I(P)}, 3021, {(P - 1) // 2}nat) == {I(P)} - 1", pr, "d is a non-square (complete addition law)", ed)
    ma = const_item(ed, "impl MontCurveConfig for Decaf377EdwardsConfig", "COEFF_A")
    mb = const_item(ed, "impl MontCurveConfig for Decaf377EdwardsConfig", "COEFF_B")
    # Montgomery form: A = 2(a+d)/(a-d), B = 4/(a-d)  <=>  A*(a-d) == 2(a+d), B*(a-d) == 4
    amd = (P - 1 - 3021) % P
    g.add("c17_mont_COEFF_A", f"mmul({I(P)}, {val(mont_limbs(ma))}, {I(amd)}) == {I((2 * (P - 1 + 3021)) % P)}", pr, "Montgomery A = 2(a+d)/(a-d)", ed, ma)
    g.add("c17_mont_COEFF_B", f"mmul({I(P)}, {val(mont_limbs(mb))}, {I(amd)}) == 4", pr, "Montgomery B = 4/(a-d)", ed, mb)
    z_it = const_item(ac, None, "ZETA")
    g.add("c17_ark_ZETA", f"{val(mont_limbs(z_it))} == {I(ZETA)} && {I(mont_limbs(z_it))} < {I(P)}", pr + ("C12", "C09"), "ZETA equals the specification's zeta", ac, z_it)
    g.add("c17_ZETA_nonsquare", f"mpow({I(P)}, {I(ZETA)}, {(P - 1) // 2}nat) == {I(P)} - 1", pr + ("C09",), "zeta is a non-square", ac)
    for nm, v in (("B_X", GX), ("B_Y", GY), ("B_T", GT), ("GENERATOR_X", GX), ("GENERATOR_Y", GY)):
        it = const_item(ac, None, nm)
        g.add(f"c17_ark_{nm}", f"{val(mont_limbs(it))} == {I(v)} && {I(mont_limbs(it))} < {I(P)}", pr + ("C06", "C12"), f"{nm} equals the generator coordinate", ac, it)
    # generator: on the curve, t = xy, [r]G = identity, G != identity
    g.add("c17_generator_on_curve",
          f"on_curve(gen_p4()) && gen_p4().x == {I(GX)} && gen_p4().y == {I(GY)} && gen_p4().t == {I(GT)} && p4_wf(gen_p4())", pr + ("C06",),
          "the generator is on the curve and T = XY", "preludes/curve_spec.rs")
    g.add("c17_generator_order_r", f"smul_bin({fr['P']}nat, gen_p4()).x == 0 && smul_bin({fr['P']}nat, gen_p4()).t == 0 "
          f"&& smul_bin({fr['P']}nat, gen_p4()).z != 0", pr + ("C05", "C06"),
          "[r]G represents the identity element (X = 0, T = 0, Z != 0; as a curve point it is the 2-torsion point (0,-1)), computed by double-and-add in extended coordinates", "preludes/curve_spec.rs")
    g.add("c17_generator_not_identity", f"gen_p4().x != 0", pr + ("C05",), "G is not the identity", "preludes/curve_spec.rs")
    # generator == decode(8): certificate v (root) supplied here, relations checked by compute
    s_ = 8
    ss = s_ * s_ % P
    u1 = (1 - ss) % P
    u2 = (u1 * u1 - 4 * 3021 * ss) % P
    den = u2 * u1 * u1 % P
    # python computes the witness root; Verus checks v^2*den == 1 and the coordinate formulas
    v0 = None
    import importlib
    v0 = tonelli(pow(den, -1, P), P)
    tsu1 = 2 * s_ * u1 % P
    if (tsu1 * v0 % P) % 2 == 1:
        v0 = P - v0
    g.add("c17_generator_is_decode_8",
          f"fmul(fsq({I(v0)}), {I(den)}) == 1 && !is_neg(fmul({I(tsu1)}, {I(v0)})) && "
          f"fmul(fmul({I(tsu1)}, fsq({I(v0)})), {I(u2)}) == {I(GX)} && fmul(fmul(fadd(1, {I(ss)}), {I(v0)}), {I(u1)}) == {I(GY)} && "
          f"fsub(1, fsq(8)) == {I(u1)} && fsub(fsq({I(u1)}), fmul(fmul(4, 3021), fsq(8))) == {I(u2)} && fmul({I(u2)}, fsq({I(u1)})) == {I(den)}",
          pr, "generator = decode(8) (steps of the specification's decoding with the witnessed root v)", "preludes/curve_spec.rs")
    # min_curve constants equal the ark ones
    for nm, v in (("ZETA", ZETA), ("COEFF_A", P - 1), ("COEFF_D", 3021), ("COEFF_K", 6042)):
        it = const_item(mc, None, nm)
        g.add(f"c17_min_{nm}", f"{val(mont_limbs(it))} == {I(v)} && {I(mont_limbs(it))} < {I(P)}", pr + ("C12", "C04"), f"min_curve {nm}", mc, it)
    try:
        it = const_item(mc, None, "ZETA_TO_TRACE")
        zt = val(mont_limbs(it))
        g.add("c17_min_ZETA_TO_TRACE", f"{zt} == mpow({I(P)}, {I(ZETA)}, {(P - 1) >> 47}nat)", pr, "zeta^t", mc, it)
    except LostAnchor:
        pass
    # min generator literals (struct literal inside impl Element :: GENERATOR)
    ge = src("src/min_curve/element.rs").find_const("impl Element", "GENERATOR")
    arrs = re.findall(r'from_montgomery_limbs\(\s*\[(.*?)\]\s*,?\s*\)', ge.text, re.S)
    names = re.findall(r'(\w)\s*:\s*Fq::(?:from_montgomery_limbs|ONE)', ge.text)
    vals = {}
    ai = 0
    for nm in names:
        m = re.search(nm + r'\s*:\s*Fq::(from_montgomery_limbs|ONE)', ge.text)
        if m.group(1) == "ONE":
            vals[nm] = None
        else:
            vals[nm] = limbs_to_int([int(x.strip()) for x in arrs[ai].split(',') if x.strip()])
            ai += 1
    exp = {"x": GX, "y": GY, "t": GT}
    ok = " && ".join(f"{val(vals[k])} == {I(exp[k])}" for k in ("x", "y", "t") if vals.get(k) is not None)
    g.add("c17_min_GENERATOR", (ok if len(vals) == 4 and vals.get("z", 0) is None else "false"), pr + ("C06", "C12"),
          "min_curve generator literal equals the generator (z = ONE)", "src/min_curve/element.rs", ge)
    # sqrt-table constants of src/ark_curve/constants.rs (MontFp! decimal strings)
    t_ = (P - 1) >> 47
    for nm, want in (("M", t_), ("M_MINUS_ONE_DIV_TWO", (t_ - 1) // 2)):
        it = const_item(ac, None, nm)
        m = re.search(r'MontFp!\(\s*"(\d+)"', it.text)
        g.add(f"c17_ark_{nm}", f"{I(int(m.group(1)))} == {I(want)}" if m else "false", pr + ("C09",), f"{nm} = odd part of q-1 (resp. its half)", ac, it)
    it = const_item(ac, None, "ZETA_TO_ONE_MINUS_M_DIV_TWO")
    m = re.search(r'"(\d+)"', it.text)
    zz = int(m.group(1))
    # zeta^((1-M)/2) * zeta^((M-1)/2) == 1
    g.add("c17_ark_ZETA_TO_ONE_MINUS_M_DIV_TWO", f"fmul({I(zz)}, mpow({I(P)}, {I(ZETA)}, {(t_ - 1) // 2}nat)) == 1 && {I(zz)} < {I(P)}", pr + ("C09",),
          "zeta^((1-M)/2)", ac, it)
    for nm, want in (("N", 47), ("SQRT_W", 8)):
        it = const_item(ac, None, nm)
        m = re.search(r'=\s*(\d+)', it.text)
        g.add(f"c17_ark_{nm}", f"{int(m.group(1))} == {want}int", pr + ("C09",), nm, ac, it)
    it = const_item(ac, None, "R")
    m = re.search(r'"(\d+)"', it.text)
    g.add("c17_ark_R", f"{I(int(m.group(1)))} == {I(fr['P'])}", pr, "R = group order r", ac, it)
    cof = const_item(ed, "impl CurveConfig for Decaf377EdwardsConfig", "COFACTOR")
    g.add("c17_ark_COFACTOR", "true" if re.search(r'&\[\s*1\s*\]', cof.text) else "false", pr + ("C05",), "declared cofactor is 1", ed, cof)


def tonelli(n, p):
    """square root mod p (python side, only to produce a witness that Verus re-checks)"""
    n %= p
    assert pow(n, (p - 1) // 2, p) == 1
    q, s = p - 1, 0
    while q % 2 == 0:
        q //= 2
        s += 1
    z = 2
    while pow(z, (p - 1) // 2, p) != p - 1:
        z += 1
    m, c, t, r = s, pow(z, q, p), pow(n, q, p), pow(n, (q + 1) // 2, p)
    while t != 1:
        i, t2 = 0, t
        while t2 != 1:
            t2 = t2 * t2 % p
            i += 1
        b = pow(c, 1 << (m - i - 1), p)
        m, c, t, r = i, b * b % p, t * b * b % p, r * b % p
    return r


PRE = r"""
pub open spec fn mpow_nat(b: int, e: nat) -> int decreases e { if e == 0 { 1 } else { b * mpow_nat(b, (e - 1) as nat) } }
// k-fold sum by double-and-add (computable counterpart of smul; smul_bin(k,p) ~ smul(k,p) is M-GROUP)
pub open spec fn smul_bin(k: nat, p: P4) -> P4 decreases k {
    if k == 0 { id4() } else if k % 2 == 0 { te_double(smul_bin(k / 2, p)) } else { te_add(te_double(smul_bin(k / 2, p)), p) }
}
"""


def unit(_=None):
    g = Gen()
    for f in ("fq", "fr", "fp"):
        field_lemmas(g, f)
    curve_lemmas(g)
    fq = field_params("fq")
    u = Unit(name="consts", preludes=[("common.rs", None), ("field_abs.rs", fq), ("curve_spec.rs", None)], items=[],
             lemmas=PRE + "\n".join(g.lemmas), params=fq)
    u.proof_obls = g.obls
    return u
