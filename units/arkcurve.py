"""Units over src/ark_curve (arkworks build): encoding/decoding, operators, element traits, Elligator."""
import dataclasses
from vx.extract import Fn, Item, Unit, src
from .fieldc import field_params, FIELDS
from . import ops as opsmod

R12 = "#[verifier::exec_allows_no_decreases_clause]"
BU = "broadcast use fq_abs, fr_abs, ad_consts, isqrt_spec_ok, curve_axioms, lemma_bytes_val_bound, comm_ops;"

ENC = "src/ark_curve/encoding.rs"
SIGN = "src/sign.rs"


def base_preludes():
    fq = field_params("fq")
    fr = field_params("fr")
    return [("common.rs", None), ("field_consts.rs", dict(fq, NW=fq["N64"])), ("field_abs.rs", fq), ("field_abs.rs", fr),
            ("std_standins.rs", None), ("le_lemmas.rs", None)]


def sign_items():
    """src/sign.rs verbatim: trait Sign (default methods) and impl Sign for Fq"""
    tr = Item(SIGN, "pub trait Sign: core::ops::Neg<Output = Self> + Sized", [
        Fn("is_nonnegative", ensures="r == !is_neg(self.sval())", props=("C01", "C02", "C03", "C07"), cover=False),
        Fn("is_negative", ensures="r == is_neg(self.sval())", props=("C01", "C02", "C03", "C07")),
        Fn("abs", requires="self.neg_req(), Self::obeys_neg_spec(), self.sval() >= 0",
           ensures="r == (if is_neg(self.sval()) { self.neg_spec() } else { self })", props=("C01", "C03")),
    ], extra_assoc="    spec fn sval(&self) -> int;", raw_top=True)
    im = Item(SIGN, "impl Sign for Fq", [
        Fn("is_nonnegative", props=("C01", "C02", "C03", "C07"),
           preamble="broadcast use fq_abs; assert(forall|x: u64| ((x & 1) == 0) == (x % 2 == 0)) by(bit_vector); broadcast use lemma_limbs_lsb;")],
        extra_assoc="    open spec fn sval(&self) -> int { self.val() }", raw_top=True)
    return [tr, im]


def fq_field_stubs():
    items, lem = opsmod.stub_items("fq")
    return items, lem


CURVE_LEMMAS = r"""
// ---- named mathematical assumptions about the *specification* functions (DESIGN.md section 4)
// M-DECAF(on-curve): every successfully decoded point is on the curve
pub broadcast axiom fn m_decaf_decode_on_curve(s: int)
    requires in_fq(s)
    ensures match #[trigger] spec_decode(s) { Some(p) => on_curve(p) && p4_wf(p), None => true };
pub broadcast group curve_axioms { m_decaf_decode_on_curve }

// byte-level decoding verdict shared by every decoding entry point (C02)
pub open spec fn decode_result(b: Seq<u8>) -> Result<Element, EncodingError> {
    match decode_bytes_spec(b) { Some(p) => Ok(Element { inner: of_p4(p) }), None => Err(EncodingError::InvalidEncoding) }
}
// canonical 32-byte little-endian form of an integer below 2^256 (bijection [u8;32] <-> [0, 2^256))
pub uninterp spec fn le32(v: int) -> [u8; 32];
pub broadcast axiom fn le32_val(v: int)
    requires 0 <= v < 0x1_0000_0000_0000_0000_0000_0000_0000_0000_0000_0000_0000_0000_0000_0000_0000_0000int
    ensures bytes_val(#[trigger] le32(v)@) == v;
pub broadcast axiom fn le32_of_val(b: [u8; 32])
    ensures le32(#[trigger] bytes_val(b@)) == b;
pub broadcast group le32_axioms { le32_val, le32_of_val }
// a 32-byte string whose value is below q (< 2^253) has its top three bits clear
pub broadcast proof fn lemma_top_byte(b: Seq<u8>)
    requires b.len() == 32, #[trigger] bytes_val(b) < fq_p()
    ensures b[31] < 32
{
    lemma_bytes_split(b, 31);
    lemma_bytes_val_bound(b.take(31));
    reveal_with_fuel(bytes_val, 2);
    assert(b.skip(31).len() == 1);
    assert(bytes_val(b.skip(31)) == b[31] as int + 256 * bytes_val(b.skip(31).drop_first()));
    assert(b.skip(31).drop_first().len() == 0);
    assert(pow256(31) == 0x1_0000_0000_0000_0000_0000_0000_0000_0000_0000_0000_0000_0000_0000_0000_0000_00int) by(compute_only);
    let k = pow256(31);
    let hi = b[31] as int;
    assert(fq_p() < 32 * 0x1_0000_0000_0000_0000_0000_0000_0000_0000_0000_0000_0000_0000_0000_0000_0000_00int) by(compute_only);
    assert(hi < 32) by(nonlinear_arith)
        requires k > 0, hi >= 0, bytes_val(b.take(31)) >= 0, bytes_val(b.take(31)) + k * hi < 32 * k;
}
pub broadcast proof fn lemma_subrange32(s: Seq<u8>)
    requires s.len() == 32
    ensures #[trigger] s.subrange(0, 32) == s
{ assert(s.subrange(0, 32) =~= s); }
pub open spec fn pow256(k: nat) -> int decreases k { if k == 0 { 1 } else { 256 * pow256((k - 1) as nat) } }
pub proof fn lemma_bytes_split(s: Seq<u8>, k: int)
    requires 0 <= k <= s.len()
    ensures bytes_val(s) == bytes_val(s.take(k)) + pow256(k as nat) * bytes_val(s.skip(k))
    decreases k
{
    if k == 0 {
        assert(s.take(0).len() == 0);
        assert(s.skip(0) =~= s);
    } else {
        let s1 = s.drop_first();
        lemma_bytes_split(s1, k - 1);
        assert(s.take(k).drop_first() =~= s1.take(k - 1));
        assert(s.skip(k) =~= s1.skip(k - 1));
        assert(bytes_val(s.take(k)) == s[0] as int + 256 * bytes_val(s1.take(k - 1)));
        assert(pow256(k as nat) == 256 * pow256((k - 1) as nat));
        assert(256 * (pow256((k - 1) as nat) * bytes_val(s1.skip(k - 1))) == pow256(k as nat) * bytes_val(s1.skip(k - 1))) by(nonlinear_arith)
            requires pow256(k as nat) == 256 * pow256((k - 1) as nat);
    }
}
pub broadcast proof fn lemma_limbs_lsb(s: Seq<u64>)
    requires s.len() >= 1
    ensures #[trigger] limbs_val(s) % 2 == (s[0] as int) % 2
{
    lemma_limbs_val_bound(s.drop_first());
    assert(limbs_val(s) == s[0] as int + W64() * limbs_val(s.drop_first()));
    assert((s[0] as int + W64() * limbs_val(s.drop_first())) % 2 == (s[0] as int) % 2) by(nonlinear_arith)
        requires W64() == 2 * 0x8000_0000_0000_0000int;
}
"""


def encoding_unit():
    fq = field_params("fq")
    stubs, lem = fq_field_stubs()
    items = list(stubs) + sign_items()
    u = Unit(name="ark_encoding", preludes=base_preludes() + [("curve_spec.rs", None), ("ark_ec.rs", None), ("ark_curve_misc.rs", None)],
             items=items, lemmas=lem + CURVE_LEMMAS, params=fq, lazy_names=("ONE", "TWO", "ZETA_TO_ONE_MINUS_M_DIV_TWO", "G"))
    dec = Fn("vartime_decompress",
             ensures="r == decode_result(self.0@)",
             preamble=BU + " assert(forall|x: u8| (x >> 5 != 0u8) == (x >= 32u8)) by(bit_vector); assert(self.0@.take(32) =~= self.0@);",
             before_tail="assert(spec_decode(bytes_val(self.0@)) is Some);",
             props=("C01", "C02", "C06"))
    items.append(Item(ENC, "impl Encoding", [dec]))
    # the deprecated alias is an entry point like the others
    items.append(Item(ENC, "impl Encoding", [Fn("decompress", ensures="r == decode_result(self.0@)", preamble=BU, props=("C02", "C06"))]))
    for f_ in [
        Fn("negate", ensures="repr(r.inner) == te_neg(repr(self.inner))", preamble=BU, props=("C04",)),
        Fn("vartime_compress_to_field", ensures="r.val() == spec_encode(repr(self.inner))", preamble=BU, props=("C01", "C03")),
        Fn("vartime_compress", ensures="r.0 == le32(spec_encode(repr(self.inner))), r.0@[31] < 32", props=("C01", "C03"),
           preamble=BU + " broadcast use le32_axioms, lemma_top_byte, lemma_subrange32; assert(forall|x: u8| x < 32u8 ==> (x & 0b00011111u8) == x) by(bit_vector);"),
    ]:
        items.append(Item(ENC, "impl Element", [f_]))

    def conv(header, fn, pre, keep=(), **kw):
        items.append(Item(ENC, header, [Fn(fn, preamble=BU, attrs=R12, **kw)], pre=pre, keep_assoc=keep))
    enc_of = "Encoding(le32(spec_encode(repr(point.inner))))"
    conv("impl From<&Element> for Encoding", "from", f"""impl<'a> FromSpecImpl<&'a Element> for Encoding {{
    open spec fn obeys_from_spec() -> bool {{ true }}
    open spec fn from_spec(point: &'a Element) -> Encoding {{ {enc_of} }}
}}""", props=("C03",))
    conv("impl From<Element> for Encoding", "from", f"""impl FromSpecImpl<Element> for Encoding {{
    open spec fn obeys_from_spec() -> bool {{ true }}
    open spec fn from_spec(point: Element) -> Encoding {{ {enc_of} }}
}}""", props=("C03",))
    conv("impl From<[u8; 32]> for Encoding", "from", """impl FromSpecImpl<[u8; 32]> for Encoding {
    open spec fn obeys_from_spec() -> bool { true }
    open spec fn from_spec(bytes: [u8; 32]) -> Encoding { Encoding(bytes) }
}""", props=("C02",))
    conv("impl From<Encoding> for [u8; 32]", "from", """impl FromSpecImpl<Encoding> for [u8; 32] {
    open spec fn obeys_from_spec() -> bool { true }
    open spec fn from_spec(enc: Encoding) -> [u8; 32] { enc.0 }
}""", props=("C03",))
    conv("impl From<Element> for [u8; 32]", "from", """impl FromSpecImpl<Element> for [u8; 32] {
    open spec fn obeys_from_spec() -> bool { true }
    open spec fn from_spec(enc: Element) -> [u8; 32] { le32(spec_encode(repr(enc.inner))) }
}""", props=("C03",))
    conv("impl TryFrom<&Encoding> for Element", "try_from", """impl<'a> TryFromSpecImpl<&'a Encoding> for Element {
    open spec fn obeys_try_from_spec() -> bool { true }
    open spec fn try_from_spec(bytes: &'a Encoding) -> Result<Element, EncodingError> { decode_result(bytes.0@) }
}""", props=("C02",), keep=("Error",))
    conv("impl TryFrom<Encoding> for Element", "try_from", """impl TryFromSpecImpl<Encoding> for Element {
    open spec fn obeys_try_from_spec() -> bool { true }
    open spec fn try_from_spec(bytes: Encoding) -> Result<Element, EncodingError> { decode_result(bytes.0@) }
}""", props=("C02",), keep=("Error",))
    conv("impl TryFrom<[u8; 32]> for Element", "try_from", """impl TryFromSpecImpl<[u8; 32]> for Element {
    open spec fn obeys_try_from_spec() -> bool { true }
    open spec fn try_from_spec(bytes: [u8; 32]) -> Result<Element, EncodingError> { decode_result(bytes@) }
}""", props=("C02",), keep=("Error",))
    u.raw = [("src/error.rs", "enum", "EncodingError"), (ENC, "struct", "Encoding"),
             ("src/ark_curve/element/projective.rs", "struct", "Element")]
    return u


# ----------------------------------------------------------------------------- operators (C04, C05)
import re as _re

OPS_P = "src/ark_curve/ops/projective.rs"
OPS_A = "src/ark_curve/ops/affine.rs"
ELEM = "src/ark_curve/element.rs"
ELEM_P = "src/ark_curve/element/projective.rs"
ELEM_A = "src/ark_curve/element/affine.rs"


def view(expr, ty):
    t = ty.replace("&", "").replace("'a", "").replace("'b", "").replace("mut ", "").strip()
    if t in ("Element", "Self_Element"):
        return f"repr({expr}.inner)"
    if t == "AffinePoint":
        return f"arepr({expr}.inner)"
    if t == "Fr":
        return f"{expr}.val()"
    raise ValueError(ty)


OPS_LEMMAS = r"""
impl Element { pub open spec fn p4(self) -> P4 { repr(self.inner) } }
pub broadcast proof fn to_affine_idem(q: P4)
    ensures #[trigger] to_affine(to_affine(q)) == to_affine(q)
{ }
pub broadcast proof fn arepr_of_aff(q: P4)
    requires p4_wf(q)
    ensures arepr(#[trigger] of_aff(to_affine(q))) == to_affine(q)
{
    broadcast use fq_abs;
    let w = to_affine(q);
    assert(p4_wf(w));
    assert(w.z == 1 && w.t == fmul(w.x, w.y)) by {
        if ark_is_zero(q) { assert(fmul(0, 1) == 0); }
    }
    assert(fq_of(w.x).val() == w.x && fq_of(w.y).val() == w.y);
}
pub broadcast proof fn repr_of_p4(q: P4)
    requires p4_wf(q)
    ensures repr(#[trigger] of_p4(q)) == q
{ broadcast use fq_abs; }
pub broadcast proof fn to_affine_wf(q: P4)
    requires p4_wf(q)
    ensures p4_wf(#[trigger] to_affine(q))
{ }
"""
BUO = "broadcast use fq_abs, fr_abs, to_affine_idem, to_affine_wf, ark_mul_is_smul, arepr_of_aff, repr_of_p4;"


def conv_items():
    """the four From conversions between Element and AffinePoint (src/ark_curve/element.rs)"""
    out = []
    for hdr, pname, src_t, dst_t in [
        ("impl From<Element> for AffinePoint", "point", "Element", "AffinePoint"),
        ("impl From<AffinePoint> for Element", "point", "AffinePoint", "Element"),
        ("impl From<&Element> for AffinePoint", "point", "&Element", "AffinePoint"),
        ("impl From<&AffinePoint> for Element", "point", "&AffinePoint", "Element"),
    ]:
        lt = "<'a>" if src_t.startswith("&") else ""
        st = src_t.replace("&", "&'a ")
        if dst_t == "AffinePoint":
            spec = "AffinePoint { inner: of_aff(to_affine(repr(point.inner))) }"
        else:
            spec = "Element { inner: of_p4(arepr(point.inner)) }"
        pre = f"""impl{lt} FromSpecImpl<{st}> for {dst_t} {{
    open spec fn obeys_from_spec() -> bool {{ true }}
    open spec fn from_spec(point: {st}) -> {dst_t} {{ {spec} }}
}}"""
        out.append(Item(ELEM, hdr, [Fn("from", preamble=BUO, props=("C04", "C06"), attrs=R12)], pre=pre))
    return out


def _specimpl(gen, trait, rhs_t, self_t, out_t):
    """SpecImpl with obeys = false: the contract is the impl-level `ensures` (normal-form equality), the SpecImpl
    only states that the operator has no precondition"""
    meth = {"Add": "add", "Sub": "sub", "Mul": "mul", "Neg": "neg", "AddAssign": "add_assign", "SubAssign": "sub_assign",
            "MulAssign": "mul_assign"}[trait]
    gen = gen or ""
    if trait == "Neg":
        return f"""impl{gen} NegSpecImpl for {self_t} {{
    open spec fn obeys_neg_spec() -> bool {{ false }}
    open spec fn neg_req(self) -> bool {{ true }}
    open spec fn neg_spec(self) -> {out_t} {{ arbitrary() }}
}}"""
    if trait.endswith("Assign"):
        return f"""impl{gen} {trait}SpecImpl<{rhs_t}> for {self_t} {{
    open spec fn obeys_{meth}_spec() -> bool {{ false }}
    open spec fn {meth}_req(&self, rhs: {rhs_t}) -> bool {{ true }}
    open spec fn {meth}_spec(&self, rhs: {rhs_t}) -> &{self_t} {{ self }}
}}"""
    return f"""impl{gen} {trait}SpecImpl<{rhs_t}> for {self_t} {{
    open spec fn obeys_{meth}_spec() -> bool {{ false }}
    open spec fn {meth}_req(self, rhs: {rhs_t}) -> bool {{ true }}
    open spec fn {meth}_spec(self, rhs: {rhs_t}) -> {out_t} {{ arbitrary() }}
}}"""


T_OK_HINT = " broadcast use lemma_t_ok_add, lemma_t_ok_neg, lemma_t_ok_aff;"


def op_items(path, props_addsub=("C04",), props_mul=("C05",)):
    s = src(path)
    items = []
    for imp in s.all_items():
        if imp.kind != "impl":
            continue
        hdr = _re.sub(r'\s+', ' ', imp.header.strip())
        m = _re.match(r"impl(<[^>]*>)?\s*(\w+)(?:<(.*)>)?\s*for (.+)$", hdr)
        if not m:
            continue
        gen, trait, rhs_t, self_t = m.groups()
        fns = [c for c in imp.children() if c.kind == "fn"]
        if len(fns) != 1:
            continue
        fn = fns[0]
        out_t = None
        for c in imp.children():
            if c.kind == "type" and c.name == "Output":
                out_t = _re.search(r'=\s*(.*?);', c.text).group(1).replace("Self", self_t.replace("&'a ", "").replace("&", ""))
        pm = _re.search(r'\(\s*(?:&\s*mut\s+self|mut\s+self|&\s*self|self)\s*(?:,\s*(?:mut\s+)?(\w+)\s*:\s*([^)]*))?\)', fn.sig_text)
        pname = pm.group(1) if pm else None
        if trait in ("Add", "Sub"):
            op = "te_add" if trait == "Add" else "te_sub"
            ens = f"to_affine({view('r', out_t)}) == to_affine({op}({view('self', self_t)}, {view(pname, rhs_t)})), t_ok({view('r', out_t)})"
            items.append(Item(path, hdr, [Fn(fn.name, ensures=ens, preamble=BUO + T_OK_HINT, props=props_addsub, attrs=R12)], keep_assoc=("Output",),
                              pre=_specimpl(gen, trait, rhs_t, self_t, out_t)))
        elif trait in ("AddAssign", "SubAssign"):
            op = "te_add" if trait == "AddAssign" else "te_sub"
            ens = f"to_affine({view('final(self)', self_t)}) == to_affine({op}({view('old(self)', self_t)}, {view(pname, rhs_t)})), t_ok({view('final(self)', self_t)})"
            items.append(Item(path, hdr, [Fn(fn.name, ensures=ens, preamble=BUO + T_OK_HINT, props=props_addsub, attrs=R12)],
                              pre=_specimpl(gen, trait, rhs_t, self_t, out_t)))
        elif trait == "Neg":
            ens = f"to_affine({view('r', out_t)}) == to_affine(te_neg({view('self', self_t)})), t_ok({view('self', self_t)}) ==> t_ok({view('r', out_t)})"
            items.append(Item(path, hdr, [Fn(fn.name, ensures=ens, preamble=BUO + T_OK_HINT, props=props_addsub, attrs=R12)], keep_assoc=("Output",),
                              pre=_specimpl(gen, trait, rhs_t, self_t, out_t)))
        elif trait == "Mul":
            # one operand is the scalar, the other the point
            if "Fr" in self_t:
                k, pt, pt_t = "self", pname, rhs_t
            else:
                k, pt, pt_t = pname, "self", self_t
            ens = f"to_affine({view('r', out_t)}) == to_affine(ark_mul({k}.val(), {view(pt, pt_t)}))"
            items.append(Item(path, hdr, [Fn(fn.name, ensures=ens, preamble=BUO, props=props_mul, attrs=R12)], keep_assoc=("Output",),
                              pre=_specimpl(gen, trait, rhs_t, self_t, out_t)))
        elif trait == "MulAssign":
            ens = f"to_affine({view('final(self)', self_t)}) == to_affine(ark_mul({pname}.val(), {view('old(self)', self_t)}))"
            items.append(Item(path, hdr, [Fn(fn.name, ensures=ens, preamble=BUO, props=props_mul, attrs=R12)],
                              pre=_specimpl(gen, trait, rhs_t, self_t, out_t)))
    return items


def ops_unit():
    fq = field_params("fq")
    stubs, lem = fq_field_stubs()
    items = list(stubs) + conv_items() + op_items(OPS_P) + op_items(OPS_A)
    u = Unit(name="ark_ops", preludes=base_preludes() + [("curve_spec.rs", None), ("ark_ec.rs", None)],
             items=items, lemmas=lem + OPS_LEMMAS, params=fq,
             global_subst=[("R7", r'\bProjective<Decaf377EdwardsConfig>', 'EdwardsProjective')])
    u.raw = [("src/ark_curve/element/projective.rs", "struct", "Element"), ("src/ark_curve/element/affine.rs", "struct", "AffinePoint")]
    u.ufcs = True
    return u


def unit(which):
    return {"encoding": encoding_unit, "ops": ops_unit, "element": element_unit, "elligator": elligator_unit}[which]()


# ----------------------------------------------------------------------------- element traits (C06, C08, C04 sums)
BUE = "broadcast use fq_abs, fr_abs, to_affine_idem, to_affine_wf, ark_mul_is_smul, arepr_of_aff, repr_of_p4, validity_axioms, le32_axioms;"

ELEMENT_LEMMAS = r"""
// ---- vartime_multiscalar_mul: generic iterators and Borrow (A-STD).  `into_seq(c)` is the sequence IntoIterator::into_iter(c)
// yields; Iterator::next pops the head of the remaining sequence (R32 desugars `a.zip(b).fold(init, f)` to the loop over both)
pub trait Borrow<B> { spec fn borrow_spec(&self) -> B; fn borrow(&self) -> (r: &B) ensures *r == self.borrow_spec(); }
impl Borrow<Fr> for Fr { open spec fn borrow_spec(&self) -> Fr { *self } fn borrow(&self) -> (r: &Fr) { self } }
impl Borrow<Element> for Element { open spec fn borrow_spec(&self) -> Element { *self } fn borrow(&self) -> (r: &Element) { self } }
pub uninterp spec fn into_seq<I: IntoIterator>(it: I) -> Seq<I::Item>;
#[verifier::external_body]
pub fn std_into_iter<I: IntoIterator>(it: I) -> (r: I::IntoIter)
    ensures iter_seq(r) == into_seq(it)
{ it.into_iter() }
#[verifier::external_body]
pub fn std_next<I: Iterator>(it: &mut I) -> (r: Option<I::Item>)
    ensures match r { Some(v) => iter_seq(*old(it)).len() > 0 && v == iter_seq(*old(it))[0] && iter_seq(*final(it)) == iter_seq(*old(it)).drop_first(),
                      None => iter_seq(*old(it)).len() == 0 && iter_seq(*final(it)).len() == 0 }
{ it.next() }
// the reference products [c_i] P_i of the pairs the zip yields (as many as the shorter side has)
pub open spec fn msm_terms<A: Borrow<Fr>, B: Borrow<Element>>(ss: Seq<A>, ps: Seq<B>) -> Seq<P4> {
    Seq::new(if ss.len() < ps.len() { ss.len() } else { ps.len() }, |i: int| ark_mul(ss[i].borrow_spec().val(), repr(ps[i].borrow_spec().inner)))
}
// the result is the left-to-right sum, from the identity, of terms that are -- in canonical affine form -- the reference products
pub open spec fn msm_post<A: Borrow<Fr>, B: Borrow<Element>>(ss: Seq<A>, ps: Seq<B>, r: P4) -> bool {
    exists|ts: Seq<P4>, pa: Seq<P4>| ts.len() == msm_terms(ss, ps).len() && #[trigger] sum_trace_e(ts, pa, r)
        && forall|i: int| 0 <= i < ts.len() ==> to_affine(#[trigger] ts[i]) == to_affine(msm_terms(ss, ps)[i])
}
// rand.rs: the RNG and the arkworks curve-point sampler are arbitrary sources (A-ARK-2 / A-STD)
pub trait Rng {}
pub struct Standard;
impl EdwardsProjective {
    #[verifier::external_body]
    pub fn rand<R: Rng + ?Sized>(rng: &mut R) -> (r: EdwardsProjective) { unimplemented!() }
    // CanonicalSerialize::serialize_compressed into a 32-byte buffer (arkworks compressed form: 32 bytes)
    #[verifier::external_body]
    pub fn serialize_compressed_into(&self, out: &mut [u8; 32]) -> (r: Result<(), SerializationError>) ensures r is Ok { unimplemented!() }
}

// Hash of a [u8; 32] (core: length prefix, then the bytes): a function of the bytes only
pub uninterp spec fn hash_prefix32() -> Seq<u8>;
pub trait HashBytes { spec fn hb(&self) -> Seq<u8>; }
impl Hash for [u8; 32] {
    #[verifier::external_body]
    fn hash<H: Hasher>(&self, state: &mut H)
        ensures final(state).written() == old(state).written() + hash_prefix32() + self@
    { unimplemented!() }
}
pub open spec fn views_e(s: Seq<Element>) -> Seq<P4> { s.map_values(|x: Element| repr(x.inner)) }
pub open spec fn views_er(s: Seq<&Element>) -> Seq<P4> { s.map_values(|x: &Element| repr(x.inner)) }
pub open spec fn views_a(s: Seq<AffinePoint>) -> Seq<P4> { s.map_values(|x: AffinePoint| arepr(x.inner)) }
pub open spec fn views_ar(s: Seq<&AffinePoint>) -> Seq<P4> { s.map_values(|x: &AffinePoint| arepr(x.inner)) }
// the trace of a fold with Add from the identity: accs[0] is the identity, each step is the group law
pub open spec fn sum_trace_e(s: Seq<P4>, accs: Seq<P4>, r: P4) -> bool {
    accs.len() == s.len() + 1 && accs[0] == id4() && accs[s.len() as int] == r
    && forall|i: int| 0 <= i < s.len() ==> to_affine(#[trigger] accs[i + 1]) == to_affine(te_add(accs[i], s[i]))
}
"""


CURVE_LEMMAS_E = CURVE_LEMMAS + r"""
pub trait Zero: Sized { fn zero() -> Self; fn is_zero(&self) -> bool; }
impl Zero for Fq {
    #[verifier::external_body]
    fn zero() -> (r: Fq) ensures r.val() == 0 { unimplemented!() }       // src/fields/fq/arkworks.rs (unit fieldx_fq)
    #[verifier::external_body]
    fn is_zero(&self) -> (r: bool) ensures r == (self.val() == 0) { unimplemented!() }
}
impl Element {
    // value proved by compute in unit `consts` (on curve, [r]G = identity => valid by M-GROUP)
    #[verifier::external_body]
    pub exec const GENERATOR: Element ensures repr(Element::GENERATOR.inner) == gen_p4()
    { Element { inner: EdwardsProjective { x: Fq::dummy_(), y: Fq::dummy_(), t: Fq::dummy_(), z: Fq::dummy_() } } }
}
// proved by compute in unit `consts`: gen_p4 is on the curve and [r]gen_p4 = identity (=> valid by M-GROUP)
pub broadcast axiom fn gen_valid() ensures #[trigger] valid(gen_p4());
"""


def element_unit():
    fq = field_params("fq")
    stubs, lem = fq_field_stubs()
    items = list(stubs) + conv_items_stub()
    items.append(Item(ENC, "impl Element", [Fn("vartime_compress", ensures="r.0 == le32(spec_encode(repr(self.inner))), r.0@[31] < 32")],
                      mode="stub", proved_in="ark_encoding"))
    # samplers (src/ark_curve/rand.rs): whatever the RNG stream, the value handed out went through the decoder
    RAND = "src/ark_curve/rand.rs"
    items.append(Item(RAND, "impl Distribution<Element> for Standard", [Fn(
        "sample", props=("C06",), preamble=BUE, attrs=R12, loops_begin={0: BUE + " broadcast use lemma_bytes_val_bound, curve_axioms;"},
        ensures="valid(repr(r.inner))",
        subst=[("R6", r'\.serialize_compressed\(&mut (\w+)\[\.\.\]\)', r'.serialize_compressed_into(&mut \1)'),
               ("R6", r'\.expect\("[^"]*"\)', '.unwrap()'),
               ("R27", r'(if let Ok\(p\) = [^{]*\{)', r'\1 proof { lemma_bytes_val_bound(bytes@); assert(bytes@.take(32) =~= bytes@); }')])],
        header_out="impl Standard"))
    items.append(Item(ENC, "impl Encoding", [Fn("vartime_decompress", ensures="r == decode_result(self.0@)")], mode="stub", proved_in="ark_encoding"))
    items.append(Item(RAND, "impl Distribution<AffinePoint> for Standard", [Fn(
        "sample", variant="#affine", props=("C06",), preamble=BUE, ensures="valid(arepr(r.inner))",
        subst=[("R13b", r'\bself\.sample\(rng\)', 'self.sample(rng)')])], header_out="impl Standard"))
    # Add impls used by the Sum folds, as stubs (proved in ark_ops)
    ops_stub = [dataclasses.replace(it, mode="stub", proved_in="ark_ops",
                                    fns=[dataclasses.replace(f, preamble="") for f in it.fns])
                for it in op_items(OPS_P) + op_items(OPS_A)
                if (_re.search(r'\b(Add|Sub)<', it.header) and "for Element" in it.header)
                or it.header == "impl<'a, 'b> Mul<&'b Element> for &'a Fr"]
    items += ops_stub
    P_ = ELEM_P
    items.append(Item(P_, "impl Element", [Fn("IDENTITY", as_const=True, ensures="repr(Element::IDENTITY.inner) == id4()", props=("C06",))]))
    INV_ = """0 <= k_ <= a0_.len(), k_ <= b0_.len(),
                pa_.len() == k_ + 1, ts_.len() == k_, pa_[0] == id4(), pa_[k_] == repr(acc_.inner),
                forall|i: int| 0 <= i < k_ ==> to_affine(#[trigger] pa_[i + 1]) == to_affine(te_add(pa_[i], ts_[i])),
                forall|i: int| 0 <= i < k_ ==> to_affine(#[trigger] ts_[i]) == to_affine(msm_terms(a0_, b0_)[i]),"""
    items.append(Item(P_, "impl Element", [Fn(
        "vartime_multiscalar_mul", props=("C05",),
        preamble=BUE + " let ghost mut k_: int = 0; let ghost mut pa_: Seq<P4> = seq![id4()]; let ghost mut ts_: Seq<P4> = Seq::empty();",
        subst=[("R6", r'\b(\w+)\.into_iter\(\)', r'std_into_iter(\1)')],
        ensures="msm_post(into_seq(scalars), into_seq(points), repr(r.inner))",
        loops={0: f"""invariant_except_break iter_seq(a_) == a0_.skip(k_), iter_seq(b_) == b0_.skip(k_), {INV_}
            ensures k_ == a0_.len() || k_ == b0_.len(), sum_trace_e(ts_, pa_, repr(acc_.inner)), {INV_}
            decreases iter_seq(a_).len()"""},
        loops_begin={0: "let ghost pa0_ = pa_; let ghost ts0_ = ts_;"},
        loops_end={0: """let want_ = ark_mul(x_.borrow_spec().val(), repr(y_.borrow_spec().inner));
                assert(exists|t: P4| #[trigger] te_add(repr(acc0_.inner), t) == te_add(repr(acc0_.inner), t) && to_affine(t) == to_affine(want_)
                       && to_affine(repr(acc_.inner)) == to_affine(te_add(repr(acc0_.inner), t)));
                let tmv_ = choose|t: P4| #[trigger] te_add(repr(acc0_.inner), t) == te_add(repr(acc0_.inner), t) && to_affine(t) == to_affine(want_)
                       && to_affine(repr(acc_.inner)) == to_affine(te_add(repr(acc0_.inner), t));
                assert(x_ == a0_[k_]); assert(y_ == b0_[k_]);
                assert(a0_.skip(k_).drop_first() =~= a0_.skip(k_ + 1));
                assert(b0_.skip(k_).drop_first() =~= b0_.skip(k_ + 1));
                ts_ = ts_.push(tmv_);
                pa_ = pa_.push(repr(acc_.inner));
                k_ = k_ + 1;
                assert forall|i: int| 0 <= i < k_ implies to_affine(#[trigger] pa_[i + 1]) == to_affine(te_add(pa_[i], ts_[i])) by {
                    if i < k_ - 1 { assert(pa_[i + 1] == pa0_[i + 1] && pa_[i] == pa0_[i] && ts_[i] == ts0_[i]); }
                }
                assert forall|i: int| 0 <= i < k_ implies to_affine(#[trigger] ts_[i]) == to_affine(msm_terms(a0_, b0_)[i]) by {
                    if i < k_ - 1 { assert(ts_[i] == ts0_[i]); }
                }"""})]))
    items.append(Item(P_, "impl Hash for Element", [Fn("hash", props=("C08",), preamble=BUE,
                      ensures="final(state).written() == old(state).written() + hash_prefix32() + le32(spec_encode(repr(self.inner)))@")]))
    items.append(Item(P_, "impl Default for Element", [Fn("default", ensures="repr(r.inner) == id4()", props=("C06", "C08"), preamble=BUE)]))
    pre = """impl PartialEqSpecImpl<Element> for Element {
    open spec fn obeys_eq_spec() -> bool { true }
    open spec fn eq_spec(&self, other: &Element) -> bool { spec_eq(repr(self.inner), repr(other.inner)) }
}"""
    items.append(Item(P_, "impl PartialEq for Element", [Fn("eq", props=("C08", "C01"), preamble=BUE, attrs=R12)], pre=pre))
    items.append(Item(P_, "impl Element", [Fn("is_identity", ensures="r == spec_is_identity(repr(self.inner))", props=("C08",), preamble=BUE)]))
    items.append(Item(P_, "impl Zero for Element", [
        Fn("zero", ensures="repr(r.inner) == id4()", props=("C06", "C08"), preamble=BUE),
        Fn("is_zero", ensures="r == spec_is_identity(repr(self.inner))", props=("C08",), preamble=BUE)]))
    A_ = ELEM_A
    items.append(Item(A_, "impl Hash for AffinePoint", [Fn("hash", props=("C08",), preamble=BUE,
                      ensures="final(state).written() == old(state).written() + hash_prefix32() + le32(spec_encode(arepr(self.inner)))@")]))
    items.append(Item(A_, "impl Default for AffinePoint", [Fn("default", ensures="arepr(r.inner) == id4()", props=("C06", "C08"), preamble=BUE)]))
    pre = """impl PartialEqSpecImpl<AffinePoint> for AffinePoint {
    open spec fn obeys_eq_spec() -> bool { true }
    open spec fn eq_spec(&self, other: &AffinePoint) -> bool { spec_eq(arepr(self.inner), arepr(other.inner)) }
}"""
    items.append(Item(A_, "impl PartialEq for AffinePoint", [Fn("eq", props=("C08", "C01"), preamble=BUE, attrs=R12)], pre=pre))
    for (path_, hdr, a_t, vw) in [
        (P_, "impl core::iter::Sum<Self> for Element", "Element", "views_e"),
        (P_, "impl<'a> core::iter::Sum<&'a Element> for Element", "&'a Element", "views_er"),
        (A_, "impl core::iter::Sum<AffinePoint> for Element", "AffinePoint", "views_a"),
        (A_, "impl<'a> core::iter::Sum<&'a AffinePoint> for Element", "&'a AffinePoint", "views_ar"),
    ]:
        a_s = a_t.replace("'a ", "")
        ens = f"exists|pa: Seq<P4>| #[trigger] sum_trace_e({vw}(iter_seq(iter)), pa, repr(r.inner))"
        epi = f"""broadcast use fq_abs;
            let s = iter_seq(iter);
            let accs = choose|accs: Seq<Element>| fold_trace(s, <Element as Add<{a_s}>>::add, r_, accs) && repr(accs[0].inner) == id4();
            let pa = accs.map_values(|e: Element| repr(e.inner));
            let sv = {vw}(s);
            assert forall|i: int| 0 <= i < sv.len() implies to_affine(#[trigger] pa[i + 1]) == to_affine(te_add(pa[i], sv[i])) by {{
                assert(call_ensures(<Element as Add<{a_s}>>::add, (accs[i], s[i]), accs[i + 1]));
            }}
            assert(sum_trace_e(sv, pa, repr(r_.inner)));"""
        items.append(Item(path_, hdr, [Fn("sum", ensures=ens, epilogue=epi, props=("C04",), attrs=R12, preamble=BUE,
                                          subst=[("R6", r'\biter\s*\.\s*fold\s*\(', 'std_fold(iter, ')])],
                          header_out=hdr.replace("core::iter::Sum", "Sum").replace("<Self>", "<Element>")))
    E_ = ELEM
    items.append(Item(E_, "impl Group for Element", [
        Fn("generator", ensures="repr(r.inner) == gen_p4()", props=("C06",), preamble=BUE),
        Fn("mul_bigint", ensures="repr(r.inner) == ark_mul(limbs_val(asref_seq(other)), repr(self.inner))", props=("C05",), preamble=BUE)],
        header_out="impl Element"))
    items.append(Item(E_, "impl CurveGroup for Element", [
        Fn("into_affine", ensures="r.inner == of_aff(to_affine(repr(self.inner)))", props=("C06",), preamble=BUE)], header_out="impl Element"))
    # batch conversion / normalisation: every output is the affine form of the corresponding input (R28 desugars the
    # two map/collect chains; the arkworks batch routine is assumed to agree with element-wise conversion, A-ARK-2)
    def batch(hdr, fname, var, ark_fn):
        inv0 = f"""invariant src_@ == {var}@, i_ <= src_@.len(), out_@.len() == i_ as int,
                        forall|k: int| 0 <= k < i_ ==> #[trigger] out_@[k] == {var}@[k].inner,
                    decreases src_@.len() - i_"""
        inv1 = f"""invariant i_ <= src_@.len(), out_@.len() == i_ as int, src_@.len() == {var}@.len(),
                        forall|k: int| 0 <= k < src_@.len() ==> #[trigger] src_@[k] == of_aff(to_affine(repr({var}@[k].inner))),
                        forall|k: int| 0 <= k < i_ ==> #[trigger] out_@[k] == (AffinePoint {{ inner: of_aff(to_affine(repr({var}@[k].inner))) }}),
                    decreases src_@.len() - i_"""
        items.append(Item(E_, hdr, [Fn(fname, props=("C06",), preamble=BUE,
                                       ensures=f"r@.len() == {var}@.len(), forall|k: int| 0 <= k < {var}@.len() ==> (#[trigger] r@[k]).inner == of_aff(to_affine(repr({var}@[k].inner)))",
                                       loops={0: inv0, 1: inv1},
                                       subst=[("R6", r'&(\w+)\[\s*\.\.\s*\]', r'\1.as_slice()')])], header_out="impl Element"))
    batch("impl CurveGroup for Element", "normalize_batch", "v", "normalize_batch")
    batch("impl ScalarMul for Element", "batch_convert_to_mul_base", "bases", "batch_convert_to_mul_base")
    items.append(Item(E_, "impl AffineRepr for AffinePoint", [
        Fn("zero", ensures="arepr(r.inner) == id4()", props=("C06",), preamble=BUE),
        Fn("is_zero", ensures="r == spec_is_identity(arepr(self.inner))", props=("C08",), preamble=BUE),
        Fn("generator", ensures="arepr(r.inner) == gen_p4()", props=("C06",), preamble=BUE + " assert(fmul(gen_p4().x, gen_p4().y) == gen_p4().t) by(compute_only);"),
        Fn("from_random_bytes", ensures="match r { Some(p) => valid(arepr(p.inner)), None => true }", props=("C06",), preamble=BUE,
           subst=[("R9", r'\|p\| AffinePoint \{', '|p: EdwardsAffine| -> (q: AffinePoint) ensures q.inner == of_aff(to_affine(te_add(arepr(p), arepr(p)))) { AffinePoint {'),
                  ("R9", r'\(p \+ p\)\.into\(\),\s*\}\)', '(p + p).into(), } })')]),
        Fn("mul_bigint", ensures="repr(r.inner) == ark_mul(limbs_val(asref_seq(other)), arepr(self.inner))", props=("C05",), preamble=BUE),
        Fn("clear_cofactor", ensures="r == *self", props=("C06",), preamble=BUE),
        Fn("mul_by_cofactor_to_group", ensures="r.inner == of_p4(arepr(self.inner))", props=("C06",), preamble=BUE)],
        header_out="impl AffinePoint"))
    split = []
    for it in items:
        if it.mode == "verify" and len(it.fns) > 1 and it.header_out and " for " not in it.header_out:
            split += [dataclasses.replace(it, fns=[f]) for f in it.fns]
        else:
            split.append(it)
    items = split
    u = Unit(name="ark_element", preludes=base_preludes() + [("curve_spec.rs", None), ("ark_ec.rs", None), ("ark_curve_misc.rs", None)],
             items=items, lemmas=lem + CURVE_LEMMAS_E + OPS_LEMMAS.replace("impl Element { pub open spec fn p4(self) -> P4 { repr(self.inner) } }", "") + ELEMENT_LEMMAS, params=fq,
             global_subst=[("R7", r'\bProjective<Decaf377EdwardsConfig>', 'EdwardsProjective'),
                           ("R7", r'\bcore::hash::Hasher\b', 'Hasher')])
    u.raw = [("src/error.rs", "enum", "EncodingError"), (ENC, "struct", "Encoding"),
             ("src/ark_curve/element/projective.rs", "struct", "Element"), ("src/ark_curve/element/affine.rs", "struct", "AffinePoint")]
    u.ufcs_fns = ("vartime_multiscalar_mul",)
    return u


def conv_items_stub():
    return [dataclasses.replace(it, mode="stub", proved_in="ark_ops", fns=[dataclasses.replace(f, preamble="") for f in it.fns])
            for it in conv_items()]


# ----------------------------------------------------------------------------- Elligator (C07)
ELL = "src/ark_curve/elligator.rs"
ELL_LEMMAS = r"""
// M-ELL: the optimised Elligator map lands on the curve (with z != 0), in 2E
pub broadcast axiom fn m_ell_on_curve(r0: int)
    requires in_fq(r0)
    ensures on_curve(#[trigger] ell_opt(r0)), valid(ell_opt(r0));
"""


def elligator_unit():
    fq = field_params("fq")
    stubs, lem = fq_field_stubs()
    items = list(stubs) + sign_items()
    items += [dataclasses.replace(it, mode="stub", proved_in="ark_ops", fns=[dataclasses.replace(f, preamble="") for f in it.fns])
              for it in op_items(OPS_P) if it.header == "impl<'a, 'b> Add<&'b Element> for &'a Element"]
    bu = "broadcast use fq_abs, ad_consts, isqrt_spec_ok, m_ell_on_curve, to_affine_wf, comm_ops;"
    items.append(Item(ELL, "impl Element", [Fn("elligator_map", ensures="repr(r.inner) == to_affine(ell_opt(r_0.val()))", props=("C07", "C06"),
                                               preamble=bu + " assert(on_curve(ell_opt(r_0.val())));")]))
    items.append(Item(ELL, "impl Element", [Fn("hash_to_curve", props=("C07",), preamble=bu,
                      ensures="to_affine(repr(r.inner)) == to_affine(te_add(to_affine(ell_opt(r_1.val())), to_affine(ell_opt(r_2.val()))))")]))
    items.append(Item(ELL, "impl Element", [Fn("encode_to_curve", ensures="repr(res.inner) == to_affine(ell_opt(r.val()))", ret="res", props=("C07",), preamble=bu)]))
    u = Unit(name="ark_elligator", preludes=base_preludes() + [("curve_spec.rs", None), ("ark_ec.rs", None), ("ark_curve_misc.rs", None)],
             items=items, lemmas=lem + CURVE_LEMMAS + OPS_LEMMAS.replace("impl Element { pub open spec fn p4(self) -> P4 { repr(self.inner) } }", "") + ELL_LEMMAS,
             params=fq, lazy_names=("ONE", "TWO"))
    u.raw = [("src/error.rs", "enum", "EncodingError"), (ENC, "struct", "Encoding"),
             ("src/ark_curve/element/projective.rs", "struct", "Element")]
    u.ufcs_fns = ("hash_to_curve",)
    return u
