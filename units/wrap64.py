"""U(wrap64_<f>): the 64-bit wrapper (src/fields/<f>/u64/wrapper.rs) against Z/p, on top of the
arkworks stand-in (A-ARK-1).  Proves the contracts every higher layer imports."""
import dataclasses
from vx.extract import Fn, Item, Unit, src
from .fieldc import field_params, wrapper_contracts, wrapper_file, FIELDS

R12 = "#[verifier::exec_allows_no_decreases_clause]"


def with_(fn, **kw):
    return dataclasses.replace(fn, **kw)


def unit(f):
    fp = dict(field_params(f))
    F = fp["F"]
    ARK = "Arkworks" + F
    fp["ARK"] = ARK
    fp["ZEROS_TAIL"] = ", ".join(["0u64"] * (fp["N64"] - 1))
    path = wrapper_file(f, "u64")
    c = wrapper_contracts(f)
    P = f"{f}_p()"
    bu = "broadcast use ark_axioms;"
    items = []
    I = lambda fns, **kw: items.append(Item(path, f"impl {F}", fns, **kw))
    n64 = fp["N64"]
    n8 = fp["N8"]
    # constants first (others refer to them)
    I([with_(c["ZERO"], preamble="proof { reveal_with_fuel(limbs_val, 8); }")])
    I([with_(c["ONE"], preamble="proof { reveal_with_fuel(limbs_val, 8); }")])
    has_sentinel = any(ch.kind == 'const' and ch.name == 'SENTINEL' for imp in src(path).find_impls(f"impl {F}") for ch in imp.children())
    fml = with_(c["from_montgomery_limbs"], requires=None,
                ensures=f"r.0.0.0 == limbs, limbs_val(limbs@) < {P} ==> (r.wf() && r.val() == mmul({P}, limbs_val(limbs@), {fp['RINV']}int))")
    I([fml])
    if has_sentinel:
        I([Fn("SENTINEL", as_const=True, ensures=f"forall|i: int| 0 <= i < {n64} ==> {F}::SENTINEL.0.0.0@[i] == 0xffff_ffff_ffff_ffffu64", props=("C10",))])
        I([Fn("is_sentinel", ensures=f"r == (forall|i: int| 0 <= i < {n64} ==> self.0.0.0@[i] == 0xffff_ffff_ffff_ffffu64)", props=("C10",),
              preamble=f"assert(forall|a: Seq<u64>, b: Seq<u64>| a.len() == {n64} && b.len() == {n64} && (forall|i: int| 0 <= i < {n64} ==> a[i] == b[i]) ==> a =~= b);")])
    # PartialEq: structural equality of the Montgomery limbs (sentinel cases included); == value equality on wf values
    pre = f"""impl PartialEqSpecImpl<{F}> for {F} {{
    open spec fn obeys_eq_spec() -> bool {{ true }}
    open spec fn eq_spec(&self, other: &{F}) -> bool {{ self.0.0.0@ =~= other.0.0.0@ }}
}}"""
    items.append(Item(path, f"impl PartialEq for {F}", [Fn("eq", props=("C10", "C08"), attrs=R12)], pre=pre))
    I([with_(c["from_raw_bytes"], preamble=bu)])
    I([with_(c["from_le_limbs"], preamble=bu + " broadcast use lemma_limbs_bytes_b;", unroll="all",
             rlimit=(150 if n64 > 4 else None))])
    I([with_(c["to_bytes_le"], preamble=bu)])
    I([with_(c["to_le_limbs"], preamble=bu + " broadcast use lemma_limbs_bytes_b;", unroll="all")])
    for n in ("square", "inverse", "add", "sub", "mul", "neg"):
        I([with_(c[n], preamble=bu)])
    sfile = src(path)
    if sfile.find_impls(f"impl ConditionallySelectable for {F}"):
        cs = Fn("conditional_select", props=("C10",), preamble=bu, unroll="all",
                epilogue="if choice.b() { lemma_ext(r_, *b); } else { lemma_ext(r_, *a); }",
                )
        items.append(Item(path, f"impl ConditionallySelectable for {F}", [cs],
                          extra_assoc="    open spec fn cs_wf(&self) -> bool { self.wf() }"))
        ce = Fn("ct_eq", props=("C10",), unroll="all",
                preamble=bu + " proof { lemma_eq_canon(*self, *other); lemma_seq_eq_n(self.0.0.0@, other.0.0.0@); }",
                subst=[("R15", r'\b(\w+)\s*&=\s*([^;]+);', r'{ let e_: bool = \2; \1 = \1 && e_; }')])
        items.append(Item(path, f"impl ConstantTimeEq for {F}", [ce],
                          extra_assoc="    open spec fn ct_wf(&self) -> bool { self.wf() }\n    open spec fn ct_eq_spec(&self, other: &Self) -> bool { self.val() == other.val() }"))
    fp["SEQ_EQ"] = " && ".join(f"a[{k}] == b[{k}]" for k in range(n64))
    lem = LEMMAS.replace("@F@", F).replace("@f@", f).replace("@ARK@", ARK)
    u = Unit(name=f"wrap64_{f}",
             preludes=[("common.rs", None), ("field_consts.rs", dict(NW=fp["N64"])), ("le_lemmas.rs", None),
                       ("ark_ff.rs", None), ("subtle.rs", None)],
             items=items, lemmas=lem, params=fp,
             )
    u.raw = [(path, "struct", F)]
    u.consts = {"N_64": n64, "N_8": n8, "N": n64, "N_32": fp["N32"]}
    return u


LEMMAS = r"""
pub proof fn lemma_limbs_zero(s: Seq<u64>)
    requires forall|i: int| 0 <= i < s.len() ==> s[i] == 0
    ensures limbs_val(s) == 0
    decreases s.len()
{
    if s.len() > 0 { lemma_limbs_zero(s.drop_first()); }
}
pub proof fn lemma_seq_eq_n(a: Seq<u64>, b: Seq<u64>)
    requires a.len() == @N64@, b.len() == @N64@
    ensures (a =~= b) <==> (@SEQ_EQ@)
{ }
pub proof fn lemma_ext(x: @F@, y: @F@)
    requires forall|i: int| 0 <= i < @N64@ ==> x.0.0.0@[i] == y.0.0.0@[i]
    ensures x == y
{ assert(x.0.0.0 =~= y.0.0.0); }
impl @F@ {
    pub open spec fn wf(self) -> bool { ark_wf(self.0) }
    pub open spec fn val(self) -> int { ark_val(self.0) }
}
// canonicity: on well-formed elements structural equality (what PartialEq computes) is value equality
pub proof fn lemma_eq_canon(a: @F@, b: @F@)
    requires a.wf(), b.wf()
    ensures (a.0.0.0@ == b.0.0.0@) <==> (a.val() == b.val())
{
    broadcast use ark_axioms;
    if a.val() == b.val() {
        assert(a.0 == ark_of(ark_val(a.0)));
        assert(b.0 == ark_of(ark_val(b.0)));
    }
    if a.0.0.0@ == b.0.0.0@ {
        assert(a.0.0.0@ =~= b.0.0.0@);
    }
}
"""
