"""U(bls_consts): every literal of src/ark_curve/bls12_377.rs against (a) the value *defined* by the modulus and
(b) the corresponding constant of the reference crate ark-bls12-377 0.4.0 (parsed from its source in the cargo registry),
one lemma each, discharged by Verus by(compute_only)  (C16, constants part)."""
import glob
import os
import re
from vx.extract import Unit, src
from vx.rsscan import LostAnchor
from .fieldc import field_params, limbs_to_int
from .consts import Gen, I

BLS = "src/ark_curve/bls12_377.rs"


def ref_file(rel):
    g = glob.glob(os.path.expanduser("~/.cargo/registry/src/*/ark-bls12-377-0.4.0/src/" + rel))
    if not g:
        raise LostAnchor("reference crate ark-bls12-377-0.4.0 not found in the cargo registry")
    return open(g[0]).read()


def our_tokens(text, P, RINV):
    """sequence of Fp values in a constant's initialiser: ONE / ZERO / MINUS_ONE / from_montgomery_limbs([...])"""
    out = []
    for m in re.finditer(r'Fp::(ONE|ZERO|MINUS_ONE)\b|Fp::from_montgomery_limbs\(\s*\[(.*?)\]\s*,?\s*\)|Fq::from_montgomery_limbs\(\s*\[(.*?)\]\s*,?\s*\)', text, re.S):
        if m.group(1):
            out.append(("val", {"ONE": 1, "ZERO": 0, "MINUS_ONE": P - 1}[m.group(1)]))
        else:
            arr = m.group(2) or m.group(3)
            out.append(("mont", limbs_to_int([int(x.strip().replace('_', ''), 0) for x in arr.split(',') if x.strip()])))
    return out


def ref_tokens(text, P):
    out = []
    for m in re.finditer(r'Fq::(ONE|ZERO)\b|MontFp!\(\s*"(-?\d+)"\s*,?\s*\)', text, re.S):
        if m.group(1):
            out.append({"ONE": 1, "ZERO": 0}[m.group(1)])
        else:
            out.append(int(m.group(2)) % P)
    return out


def const_text(text, name):
    m = re.search(r'const\s+' + name + r'\b[^=]*=\s*(.*?);\s*\n', text, re.S)
    if not m:
        raise LostAnchor(f"reference constant {name}")
    return m.group(1)


def u64_array(text):
    m = re.search(r'&\[(.*?)\]', text, re.S)
    return [int(x.strip().replace('_', ''), 0) for x in m.group(1).split(',') if x.strip()]


def unit(_=None):
    fp = field_params("fp")
    fq = field_params("fq")
    P, RINV = fp["P"], fp["RINV"]
    rr, RINVq = fq["P"], fq["RINV"]
    s = src(BLS)
    g = Gen()
    pr = ("C16", "C17")

    def val(tok):
        kind, v = tok
        return I(v) if kind == "val" else f"mmul({I(P)}, {I(v)}, {I(RINV)})"

    def cmp_seq(name, ours_item, ref_text, what):
        ours = our_tokens(ours_item.text, P, RINV)
        ref = ref_tokens(ref_text, P)
        if len(ours) != len(ref):
            g.add(f"bls_{name}_shape", "false", pr, f"{what}: {len(ours)} literals here vs {len(ref)} in the reference", BLS, ours_item)
            return ours
        for i, (o, r_) in enumerate(zip(ours, ref)):
            rng = f" && {I(o[1])} < {I(P)}" if o[0] == "mont" else ""
            g.add(f"bls_{name}_{i}", f"{val(o)} == {I(r_)}{rng}", pr, f"{what}[{i}] equals the reference constant", BLS, ours_item)
        return ours
    f6 = ref_file("fields/fq6.rs")
    f12 = ref_file("fields/fq12.rs")
    g1 = ref_file("curves/g1.rs")
    g2 = ref_file("curves/g2.rs")
    cm = ref_file("curves/mod.rs")
    c1 = cmp_seq("FP6_C1", s.find_const("impl Fp6Config for F6Config", "FROBENIUS_COEFF_FP6_C1"), const_text(f6, "FROBENIUS_COEFF_FP6_C1"), "FROBENIUS_COEFF_FP6_C1 (c0, c1 pairs)")
    c2 = cmp_seq("FP6_C2", s.find_const("impl Fp6Config for F6Config", "FROBENIUS_COEFF_FP6_C2"), const_text(f6, "FROBENIUS_COEFF_FP6_C2"), "FROBENIUS_COEFF_FP6_C2")
    c12 = cmp_seq("FP12_C1", s.find_const("impl Fp12Config for F12Config", "FROBENIUS_COEFF_FP12_C1"), const_text(f12, "FROBENIUS_COEFF_FP12_C1"), "FROBENIUS_COEFF_FP12_C1")
    # defining values: xi = u with u^2 = -5; xi^((p^k-1)/3) = gamma^k with gamma = (-5)^((p-1)/6) in Fp; similarly delta = (-5)^((p-1)/12)
    it6 = s.find_const("impl Fp6Config for F6Config", "FROBENIUS_COEFF_FP6_C1")
    it12 = s.find_const("impl Fp12Config for F12Config", "FROBENIUS_COEFF_FP12_C1")
    if (P - 1) % 12 == 0 and len(c1) == 12 and len(c2) == 12 and len(c12) == 24:
        gam = val(c1[2])
        g.add("bls_gamma_def", f"{gam} == mpow({I(P)}, {I(P - 5)}, {(P - 1) // 6}nat)", pr, "FP6_C1[1] = xi^((p-1)/3) = (-5)^((p-1)/6)", BLS, it6)
        for k in range(6):
            g.add(f"bls_FP6_C1_pow_{k}", f"{val(c1[2 * k])} == mpow({I(P)}, {gam}, {k}nat) && {val(c1[2 * k + 1])} == 0", pr, f"FP6_C1[{k}] = xi^((p^{k}-1)/3) = gamma^{k}", BLS, it6)
            g.add(f"bls_FP6_C2_sq_{k}", f"{val(c2[2 * k])} == mmul({I(P)}, {val(c1[2 * k])}, {val(c1[2 * k])}) && {val(c2[2 * k + 1])} == 0", pr, f"FP6_C2[{k}] = FP6_C1[{k}]^2", BLS, it6)
        dl = val(c12[2])
        g.add("bls_delta_def", f"{dl} == mpow({I(P)}, {I(P - 5)}, {(P - 1) // 12}nat)", pr, "FP12_C1[1] = xi^((p-1)/6) = (-5)^((p-1)/12)", BLS, it12)
        for k in range(12):
            g.add(f"bls_FP12_C1_pow_{k}", f"{val(c12[2 * k])} == mpow({I(P)}, {dl}, {k}nat) && {val(c12[2 * k + 1])} == 0", pr, f"FP12_C1[{k}] = xi^((p^{k}-1)/6) = delta^{k}", BLS, it12)
    else:
        g.add("bls_frobenius_shape", "false", pr, "unexpected number of Frobenius coefficients", BLS)
    # Fp2 non-residue -5 (value of Fp::QUADRATIC_NON_RESIDUE)
    qnr = src("src/fields/fp/u64/wrapper.rs").find_const("impl Fp", "QUADRATIC_NON_RESIDUE")
    from .consts import mont_limbs
    g.add("bls_Fp2_NONRESIDUE", f"mmul({I(P)}, {I(mont_limbs(qnr))}, {I(RINV)}) == {I(P - 5)}", pr, "Fp2 non-residue = -5 (reference: MontFp!(\"-5\"))", "src/fields/fp/u64/wrapper.rs", qnr)
    # generators
    gx = cmp_seq("G1_GENERATOR_X", s.find_const(None, "G1_GENERATOR_X"), const_text(g1, "G1_GENERATOR_X"), "G1 generator x")
    gy = cmp_seq("G1_GENERATOR_Y", s.find_const(None, "G1_GENERATOR_Y"), const_text(g1, "G1_GENERATOR_Y"), "G1 generator y")
    if len(gx) == 1 and len(gy) == 1:
        g.add("bls_G1_on_curve", f"mmul({I(P)}, {val(gy[0])}, {val(gy[0])}) == madd({I(P)}, mmul({I(P)}, mmul({I(P)}, {val(gx[0])}, {val(gx[0])}), {val(gx[0])}), 1)", pr,
              "G1 generator satisfies y^2 = x^3 + 1", BLS)
        g.add("bls_G1_order_r", f"sw_smul({I(P)}, {rr}nat, ({val(gx[0])}, {val(gy[0])}, 1)).2 == 0", pr, "[r]G1 is the point at infinity (Jacobian Z = 0)", BLS)
    x2 = our_tokens(s.find_const(None, "G2_GENERATOR_X").text, P, RINV)
    y2 = our_tokens(s.find_const(None, "G2_GENERATOR_Y").text, P, RINV)
    refx = [int(re.search(r'const G2_GENERATOR_X_C' + c + r': Fq = MontFp!\("(\d+)"\)', g2).group(1)) for c in "01"]
    refy = [int(re.search(r'const G2_GENERATOR_Y_C' + c + r': Fq = MontFp!\("(\d+)"\)', g2).group(1)) for c in "01"]
    for nm, ours, ref in (("G2_GENERATOR_X", x2, refx), ("G2_GENERATOR_Y", y2, refy)):
        for i in range(2):
            g.add(f"bls_{nm}_{i}", (f"{val(ours[i])} == {I(ref[i])}" if len(ours) == 2 else "false"), pr, f"{nm} c{i} equals the reference", BLS, s.find_const(None, nm))
    cb = our_tokens(s.find_const("impl SWCurveConfig for OurG2Config", "COEFF_B").text, P, RINV)
    refb = ref_tokens(re.search(r'const COEFF_B: Fq2 = Fq2::new\((.*?)\);', g2, re.S).group(1), P)
    for i in range(2):
        g.add(f"bls_G2_COEFF_B_{i}", (f"{val(cb[i])} == {I(refb[i])}" if len(cb) == 2 and len(refb) == 2 else "false"), pr, f"G2 COEFF_B c{i} equals the reference", BLS)
    if len(x2) == 2 and len(y2) == 2 and len(cb) == 2:
        X = f"({val(x2[0])}, {val(x2[1])})"
        Y = f"({val(y2[0])}, {val(y2[1])})"
        B = f"({val(cb[0])}, {val(cb[1])})"
        g.add("bls_G2_on_curve", f"f2mul({I(P)}, {Y}, {Y}) == f2add({I(P)}, f2mul({I(P)}, f2mul({I(P)}, {X}, {X}), {X}), {B})", pr,
              "G2 generator satisfies y^2 = x^3 + B' over Fp2 = Fp[u]/(u^2+5)", BLS)
        g.add("bls_G2_order_r", f"f2z(sw2_smul({I(P)}, {rr}nat, ({X}, {Y}, (1, 0))).2)", pr, "[r]G2 is the point at infinity (Jacobian Z = 0 in Fp2)", BLS)
    # cofactors
    for cfg, ref, nm in (("impl CurveConfig for OurG1Config", g1, "G1"), ("impl CurveConfig for OurG2Config", g2, "G2")):
        cof = s.find_const(cfg, "COFACTOR")
        ours = u64_array(cof.text)
        refa = u64_array(const_text(ref, "COFACTOR"))
        h = limbs_to_int(ours)
        g.add(f"bls_{nm}_COFACTOR", "true" if ours == refa else "false", pr, f"{nm} cofactor limbs equal the reference", BLS, cof)
        ci = s.find_const(cfg, "COFACTOR_INV")
        civ = our_tokens(ci.text, rr, RINVq)
        refinv = int(re.search(r'COFACTOR_INV: Fr\s*=\s*MontFp!\("(\d+)"\)', ref).group(1))
        g.add(f"bls_{nm}_COFACTOR_INV", f"mmul({I(rr)}, {I(civ[0][1])}, {I(RINVq)}) == {I(refinv)} && mmul({I(rr)}, {I(h % rr)}, {I(refinv)}) == 1", pr,
              f"{nm} COFACTOR_INV equals the reference and cofactor * inverse == 1 mod r", BLS, ci)
    xs = u64_array(s.find_const("impl Bls12Config for Config", "X").text)
    xr = u64_array(const_text(cm, "X"))
    xv = limbs_to_int(xs)
    g.add("bls_X", "true" if xs == xr else "false", pr, "curve parameter x equals the reference", BLS)
    g.add("bls_G1_COFACTOR_def", f"3 * {I(limbs_to_int(u64_array(s.find_const('impl CurveConfig for OurG1Config', 'COFACTOR').text)))} == ({I(xv)} - 1) * ({I(xv)} - 1)", pr,
          "G1 cofactor = (x-1)^2/3", BLS)
    g.add("bls_r_def", f"{I(xv)} * {I(xv)} * {I(xv)} * {I(xv)} - {I(xv)} * {I(xv)} + 1 == {I(rr)}", pr, "r = x^4 - x^2 + 1", BLS)
    g.add("bls_p_def", f"3 * {I(P)} == ({I(xv)} - 1) * ({I(xv)} - 1) * {I(rr)} + 3 * {I(xv)}", pr, "p = (x-1)^2 r / 3 + x", BLS)
    tt = re.search(r'TWIST_TYPE:\s*TwistType\s*=\s*TwistType::(\w+)', s.text)
    tr = re.search(r'TWIST_TYPE:\s*TwistType\s*=\s*TwistType::(\w+)', cm)
    g.add("bls_TWIST_TYPE", "true" if tt and tr and tt.group(1) == tr.group(1) else "false", pr, "twist type equals the reference", BLS)
    u = Unit(name="bls_consts", preludes=[("common.rs", None)], items=[], lemmas=PRE + "\n".join(g.lemmas), params=fp)
    u.proof_obls = g.obls
    return u


PRE = r"""
// Fp2 = Fp[u]/(u^2 + 5)
pub open spec fn f2add(p: int, a: (int, int), b: (int, int)) -> (int, int) { (madd(p, a.0, b.0), madd(p, a.1, b.1)) }
pub open spec fn f2mul(p: int, a: (int, int), b: (int, int)) -> (int, int) {
    (msub(p, mmul(p, a.0, b.0), mmul(p, 5, mmul(p, a.1, b.1))), madd(p, mmul(p, a.0, b.1), mmul(p, a.1, b.0)))
}
// short Weierstrass y^2 = x^3 + b, a = 0, Jacobian coordinates (X : Y : Z), x = X/Z^2, y = Y/Z^3
pub open spec fn sw_double(p: int, q: (int, int, int)) -> (int, int, int) {
    // dbl-2009-l
    let a = mmul(p, q.0, q.0);
    let b = mmul(p, q.1, q.1);
    let c = mmul(p, b, b);
    let t = msub(p, msub(p, mmul(p, madd(p, q.0, b), madd(p, q.0, b)), a), c);
    let d = madd(p, t, t);
    let e = madd(p, madd(p, a, a), a);
    let f = mmul(p, e, e);
    let x3 = msub(p, f, madd(p, d, d));
    let y3 = msub(p, mmul(p, e, msub(p, d, x3)), mmul(p, 8, c));
    let z3 = mmul(p, madd(p, q.1, q.1), q.2);
    (x3, y3, z3)
}
pub open spec fn sw_add(p: int, a: (int, int, int), b: (int, int, int)) -> (int, int, int) {
    // add-2007-bl, with the special cases (infinity operands, doubling)
    if a.2 == 0 { b } else if b.2 == 0 { a } else {
        let z1z1 = mmul(p, a.2, a.2);
        let z2z2 = mmul(p, b.2, b.2);
        let u1 = mmul(p, a.0, z2z2);
        let u2 = mmul(p, b.0, z1z1);
        let s1 = mmul(p, mmul(p, a.1, b.2), z2z2);
        let s2 = mmul(p, mmul(p, b.1, a.2), z1z1);
        if u1 == u2 && s1 == s2 { sw_double(p, a) } else {
            let h = msub(p, u2, u1);
            let i = mmul(p, madd(p, h, h), madd(p, h, h));
            let j = mmul(p, h, i);
            let r = madd(p, msub(p, s2, s1), msub(p, s2, s1));
            let v = mmul(p, u1, i);
            let x3 = msub(p, msub(p, mmul(p, r, r), j), madd(p, v, v));
            let y3 = msub(p, mmul(p, r, msub(p, v, x3)), mmul(p, madd(p, s1, s1), j));
            let z3 = mmul(p, msub(p, msub(p, mmul(p, madd(p, a.2, b.2), madd(p, a.2, b.2)), z1z1), z2z2), h);
            (x3, y3, z3)
        }
    }
}
// the same formulas over Fp2 (the twist E'(Fp2) : y^2 = x^3 + B')
pub open spec fn f2sub(p: int, a: (int, int), b: (int, int)) -> (int, int) { (msub(p, a.0, b.0), msub(p, a.1, b.1)) }
pub open spec fn f2z(a: (int, int)) -> bool { a.0 == 0 && a.1 == 0 }
pub open spec fn sw2_double(p: int, q: ((int, int), (int, int), (int, int))) -> ((int, int), (int, int), (int, int)) {
    let a = f2mul(p, q.0, q.0);
    let b = f2mul(p, q.1, q.1);
    let c = f2mul(p, b, b);
    let t = f2sub(p, f2sub(p, f2mul(p, f2add(p, q.0, b), f2add(p, q.0, b)), a), c);
    let d = f2add(p, t, t);
    let e = f2add(p, f2add(p, a, a), a);
    let f = f2mul(p, e, e);
    let x3 = f2sub(p, f, f2add(p, d, d));
    let y3 = f2sub(p, f2mul(p, e, f2sub(p, d, x3)), f2mul(p, (8, 0), c));
    let z3 = f2mul(p, f2add(p, q.1, q.1), q.2);
    (x3, y3, z3)
}
pub open spec fn sw2_add(p: int, a: ((int, int), (int, int), (int, int)), b: ((int, int), (int, int), (int, int))) -> ((int, int), (int, int), (int, int)) {
    if f2z(a.2) { b } else if f2z(b.2) { a } else {
        let z1z1 = f2mul(p, a.2, a.2);
        let z2z2 = f2mul(p, b.2, b.2);
        let u1 = f2mul(p, a.0, z2z2);
        let u2 = f2mul(p, b.0, z1z1);
        let s1 = f2mul(p, f2mul(p, a.1, b.2), z2z2);
        let s2 = f2mul(p, f2mul(p, b.1, a.2), z1z1);
        if u1 == u2 && s1 == s2 { sw2_double(p, a) } else {
            let h = f2sub(p, u2, u1);
            let i = f2mul(p, f2add(p, h, h), f2add(p, h, h));
            let j = f2mul(p, h, i);
            let r = f2add(p, f2sub(p, s2, s1), f2sub(p, s2, s1));
            let v = f2mul(p, u1, i);
            let x3 = f2sub(p, f2sub(p, f2mul(p, r, r), j), f2add(p, v, v));
            let y3 = f2sub(p, f2mul(p, r, f2sub(p, v, x3)), f2mul(p, f2add(p, s1, s1), j));
            let z3 = f2mul(p, f2sub(p, f2sub(p, f2mul(p, f2add(p, a.2, b.2), f2add(p, a.2, b.2)), z1z1), z2z2), h);
            (x3, y3, z3)
        }
    }
}
pub open spec fn sw2_smul(p: int, k: nat, g: ((int, int), (int, int), (int, int))) -> ((int, int), (int, int), (int, int)) decreases k {
    if k == 0 { ((1, 0), (1, 0), (0, 0)) } else if k % 2 == 0 { sw2_double(p, sw2_smul(p, k / 2, g)) } else { sw2_add(p, sw2_double(p, sw2_smul(p, k / 2, g)), g) }
}
pub open spec fn sw_smul(p: int, k: nat, g: (int, int, int)) -> (int, int, int) decreases k {
    if k == 0 { (1, 1, 0) } else if k % 2 == 0 { sw_double(p, sw_smul(p, k / 2, g)) } else { sw_add(p, sw_double(p, sw_smul(p, k / 2, g)), g) }
}
"""
