"""Units over the forwarding layers of the gadget code: the operator / CurveVar impls of src/ark_curve/r1cs/inner.rs
(unit r1cs_fwd_<mode>) and the lazily evaluated outer `ElementVar` of element.rs + ops.rs (unit r1cs_outer_<mode>), in the
same two readings as units/r1cs.py.  lazy.rs itself is proved by Kani on the verbatim file (vx/kani_lazy.py); here
`LazyElementVar` is an abstract type whose contract is what that harness establishes (forcing returns exactly what the
inner gadget returns on the constructor argument, always the same value)."""
import dataclasses
import re
from vx.extract import Fn, Item, Unit
from .fieldc import field_params
from . import ops as opsmod
from . import r1cs as r1

INN = "src/ark_curve/r1cs/inner.rs"
OUT = "src/ark_curve/r1cs/element.rs"
OPS = "src/ark_curve/r1cs/ops.rs"
R12 = "#[verifier::exec_allows_no_decreases_clause]"


def group_ops():
    """operator impls of the stand-in AffineVar (Add/Sub/AddAssign/SubAssign with AffineVar and with a native point)"""
    out = []
    V = "Decaf377EdwardsVar"
    for (tr, m, post) in (("Add", "add", "add_post"), ("Sub", "sub", "sub_post")):
        for (rt, view) in ((V, "pva(rhs)"), ("EdwardsProjective", "repr(rhs)")):
            out.append(f"""impl {tr}SpecImpl<{rt}> for {V} {{
    open spec fn obeys_{m}_spec() -> bool {{ false }}
    open spec fn {m}_req(self, rhs: {rt}) -> bool {{ true }}
    open spec fn {m}_spec(self, rhs: {rt}) -> {V} {{ arbitrary() }}
}}
impl {tr}<{rt}> for {V} {{ type Output = {V};
    #[verifier::external_body]
    fn {m}(self, rhs: {rt}) -> (r: {V}) ensures {post}(pva(self), {view}, pva(r)) {{ unimplemented!() }} }}
impl {tr}AssignSpecImpl<{rt}> for {V} {{
    open spec fn obeys_{m}_assign_spec() -> bool {{ false }}
    open spec fn {m}_assign_req(&self, rhs: {rt}) -> bool {{ true }}
    open spec fn {m}_assign_spec(&self, rhs: {rt}) -> &{V} {{ self }}
}}
impl {tr}Assign<{rt}> for {V} {{
    #[verifier::external_body]
    fn {m}_assign(&mut self, rhs: {rt}) ensures {post}(pva(*old(self)), {view}, pva(*final(self))) {{ unimplemented!() }} }}""")
    return "\n".join(out)


def _specimpl(tr, m, self_t, rhs_t, out_t, assign=False):
    g = "<'a>" if "'a" in rhs_t else ""
    if assign:
        return f"""impl{g} {tr}SpecImpl<{rhs_t}> for {self_t} {{
    open spec fn obeys_{m}_spec() -> bool {{ false }}
    open spec fn {m}_req(&self, rhs: {rhs_t}) -> bool {{ true }}
    open spec fn {m}_spec(&self, rhs: {rhs_t}) -> &{out_t} {{ self }}
}}"""
    return f"""impl{g} {tr}SpecImpl<{rhs_t}> for {self_t} {{
    open spec fn obeys_{m}_spec() -> bool {{ false }}
    open spec fn {m}_req(self, rhs: {rhs_t}) -> bool {{ true }}
    open spec fn {m}_spec(self, rhs: {rhs_t}) -> {out_t} {{ arbitrary() }}
}}"""


FWD_LEMMAS = r"""
impl Clone for ElementVar {
    fn clone(&self) -> (r: ElementVar) ensures pv(r) == pv(*self)
    { ElementVar { inner: self.inner.clone() } }
}
pub open spec fn pv(e: ElementVar) -> P4 { P4 { x: e.inner.x.val(), y: e.inner.y.val(), z: 1, t: fmul(e.inner.x.val(), e.inner.y.val()) } }
pub struct Decaf377EdwardsConfig;
"""


def fwd_unit(mode):
    sound = mode == "sound"
    fq = dict(field_params("fq"))
    fq["SOUND"] = 1 if sound else 0
    fq["COMPL"] = 0 if sound else 1
    fq["FQVAR_OPS"] = r1.fqvar_ops()
    fq["GROUP_OPS"] = group_ops()
    stubs, lem = opsmod.stub_items("fq")
    items = list(stubs)
    tag = "C14" if sound else "C13"
    bu = "broadcast use fq_abs, r1cs_axioms;"
    E_ = "Err(_) => true" if sound else "Err(_) => false"
    sub7 = [("R7", r'\bAffineVar::<Decaf377EdwardsConfig, FqVar>::', 'Decaf377EdwardsVar::')]
    spec_impls = []

    def op(hdr, tr, m, rhs_t, rhs_view, post, assign=False):
        spec_impls.append(_specimpl(tr, m if not assign else m, "ElementVar", rhs_t, "ElementVar", assign))
        if assign:
            ens = f"{post}(pv(*old(self)), {rhs_view}, pv(*final(self)))"
        else:
            ens = f"{post}(pv(self), {rhs_view}, pv(r))"
        items.append(Item(INN, hdr, [Fn(m, props=(tag,), preamble=bu, ensures=ens, attrs=R12)], keep_assoc=() if assign else ("Output",)))
    op("impl Add for ElementVar", "Add", "add", "ElementVar", "pv(other)", "add_post")
    op("impl<'a> Add<&'a ElementVar> for ElementVar", "Add", "add", "&'a ElementVar", "pv(*other)", "add_post")
    op("impl AddAssign for ElementVar", "AddAssign", "add_assign", "ElementVar", "pv(rhs)", "add_post", True)
    op("impl<'a> AddAssign<&'a ElementVar> for ElementVar", "AddAssign", "add_assign", "&'a ElementVar", "pv(*rhs)", "add_post", True)
    op("impl Sub for ElementVar", "Sub", "sub", "ElementVar", "pv(other)", "sub_post")
    op("impl<'a> Sub<&'a ElementVar> for ElementVar", "Sub", "sub", "&'a ElementVar", "pv(*other)", "sub_post")
    op("impl SubAssign for ElementVar", "SubAssign", "sub_assign", "ElementVar", "pv(rhs)", "sub_post", True)
    op("impl<'a> SubAssign<&'a ElementVar> for ElementVar", "SubAssign", "sub_assign", "&'a ElementVar", "pv(*rhs)", "sub_post", True)
    op("impl Sub<Element> for ElementVar", "Sub", "sub", "Element", "repr(other.inner)", "sub_post")
    op("impl SubAssign<Element> for ElementVar", "SubAssign", "sub_assign", "Element", "repr(rhs.inner)", "sub_post", True)
    op("impl Add<Element> for ElementVar", "Add", "add", "Element", "repr(other.inner)", "add_post")
    op("impl AddAssign<Element> for ElementVar", "AddAssign", "add_assign", "Element", "repr(rhs.inner)", "add_post", True)
    cv = "impl CurveVar<Element, Fq> for ElementVar"
    def cvf(fn):
        items.append(Item(INN, cv, [dataclasses.replace(fn, subst=list(fn.subst) + sub7)], header_out="impl ElementVar"))
    cvf(Fn("zero", props=(tag,), preamble=bu, ensures="pv(r) == id4()"))
    cvf(Fn("constant", props=(tag,), preamble=bu, ensures="on_curve(repr(other.inner)) ==> proj_eq(pv(r), repr(other.inner)) && on_curve(pv(r))"))
    cvf(Fn("enforce_prime_order", props=(tag,), preamble=bu, ensures="r is Ok"))
    cvf(Fn("double_in_place", props=(tag,), preamble=bu,
           ensures=("r is Ok ==> " if sound else "r is Ok, ") + "add_post(pv(*old(self)), pv(*old(self)), pv(*final(self)))"))
    cvf(Fn("negate", props=(tag,), preamble=bu, ensures=f"match r {{ Ok(v) => pv(v) == te_neg(pv(*self)), {E_} }}"))
    # ---- R1CSVar: the native value a variable stands for, and its constraint system
    rv = "impl R1CSVar<Fq> for ElementVar"
    rvs = sub7 + [("R7", r'\bSelf::Value\b', 'Element')]
    items.append(Item(INN, rv, [Fn("cs", props=(tag,), preamble=bu, ensures="r == ev_cs(self.inner)", subst=rvs)], header_out="impl ElementVar"))
    items.append(Item(INN, rv, [Fn("value", props=(tag,), preamble=bu + " broadcast use repr_of_p4_;", subst=rvs,
                                   requires=None if sound else "on_curve(pv(*self))",
                                   ensures=f"match r {{ Ok(e) => repr(e.inner) == pv(*self), {E_} }}")], header_out="impl ElementVar"))
    extra_lem = ""
    if sound:
        # ---- AllocVar<Element>::new_variable, soundness reading (C14: "the curve coordinates offered when an element is
        # witnessed"): whatever coordinates and whatever encoding the prover offers, the variable handed back in Witness
        # mode is the in-circuit decoding of SOME field element
        S_ = "s_var.val()"
        dec_post = f"""match r {{ Ok(e) => !is_neg(s_var.val()) && exists|v0: int| #[trigger] isqrt_weak(dec_den(s_var.val()), true, v0)
                             && pv(e) == spec_decode_v(s_var.val(), v0), Err(_) => true }}"""
        pf = None
        for it_ in r1.unit(mode).items:
            if it_.mode == "verify" and it_.file == INN:
                for f_ in it_.fns:
                    if f_.name == "decompress_from_field" and not f_.variant:
                        pf = f_
        if pf is None or re.sub(r'\s+', ' ', pf.ensures).strip() != re.sub(r'\s+', ' ', dec_post).strip():
            from vx.rsscan import LostAnchor
            raise LostAnchor("imported contract r1cs_sound :: decompress_from_field differs from the proving unit's contract")
        items.append(Item(INN, "impl ElementVar", [Fn("decompress_from_field", ensures=dec_post)], mode="stub", proved_in="r1cs_sound"))
        extra_lem = _isqrt_weak_spec() + """
pub open spec fn dec_rel_s(s: int, p: P4) -> bool { !is_neg(s) && exists|v0: int| #[trigger] isqrt_weak(dec_den(s), true, v0) && p == spec_decode_v(s, v0) }
// q is the in-circuit decoding of s, or an on-curve point that the equality gadget identifies with it (the same group
// element: decaf equality on curve points identifies exactly the two representatives P and P + (0, -1))
pub open spec fn wit_rel_s(s: int, q: P4) -> bool { exists|p: P4| #[trigger] dec_rel_s(s, p) && (q == p || (spec_eq(q, p) && on_curve(q))) }
impl ElementVar {
    // EqGadget::enforce_equal (arkworks default method) = conditional_enforce_equal(other, &Boolean::TRUE), whose contract is
    // proved in r1cs_sound
    #[verifier::external_body]
    pub fn enforce_equal(&self, other: &ElementVar) -> (r: Result<(), SynthesisError>)
        ensures r is Ok ==> spec_eq(pv(*self), pv(*other))
    { unimplemented!() }
}
"""
        nvs = [("R7", r'core::borrow::Borrow<', 'Borrow<'),
               ("R7", r'impl\s+Into<ark_relations::r1cs::Namespace<Fq>>', 'Namespace<Fq>'), ("R7", r'\bcs\.into\(\)', 'cs'),
               ("R8", r'\bns!\(\s*(\w+)\s*,\s*"[^"]*"\s*\)', r'\1.clone()'),
               ("R7", r'\bAffineVar::new_variable_omit_prime_order_check\(', 'Decaf377EdwardsVar::new_variable_omit_prime_order_check('),
               # R20: name the decoded variable where it is produced, so that the existential witness does not depend on local names
               ("R20", r'ElementVar::decompress_from_field\((\w+)\)\?',
                r'{ let ghost gs_ = \1.val(); let c_ = ElementVar::decompress_from_field(\1)?; proof { assert(dec_rel_s(gs_, pv(c_))); gs2_ = gs_; gp2_ = pv(c_); } c_ }'),
               ("R20", r'(\w+)\.enforce_equal\(&(\w+)\)\?;', r'\1.enforce_equal(&\2)?; proof { assert(spec_eq(pv(\2), pv(\1))) by { assert(fmul(pv(\2).x, pv(\1).y) == fmul(pv(\1).y, pv(\2).x)); assert(fmul(pv(\2).y, pv(\1).x) == fmul(pv(\1).x, pv(\2).y)); } }')]
        items.append(Item(INN, "impl AllocVar<Element, Fq> for ElementVar", [Fn(
            "new_variable", props=(tag,), preamble=bu + " let ghost mut gs2_: int = 0; let ghost mut gp2_: P4 = id4();", subst=nvs,
            epilogue="match &r_ { Ok(e) => { if mode is Witness { assert(dec_rel_s(gs2_, gp2_)); assert(wit_rel_s(gs2_, pv(*e))); } } Err(_) => {} }",
            requires="call_requires(f, ()), !(mode is Input)",
            ensures="match r { Ok(e) => mode is Witness ==> exists|s: int| #[trigger] wit_rel_s(s, pv(e)), Err(_) => true }",
            tag="C14: the curve coordinates offered when an element is witnessed cannot be forged (any hint pair, any offered point)")],
            header_out="impl ElementVar"))
        # CurveVar::new_variable_omit_prime_order_check, soundness reading: by its name no group check; what IS enforced is the
        # curve equation on the witnessed coordinates
        OKP_ = "Ok::<EdwardsProjective, SynthesisError>"
        cvf(Fn("new_variable_omit_prime_order_check", props=(tag,), preamble=bu,
               subst=[("R7", r'impl\s+Into<ark_relations::r1cs::Namespace<Fq>>', 'Namespace<Fq>'), ("R7", r'\bcs\.into\(\)', 'cs'),
                      ("R7", r'\bAffineVar::new_variable_omit_prime_order_check\(', 'Decaf377EdwardsVar::new_variable_omit_prime_order_check(')],
               requires="call_requires(f, ())",
               ensures="match r { Ok(e) => !(mode is Constant) ==> on_curve(pv(e)), Err(_) => true }"))
    else:
        # ---- AllocVar<Element>::new_variable, completeness reading (C13: "every allocation mode"): for the honest prover --
        # the hint closure returns an element that is on the curve and whose encoding decodes to an element equal to it, which
        # is what C06 establishes for every Element the API hands out -- synthesis succeeds (the in-circuit decoding of the
        # witnessed encoding exists and the equality constraint with the witnessed coordinates holds) and the variable
        # denotes the native element: its canonical representative (Witness) or its affine form (Constant)
        S_ = "s_var.val()"
        dec_post = f"match r {{ Ok(e) => pv(e) == spec_decode({S_})->Some_0, Err(_) => false }}"
        dec_req = f"spec_decode({S_}) is Some"
        pf = pe = None
        for it_ in r1.unit(mode).items:
            if it_.mode == "verify" and it_.file == INN:
                for f_ in it_.fns:
                    if f_.name == "decompress_from_field" and not f_.variant:
                        pf = f_
                    if f_.name == "conditional_enforce_equal" and not f_.variant:
                        pe = f_
        nrm = lambda t: re.sub(r'\s+', ' ', t or '').strip()
        if pf is None or nrm(pf.ensures) != nrm(dec_post) or nrm(pf.requires) != nrm(dec_req):
            from vx.rsscan import LostAnchor
            raise LostAnchor("imported contract r1cs_compl :: decompress_from_field differs from the proving unit's contract")
        if pe is None or nrm(pe.requires) != "should_enforce.bval() ==> spec_eq(pv(*self), pv(*other))" or nrm(pe.ensures) != "r is Ok":
            from vx.rsscan import LostAnchor
            raise LostAnchor("imported contract r1cs_compl :: conditional_enforce_equal differs from the proving unit's contract")
        items.append(Item(INN, "impl ElementVar", [Fn("decompress_from_field", requires=dec_req, ensures=dec_post)], mode="stub", proved_in="r1cs_compl"))
        extra_lem = NV_COMPL_LEMMAS + """
impl ElementVar {
    // EqGadget::enforce_equal (arkworks default method) = conditional_enforce_equal(other, &Boolean::TRUE), whose contract is
    // proved in r1cs_compl
    #[verifier::external_body]
    pub fn enforce_equal(&self, other: &ElementVar) -> (r: Result<(), SynthesisError>)
        requires spec_eq(pv(*self), pv(*other))
        ensures r is Ok
    { unimplemented!() }
}
"""
        OKP = "Ok::<EdwardsProjective, SynthesisError>"
        nvc = [("R7", r'core::borrow::Borrow<', 'Borrow<'),
               ("R7", r'impl\s+Into<ark_relations::r1cs::Namespace<Fq>>', 'Namespace<Fq>'), ("R7", r'\bcs\.into\(\)', 'cs'),
               ("R8", r'\bns!\(\s*(\w+)\s*,\s*"[^"]*"\s*\)', r'\1.clone()'),
               ("R7", r'\bAffineVar::new_variable_omit_prime_order_check\(', 'Decaf377EdwardsVar::new_variable_omit_prime_order_check('),
               # R9: closures carry their specification explicitly (Verus does not look inside a closure body)
               ("R9", r'let f = \|\| Ok\(\*f\(\)\?\.borrow\(\)\);',
                """let ghost f0_ = f; let f = || -> (q_: Result<Element, SynthesisError>) requires call_requires(f, ())
                    ensures match q_ { Ok(v_) => exists|t_: T| call_ensures(f, (), Ok::<T, SynthesisError>(t_)) && v_ == t_.borrow_spec(), Err(_) => exists|e_: SynthesisError| call_ensures(f, (), Err::<T, SynthesisError>(e_)) }
                    { Ok(*f()?.borrow()) };"""),
               ("R9", r'\|\|\s*Ok\((\w+)\.inner\)', rf'|| -> (q_: Result<EdwardsProjective, SynthesisError>) ensures q_ == {OKP}(\1.inner) {{ Ok(\1.inner) }}'),
               ] + r1.r9_rules() + [
               # R20: the native element is named where it is produced, whatever the local is called
               ("R20", r'let (\w+) = f\(\)\?;', r'let \1 = f()?; let ghost gpp_ = \1;'),
               ("R20", r'(\w+)\.enforce_equal\(&(\w+)\)\?;', r'proof { lemma_nv_eq(repr(gpp_.inner), pv(\2), pv(\1)); } \1.enforce_equal(&\2)?;')]
        items.append(Item(INN, "impl AllocVar<Element, Fq> for ElementVar", [Fn(
            "new_variable", props=(tag,), preamble=bu + " broadcast use repr_range;", subst=nvc,
            requires=NV_REQ("T", "repr(q->Ok_0.borrow_spec().inner)"),
            ensures="match r { Ok(e) => exists|t: T| call_ensures(f, (), Ok::<T, SynthesisError>(t)) && nv_rel(mode, repr(t.borrow_spec().inner), pv(e)), Err(_) => false }",
            tag="C13: allocating the honest prover's element succeeds in Constant and Witness mode and denotes that element")],
            header_out="impl ElementVar"))
        cvf(Fn("new_variable_omit_prime_order_check", props=(tag,), preamble=bu,
               subst=[("R7", r'impl\s+Into<ark_relations::r1cs::Namespace<Fq>>', 'Namespace<Fq>'), ("R7", r'\bcs\.into\(\)', 'cs'),
                      ("R7", r'\bAffineVar::new_variable_omit_prime_order_check\(', 'Decaf377EdwardsVar::new_variable_omit_prime_order_check('),
                      ("R9", r'\|\|\s*Ok\((\w+)\.inner\)', rf'|| -> (q_: Result<EdwardsProjective, SynthesisError>) ensures q_ == {OKP}(\1.inner) {{ Ok(\1.inner) }}')],
               requires="""call_requires(f, ()), !(mode is Constant) ==> !cs_none(ns_cs(cs)),
                   forall|q: Result<Element, SynthesisError>| #[trigger] call_ensures(f, (), q) ==> q is Ok && on_curve(repr(q->Ok_0.inner))""",
               ensures="""match r { Ok(e) => exists|t: Element| call_ensures(f, (), Ok::<Element, SynthesisError>(t)) && proj_eq(pv(e), repr(t.inner)) && on_curve(pv(e)), Err(_) => false }"""))
    u = Unit(name=f"r1cs_fwd_{mode}", preludes=r1.base_preludes() + [("curve_spec.rs", None), ("r1cs.rs", None), ("r1cs_group.rs", None)] + ([] if sound else r1.more_preludes()),
             items=items, lemmas=lem + FWD_LEMMAS + extra_lem + "\n".join(spec_impls), params=fq, global_subst=[])
    u.raw = [(INN, "struct", "ElementVar")]
    u.raw_strip = ("Clone",)
    u.tail_assert = True
    return u


def NV_REQ(T, view):
    return f"""call_requires(f, ()), !(mode is Input), !(mode is Constant) ==> !cs_none(ns_cs(cs)),
                forall|q: Result<{T}, SynthesisError>| #[trigger] call_ensures(f, (), q) ==> q is Ok && elem_ok({view})"""


NV_COMPL_SPECS = r"""
// the honest prover's element: on the curve, and its encoding decodes to an element equal to it (C06 for every Element)
pub open spec fn elem_ok(p: P4) -> bool { on_curve(p) && spec_decode(spec_encode(p)) is Some && spec_eq(spec_decode(spec_encode(p))->Some_0, p) }
// what the allocated variable denotes: the canonical representative of the element (Witness: the in-circuit decoding of its
// encoding) or its affine form (Constant)
pub open spec fn nv_rel(mode: AllocationMode, p: P4, v: P4) -> bool {
    if mode is Witness { spec_decode(spec_encode(p)) is Some && v == spec_decode(spec_encode(p))->Some_0 } else { proj_eq(v, p) && on_curve(v) }
}
"""

NV_COMPL_LEMMAS = NV_COMPL_SPECS + r"""
// equality of group elements does not depend on the projective scaling of one side:
// q == p as group elements (cross-multiplication), pa the affine form of p  ==>  q == pa
pub proof fn lemma_nv_eq(p: P4, pa: P4, q: P4)
    requires spec_eq(q, p), proj_eq(pa, p), pa.z == 1, p.z != 0,
             in_fq(p.x), in_fq(p.y), in_fq(p.z), in_fq(pa.x), in_fq(pa.y), in_fq(q.x), in_fq(q.y)
    ensures spec_eq(q, pa)
{
    let z = p.z;
    // (q.x * pa.y) * z == q.x * p.y == q.y * p.x == (q.y * pa.x) * z
    lemma_cong_fmul(pa.x, z); lemma_cong_fmul(p.x, 1int); lemma_cong_fmul(pa.y, z); lemma_cong_fmul(p.y, 1int);
    lemma_cong_fmul(q.x, pa.y); lemma_cong_fmul(q.y, pa.x); lemma_cong_fmul(q.x, p.y); lemma_cong_fmul(q.y, p.x);
    lemma_cong_mul(fmul(q.x, pa.y), q.x * pa.y, z, z); lemma_cong_mul(fmul(q.y, pa.x), q.y * pa.x, z, z);
    lemma_cong_fmul(fmul(q.x, pa.y), z); lemma_cong_fmul(fmul(q.y, pa.x), z);
    lemma_cong_mul(q.x, q.x, pa.y * z, p.y * 1); lemma_cong_mul(q.y, q.y, pa.x * z, p.x * 1);
    assert((q.x * pa.y) * z == q.x * (pa.y * z)) by(nonlinear_arith);
    assert((q.y * pa.x) * z == q.y * (pa.x * z)) by(nonlinear_arith);
    assert(q.x * (p.y * 1) == q.x * p.y && q.y * (p.x * 1) == q.y * p.x) by(nonlinear_arith);
    lemma_fmul_range(q.x, pa.y); lemma_fmul_range(q.y, pa.x);
    lemma_cancel_r(fmul(q.x, pa.y), fmul(q.y, pa.x), z);
}
"""


OUTER_LEMMAS = r"""
// ---- the inner gadget type (src/ark_curve/r1cs/inner.rs `ElementVar`, imported into element.rs as InnerElementVar)
pub struct InnerElementVar { pub inner: Decaf377EdwardsVar }
impl Clone for InnerElementVar {
    fn clone(&self) -> (r: InnerElementVar) ensures pvi(r) == pvi(*self)
    { InnerElementVar { inner: self.inner.clone() } }
}
pub open spec fn pvi(e: InnerElementVar) -> P4 { P4 { x: e.inner.x.val(), y: e.inner.y.val(), z: 1, t: fmul(e.inner.x.val(), e.inner.y.val()) } }
pub struct Decaf377EdwardsConfig;
pub open spec fn isqrt_weak(den: int, ws: bool, y: int) -> bool {
    isqrt_ok(1, den, ws, y) || (den == 0 && ws && fsq(y) == 1)
}
// what forcing the element of an encoding-built variable establishes (the contract of the inner decode gadget)
pub open spec fn dec_rel(s: int, p: P4) -> bool {
//#if COMPL
    spec_decode(s) is Some && p == spec_decode(s)->Some_0
//#else
    !is_neg(s) && exists|v0: int| #[trigger] isqrt_weak(dec_den(s), true, v0) && p == spec_decode_v(s, v0)
//#endif
}
// what forcing the encoding of an element-built variable establishes (the contract of the inner encode gadget)
pub open spec fn enc_rel(p: P4, s: int) -> bool {
//#if COMPL
    s == spec_encode(p)
//#else
    exists|ws: bool, y: int| #[trigger] isqrt_weak(enc_den(p), ws, y) && s == spec_encode_v(p, y)
//#endif
}
// ---- LazyElementVar (src/ark_curve/r1cs/lazy.rs): abstract here; its caching discipline is proved by Kani on the
// verbatim file: forcing returns what the inner gadget returns on the constructor argument, always the same value.
#[verifier::external_body]
pub struct LazyElementVar { _p: u8 }
pub uninterp spec fn lz_pt(l: LazyElementVar) -> P4;       // the element the variable stands for
pub uninterp spec fn lz_enc(l: LazyElementVar) -> int;     // its encoding
pub uninterp spec fn lz_from_enc(l: LazyElementVar) -> bool;
impl Clone for LazyElementVar {
    #[verifier::external_body]
    fn clone(&self) -> (r: LazyElementVar) ensures lz_pt(r) == lz_pt(*self), lz_enc(r) == lz_enc(*self), lz_from_enc(r) == lz_from_enc(*self) { unimplemented!() }
}
impl LazyElementVar {
    #[verifier::external_body]
    pub fn new_from_element(element: InnerElementVar) -> (r: LazyElementVar) ensures lz_pt(r) == pvi(element), !lz_from_enc(r) { unimplemented!() }
    #[verifier::external_body]
    pub fn new_from_encoding(encoding: FqVar) -> (r: LazyElementVar) ensures lz_enc(r) == encoding.val(), lz_from_enc(r) { unimplemented!() }
    #[verifier::external_body]
    pub fn element(&self) -> (r: Result<InnerElementVar, SynthesisError>)
//#if COMPL
        requires lz_from_enc(*self) ==> spec_decode(lz_enc(*self)) is Some
        ensures match r { Ok(e) => pvi(e) == lz_pt(*self) && (lz_from_enc(*self) ==> dec_rel(lz_enc(*self), lz_pt(*self))), Err(_) => false }
//#else
        ensures match r { Ok(e) => pvi(e) == lz_pt(*self) && (lz_from_enc(*self) ==> dec_rel(lz_enc(*self), lz_pt(*self))), Err(_) => true }
//#endif
    { unimplemented!() }
    #[verifier::external_body]
    pub fn encoding(&self) -> (r: Result<FqVar, SynthesisError>)
//#if COMPL
        ensures match r { Ok(s) => s.val() == lz_enc(*self) && (!lz_from_enc(*self) ==> enc_rel(lz_pt(*self), lz_enc(*self))), Err(_) => false }
//#else
        ensures match r { Ok(s) => s.val() == lz_enc(*self) && (!lz_from_enc(*self) ==> enc_rel(lz_pt(*self), lz_enc(*self))), Err(_) => true }
//#endif
    { unimplemented!() }
}
pub open spec fn ov(e: ElementVar) -> P4 { lz_pt(e.inner) }
//#if SOUND
pub open spec fn dec_rel_s(s: int, p: P4) -> bool { !is_neg(s) && exists|v0: int| #[trigger] isqrt_weak(dec_den(s), true, v0) && p == spec_decode_v(s, v0) }
pub open spec fn wit_rel_s(s: int, q: P4) -> bool { exists|p: P4| #[trigger] dec_rel_s(s, p) && (q == p || (spec_eq(q, p) && on_curve(q))) }
//#endif
impl Borrow<Fq> for Fq { open spec fn borrow_spec(&self) -> Fq { *self } fn borrow(&self) -> (r: &Fq) { self } }
// native affine point type of the crate (A-ARK-2): only its conversion to a group element is used here
#[derive(Clone, Copy)]
pub struct AffinePoint { pub inner: EdwardsProjective }
pub uninterp spec fn aff_group(a: AffinePoint) -> Element;
impl AffinePoint {
    #[verifier::external_body]
    pub fn into_group(self) -> (r: Element) ensures r == aff_group(self) { unimplemented!() }
}
impl Borrow<AffinePoint> for AffinePoint { open spec fn borrow_spec(&self) -> AffinePoint { *self } fn borrow(&self) -> (r: &AffinePoint) { self } }
impl FqVar {
    // AllocVar<Fq, Fq> for FpVar.  SOUND: nothing is promised about a witnessed value.  COMPL: the variable holds the hint's
    // value (allocation needs a constraint system unless the mode is Constant, and the hint closure must answer)
    #[verifier::external_body]
    pub fn new_variable<T: Borrow<Fq>, G: FnOnce() -> Result<T, SynthesisError>>(cs: ConstraintSystemRef<Fq>, f: G, mode: AllocationMode) -> (r: Result<FqVar, SynthesisError>)
//#if COMPL
        requires call_requires(f, ()), !(mode is Constant) ==> !cs_none(cs),
                 forall|q: Result<T, SynthesisError>| #[trigger] call_ensures(f, (), q) ==> q is Ok
        ensures match r { Ok(x) => exists|t: T| call_ensures(f, (), Ok::<T, SynthesisError>(t)) && x.val() == t.borrow_spec().val(), Err(_) => false }
//#endif
    { unimplemented!() }
}
impl ElementVar {
    // AllocVar::new_input (arkworks default method) = <ElementVar as AllocVar<Fq, Fq>>::new_variable(cs, f, Input): contract of new_variable#fq below
    #[verifier::external_body]
    pub fn new_input<G: FnOnce() -> Result<Fq, SynthesisError>>(cs: ConstraintSystemRef<Fq>, f: G) -> (r: Result<ElementVar, SynthesisError>)
//#if COMPL
        requires call_requires(f, ()), !cs_none(cs), forall|q: Result<Fq, SynthesisError>| #[trigger] call_ensures(f, (), q) ==> q is Ok
        ensures match r { Ok(e) => lz_from_enc(e.inner) && exists|t: Fq| call_ensures(f, (), Ok::<Fq, SynthesisError>(t)) && lz_enc(e.inner) == t.val(), Err(_) => false }
//#else
        ensures match r { Ok(e) => lz_from_enc(e.inner), Err(_) => true }
//#endif
    { unimplemented!() }
}
// COMPL: every forcing of this variable succeeds
pub open spec fn ok_var(e: ElementVar) -> bool { lz_from_enc(e.inner) ==> spec_decode(lz_enc(e.inner)) is Some }
"""


def _isqrt_weak_spec():
    m = re.search(r'// what the four-case constraint block.*?\npub open spec fn isqrt_weak.*?\n}\n', r1.R1CS_LEMMAS, re.S)
    return m.group(0)


def _ell_spec():
    """the spec fn `ell_affine_rel` of units/r1cs.py (same text, so that the imported contract means the same thing)"""
    m = re.search(r'// relation between the affine coordinates.*?\npub open spec fn ell_affine_rel.*?\n}\n', r1.R1CS_LEMMAS, re.S)
    return m.group(0)


def outer_unit(mode):
    sound = mode == "sound"
    fq = dict(field_params("fq"))
    fq["SOUND"] = 1 if sound else 0
    fq["COMPL"] = 0 if sound else 1
    fq["FQVAR_OPS"] = r1.fqvar_ops()
    fq["GROUP_OPS"] = group_ops()
    stubs, lem = opsmod.stub_items("fq")
    items = list(stubs)
    tag = "C14" if sound else "C13"
    bu = "broadcast use fq_abs, r1cs_axioms;"
    E_ = "Err(_) => true" if sound else "Err(_) => false"
    fwd = f"r1cs_fwd_{mode}"
    core = f"r1cs_{mode}"
    ren = [("R7", r'\bElementVar\b', 'InnerElementVar'), ("R7", r'\bAffineVar::<Decaf377EdwardsConfig, FqVar>::', 'Decaf377EdwardsVar::'),
           ("R7", r'\bSelf::Output\b', 'InnerElementVar'), ("R7", r'\bSelf\b', 'InnerElementVar')]
    spec_impls = []

    # ---- contracts of the inner gadget functions, imported as stubs (proved in r1cs_<mode> / r1cs_fwd_<mode>)
    _proving = {}
    for pu in (fwd_unit(mode), r1.unit(mode)):
        for it_ in pu.items:
            if it_.mode == "verify" and it_.file == INN:
                for f_ in it_.fns:
                    if not f_.variant:
                        _proving[(pu.name, it_.header, f_.name)] = f_

    def _norm(t):
        return re.sub(r'\s+', ' ', (t or "").replace("pv(", "pvi(")).strip()

    def istub(hdr, fn, proved, header_out="impl InnerElementVar", **kw):
        # the imported contract must be the proving unit's contract (modulo the rename pv -> pvi of the inner type's view)
        pf = _proving.get((proved, hdr, fn.name))
        if pf is None or _norm(pf.ensures) != _norm(fn.ensures) or _norm(pf.requires) != _norm(fn.requires):
            from vx.rsscan import LostAnchor
            raise LostAnchor(f"imported contract {proved} :: {hdr} :: {fn.name} differs from the proving unit's contract")
        fn = dataclasses.replace(fn, subst=list(fn.subst) + ren)
        items.append(Item(INN, hdr, [fn], mode="stub", proved_in=proved, header_out=header_out, **kw))
    for (hdr, tr, m, rhs_t, view, post) in (
            ("impl Add for ElementVar", "Add", "add", "InnerElementVar", "pvi(other)", "add_post"),
            ("impl Sub for ElementVar", "Sub", "sub", "InnerElementVar", "pvi(other)", "sub_post"),
            ("impl Add<Element> for ElementVar", "Add", "add", "Element", "repr(other.inner)", "add_post"),
            ("impl Sub<Element> for ElementVar", "Sub", "sub", "Element", "repr(other.inner)", "sub_post")):
        spec_impls.append(_specimpl(tr, m, "InnerElementVar", rhs_t, "InnerElementVar"))
        istub(hdr, Fn(m, ensures=f"{post}(pvi(self), {view}, pvi(r))"), fwd, header_out=hdr.replace("ElementVar", "InnerElementVar"), keep_assoc=("Output",))
    for (hdr, tr, m, rhs_t, view, post) in (
            ("impl AddAssign for ElementVar", "AddAssign", "add_assign", "InnerElementVar", "pvi(rhs)", "add_post"),
            ("impl SubAssign for ElementVar", "SubAssign", "sub_assign", "InnerElementVar", "pvi(rhs)", "sub_post"),
            ("impl AddAssign<Element> for ElementVar", "AddAssign", "add_assign", "Element", "repr(rhs.inner)", "add_post"),
            ("impl SubAssign<Element> for ElementVar", "SubAssign", "sub_assign", "Element", "repr(rhs.inner)", "sub_post")):
        spec_impls.append(_specimpl(tr, m, "InnerElementVar", rhs_t, "InnerElementVar", True))
        istub(hdr, Fn(m, ensures=f"{post}(pvi(*old(self)), {view}, pvi(*final(self)))"), fwd, header_out=hdr.replace("ElementVar", "InnerElementVar"))
    cv = "impl CurveVar<Element, Fq> for ElementVar"
    istub(cv, Fn("zero", ensures="pvi(r) == id4()"), fwd)
    istub(cv, Fn("constant", ensures="on_curve(repr(other.inner)) ==> proj_eq(pvi(r), repr(other.inner)) && on_curve(pvi(r))"), fwd)
    istub(cv, Fn("double_in_place", ensures=("r is Ok ==> " if sound else "r is Ok, ") + "add_post(pvi(*old(self)), pvi(*old(self)), pvi(*final(self)))"), fwd)
    istub(cv, Fn("negate", ensures=f"match r {{ Ok(v) => pvi(v) == te_neg(pvi(*self)), {E_} }}"), fwd)
    istub("impl EqGadget<Fq> for ElementVar", Fn("is_eq", ensures=f"match r {{ Ok(b) => b.bval() == spec_eq(pvi(*self), pvi(*other)), {E_} }}"), core)
    if sound:
        ell = f"""match r {{ Ok(e) => exists|ws: bool, y: int| #[trigger] isqrt_weak(ell_x(r_0_var.val()), ws, y)
                             && ell_affine_rel(r_0_var.val(), ws, y, e.inner.x.val(), e.inner.y.val()), {E_} }}"""
    else:
        ell = """match r { Ok(e) => ell_affine_rel(r_0_var.val(), isqrt_flag(1, ell_x(r_0_var.val())), isqrt_root(1, ell_x(r_0_var.val())),
                                                       e.inner.x.val(), e.inner.y.val()), Err(_) => false }"""
    istub("impl ElementVar", Fn("elligator_map", ensures=ell), core)

    # ---- src/ark_curve/r1cs/element.rs
    exp = [("R6", r'\.expect\(', '.expect_(')]
    def o(hdr, fn, header_out="impl ElementVar", **kw):
        fn = dataclasses.replace(fn, subst=list(fn.subst) + exp)
        items.append(Item(OUT, hdr, [fn], header_out=header_out, **kw))
    S_ = "s_var.val()"
    o("impl ElementVar", Fn("compress_to_field", props=(tag,), preamble=bu,
                            ensures=f"match r {{ Ok(s) => s.val() == lz_enc(self.inner) && (!lz_from_enc(self.inner) ==> enc_rel(ov(*self), s.val())), {E_} }}"))
    o("impl ElementVar", Fn("decompress_from_field", props=(tag,), preamble=bu,
                            requires=None if sound else f"spec_decode({S_}) is Some",
                            ensures=f"match r {{ Ok(e) => lz_from_enc(e.inner) && lz_enc(e.inner) == {S_} && dec_rel({S_}, ov(e)), {E_} }}"))
    if sound:
        ellp = f"""match r {{ Ok(e) => !lz_from_enc(e.inner) && exists|ws: bool, y: int| #[trigger] isqrt_weak(ell_x(r_0_var.val()), ws, y)
                             && ell_affine_rel(r_0_var.val(), ws, y, ov(e).x, ov(e).y), {E_} }}"""
        ellq = ellp.replace("r_0_var", "r_var")
    else:
        ellp = """match r { Ok(e) => !lz_from_enc(e.inner) && ell_affine_rel(r_0_var.val(), isqrt_flag(1, ell_x(r_0_var.val())), isqrt_root(1, ell_x(r_0_var.val())),
                                                       ov(e).x, ov(e).y), Err(_) => false }"""
        ellq = ellp.replace("r_0_var", "r_var")
    o("impl ElementVar", Fn("elligator_map", props=(tag,), preamble=bu, ensures=ellp))
    o("impl ElementVar", Fn("encode_to_curve", props=(tag,), preamble=bu, ensures=ellq))
    eqh = "impl EqGadget<Fq> for ElementVar"
    o(eqh, Fn("is_eq", props=(tag,), preamble=bu, requires=None if sound else "ok_var(*self), ok_var(*other)",
              ensures=f"match r {{ Ok(b) => b.bval() == spec_eq(ov(*self), ov(*other)), {E_} }}"))
    if sound:
        o(eqh, Fn("conditional_enforce_equal", props=(tag,), preamble=bu, ensures="r is Ok ==> (should_enforce.bval() ==> spec_eq(ov(*self), ov(*other)))"))
        o(eqh, Fn("conditional_enforce_not_equal", props=(tag,), preamble=bu, ensures="r is Ok ==> (should_enforce.bval() ==> !spec_eq(ov(*self), ov(*other)))"))
    else:
        o(eqh, Fn("conditional_enforce_equal", props=(tag,), preamble=bu, requires="ok_var(*self), ok_var(*other), should_enforce.bval() ==> spec_eq(ov(*self), ov(*other))", ensures="r is Ok"))
        o(eqh, Fn("conditional_enforce_not_equal", props=(tag,), preamble=bu, requires="ok_var(*self), ok_var(*other), should_enforce.bval() ==> !spec_eq(ov(*self), ov(*other))", ensures="r is Ok"))
    o("impl CondSelectGadget<Fq> for ElementVar", Fn("conditionally_select", props=(tag,), preamble=bu,
      requires=None if sound else "ok_var(*true_value), ok_var(*false_value)",
      subst=[("R7", r'\bDecaf377EdwardsVar::new\(', 'Decaf377EdwardsVar::new(')],
      ensures=f"match r {{ Ok(x) => !lz_from_enc(x.inner) && ov(x) == (if cond.bval() {{ ov(*true_value) }} else {{ ov(*false_value) }}), {E_} }}"))
    cvo = "impl CurveVar<Element, Fq> for ElementVar"
    o(cvo, Fn("zero", props=(tag,), preamble=bu, ensures="ov(r) == id4(), !lz_from_enc(r.inner)"))
    o(cvo, Fn("constant", props=(tag,), preamble=bu, ensures="!lz_from_enc(r.inner), on_curve(repr(other.inner)) ==> proj_eq(ov(r), repr(other.inner)) && on_curve(ov(r))"))
    o(cvo, Fn("enforce_prime_order", props=(tag,), preamble=bu, ensures="r is Ok"))
    o(cvo, Fn("double_in_place", props=(tag,), preamble=bu, requires=None if sound else "ok_var(*old(self))",
              ensures=("r is Ok ==> " if sound else "r is Ok, ") + "!lz_from_enc(final(self).inner) && add_post(ov(*old(self)), ov(*old(self)), ov(*final(self)))"))
    o(cvo, Fn("negate", props=(tag,), preamble=bu, requires=None if sound else "ok_var(*self)",
              ensures=f"match r {{ Ok(v) => !lz_from_enc(v.inner) && ov(v) == te_neg(ov(*self)), {E_} }}"))

    # ---- R1CSVar of the outer variable (forces the element)
    istub("impl R1CSVar<Fq> for ElementVar", Fn("cs", ensures="r == ev_cs(self.inner)"), fwd)
    rvo = "impl R1CSVar<Fq> for ElementVar"
    rvs = [("R7", r'\bSelf::Value\b', 'Element')]
    o(rvo, Fn("cs", props=(tag,), preamble=bu, subst=rvs, requires=None if sound else "ok_var(*self)", ensures="true"))
    o(rvo, Fn("value", props=(tag,), preamble=bu + " broadcast use repr_of_p4_;", subst=rvs,
              requires=None if sound else "ok_var(*self), on_curve(ov(*self))",
              ensures=f"match r {{ Ok(e) => repr(e.inner) == ov(*self), {E_} }}"))
    # ---- the three AllocVar impls of element.rs, soundness reading (C14).  Three inherent fns of one name cannot coexist,
    # so each is emitted under a variant name (R13b) and the one call between them is renamed accordingly.
    if sound:
        plumb = [("R7", r'core::borrow::Borrow<', 'Borrow<'), ("R7", r'(?<![\w:])Borrow<', 'Borrow<'),
                 ("R7", r'impl\s+Into<ark_relations::r1cs::Namespace<Fq>>', 'Namespace<Fq>'), ("R7", r'\bcs\.into\(\)', 'cs')]
        # imported: inner new_variable (proved in r1cs_fwd_sound); the namespace conversion of its first argument is the identity here
        pf = None
        for it_ in fwd_unit(mode).items:
            if it_.mode == "verify" and it_.header == "impl AllocVar<Element, Fq> for ElementVar":
                pf = it_.fns[0]
        inner_nv = Fn("new_variable", requires="call_requires(f, ()), !(mode is Input)",
                      ensures="match r { Ok(e) => mode is Witness ==> exists|s: int| #[trigger] wit_rel_s(s, pvi(e)), Err(_) => true }")
        if pf is None or _norm(pf.ensures) != _norm(inner_nv.ensures) or _norm(pf.requires) != _norm(inner_nv.requires):
            from vx.rsscan import LostAnchor
            raise LostAnchor("imported contract r1cs_fwd_sound :: new_variable differs from the proving unit's contract")
        items.append(Item(INN, "impl AllocVar<Element, Fq> for ElementVar", [dataclasses.replace(inner_nv, subst=[
            ("R7", r'core::borrow::Borrow<', 'Borrow<'), ("R7", r'impl\s+Into<ark_relations::r1cs::Namespace<Fq>>', 'ConstraintSystemRef<Fq>')] + ren)],
            mode="stub", proved_in=fwd, header_out="impl InnerElementVar"))
        o("impl AllocVar<Fq, Fq> for ElementVar", Fn("new_variable", variant="#fq", props=(tag,), preamble=bu, subst=plumb,
          requires="call_requires(f, ())",
          ensures="match r { Ok(e) => lz_from_enc(e.inner), Err(_) => true }"))
        o("impl AllocVar<Element, Fq> for ElementVar", Fn("new_variable", variant="#element", props=(tag,),
          preamble=bu + " let ghost mut gs_: int = 0; let ghost mut gp_: P4 = id4();",
          subst=plumb + [("R20", r'InnerElementVar::new_variable\(cs, f, mode\)\?',
                          r'{ let c_ = InnerElementVar::new_variable(cs, f, mode)?; proof { if mode is Witness { gs_ = choose|s: int| wit_rel_s(s, pvi(c_)); gp_ = pvi(c_); assert(wit_rel_s(gs_, gp_)); } } c_ }')],
          epilogue="match &r_ { Ok(e) => { if mode is Witness { assert(ov(*e) == gp_); assert(wit_rel_s(gs_, ov(*e))); } } Err(_) => {} }",
          requires="call_requires(f, ())",
          ensures="match r { Ok(e) => mode is Witness ==> !lz_from_enc(e.inner) && exists|s: int| #[trigger] wit_rel_s(s, ov(e)), Err(_) => true }",
          tag="C14: witnessed coordinates cannot be forged (outer layer)"))
        o("impl AllocVar<AffinePoint, Fq> for ElementVar", Fn("new_variable", variant="#affine", props=(tag,), preamble=bu,
          subst=plumb + [("R13b", r'\bSelf::new_variable\(', 'Self::new_variable__element('),
                         ("R9", r'\|\|\s*f\(\)\.map\(', '|| -> (q_: Result<Element, SynthesisError>) requires call_requires(f, ()) { f().map('),
                         ("R9", r'(\.into_group\(\)\)),(\s*mode\))', r'\1 },\2')],
          requires="call_requires(f, ())",
          ensures="match r { Ok(e) => mode is Witness ==> !lz_from_enc(e.inner) && exists|s: int| #[trigger] wit_rel_s(s, ov(e)), Err(_) => true }",
          tag="C14: witnessed coordinates cannot be forged (AffinePoint entry point)"))

    if sound:
        po = None
        for it_ in fwd_unit(mode).items:
            if it_.mode == "verify" and it_.header == cv:
                for f_ in it_.fns:
                    if f_.name == "new_variable_omit_prime_order_check":
                        po = f_
        if po is None:
            from vx.rsscan import LostAnchor
            raise LostAnchor("imported contract r1cs_fwd_sound :: new_variable_omit_prime_order_check not found in the proving unit")
        items.append(Item(INN, cv, [Fn("new_variable_omit_prime_order_check", requires=po.requires, ensures=po.ensures.replace("pv(", "pvi("),
                                       subst=[("R7", r'impl\s+Into<ark_relations::r1cs::Namespace<Fq>>', 'ConstraintSystemRef<Fq>')] + ren)],
                          mode="stub", proved_in=fwd, header_out="impl InnerElementVar"))
        o(cvo, Fn("new_variable_omit_prime_order_check", props=(tag,), preamble=bu, subst=plumb,
                  requires="call_requires(f, ())",
                  ensures="match r { Ok(e) => !lz_from_enc(e.inner) && (!(mode is Constant) ==> on_curve(ov(e))), Err(_) => true }"))
    if not sound:
        plumb = [("R7", r'core::borrow::Borrow<', 'Borrow<'), ("R7", r'(?<![\w:])Borrow<', 'Borrow<'),
                 ("R7", r'impl\s+Into<ark_relations::r1cs::Namespace<Fq>>', 'Namespace<Fq>'), ("R7", r'\bcs\.into\(\)', 'cs')]
        # imported: the two inner allocation functions (proved in r1cs_fwd_compl); their first argument is converted by
        # `Into<Namespace>` (the identity on a constraint-system reference), so `ns_cs(cs)` of the proving contract reads `cs` here
        pf = po = None
        for it_ in fwd_unit(mode).items:
            if it_.mode == "verify" and it_.header == "impl AllocVar<Element, Fq> for ElementVar":
                pf = it_.fns[0]
            if it_.mode == "verify" and it_.header == cv:
                for f_ in it_.fns:
                    if f_.name == "new_variable_omit_prime_order_check":
                        po = f_
        if pf is None or po is None:
            from vx.rsscan import LostAnchor
            raise LostAnchor("imported contracts r1cs_fwd_compl :: new_variable / new_variable_omit_prime_order_check not found in the proving unit")
        imp = lambda t: (t or "").replace("ns_cs(cs)", "cs").replace("pv(", "pvi(")
        isub = [("R7", r'core::borrow::Borrow<', 'Borrow<'), ("R7", r'impl\s+Into<ark_relations::r1cs::Namespace<Fq>>', 'ConstraintSystemRef<Fq>')] + ren
        items.append(Item(INN, "impl AllocVar<Element, Fq> for ElementVar", [Fn("new_variable", requires=imp(pf.requires), ensures=imp(pf.ensures), subst=isub)],
                          mode="stub", proved_in=fwd, header_out="impl InnerElementVar"))
        items.append(Item(INN, cv, [Fn("new_variable_omit_prime_order_check", requires=imp(po.requires), ensures=imp(po.ensures), subst=isub)],
                          mode="stub", proved_in=fwd, header_out="impl InnerElementVar"))
        HON = lambda T, extra: f"""call_requires(f, ()), !(mode is Constant) ==> !cs_none(ns_cs(cs)),
                forall|q: Result<{T}, SynthesisError>| #[trigger] call_ensures(f, (), q) ==> q is Ok{extra}"""
        o("impl AllocVar<Fq, Fq> for ElementVar", Fn("new_variable", variant="#fq", props=(tag,), preamble=bu, subst=plumb,
          requires=HON("T", ""),
          ensures="match r { Ok(e) => lz_from_enc(e.inner) && exists|t: T| call_ensures(f, (), Ok::<T, SynthesisError>(t)) && lz_enc(e.inner) == t.borrow_spec().val(), Err(_) => false }",
          tag="C13: allocating an encoding succeeds in every mode and holds the offered value"))
        ELEM_POST = lambda P: f"""(if mode is Input {{ lz_from_enc(e.inner) && lz_enc(e.inner) == spec_encode({P}) }} else {{ !lz_from_enc(e.inner) && nv_rel(mode, {P}, ov(e)) }}) && ok_var(e)"""
        o("impl AllocVar<Element, Fq> for ElementVar", Fn("new_variable", variant="#element", props=(tag,), preamble=bu,
          subst=plumb + [("R9", r'Self::new_input\(cs, \|\| Ok\((\w+)\)\)',
                          r'Self::new_input(cs, || -> (q_: Result<Fq, SynthesisError>) ensures q_ == Ok::<Fq, SynthesisError>(\1) { Ok(\1) })')],
          requires=HON("T", " && elem_ok(repr(q->Ok_0.borrow_spec().inner))"),
          ensures=f"match r {{ Ok(e) => exists|t: T| call_ensures(f, (), Ok::<T, SynthesisError>(t)) && {ELEM_POST('repr(t.borrow_spec().inner)')}, Err(_) => false }}",
          tag="C13: allocating the honest prover's element succeeds in every mode (Input: as its encoding) and denotes that element"))
        o("impl AllocVar<AffinePoint, Fq> for ElementVar", Fn("new_variable", variant="#affine", props=(tag,), preamble=bu,
          subst=plumb + [("R13b", r'\bSelf::new_variable\(', 'Self::new_variable__element('),
                         ("R9", r'\|\|\s*f\(\)\.map\(\|b\|\s*b\.borrow\(\)\.into_group\(\)\)',
                          """|| -> (q_: Result<Element, SynthesisError>) requires call_requires(f, ())
                    ensures match q_ { Ok(v_) => exists|t_: T| call_ensures(f, (), Ok::<T, SynthesisError>(t_)) && v_ == aff_group(t_.borrow_spec()), Err(_) => exists|e_: SynthesisError| call_ensures(f, (), Err::<T, SynthesisError>(e_)) }
                    { f().map(|b: T| -> (g_: Element) ensures g_ == aff_group(b.borrow_spec()) { b.borrow().into_group() }) }""")],
          requires=HON("T", " && elem_ok(repr(aff_group(q->Ok_0.borrow_spec()).inner))"),
          ensures=f"match r {{ Ok(e) => exists|t: T| call_ensures(f, (), Ok::<T, SynthesisError>(t)) && {ELEM_POST('repr(aff_group(t.borrow_spec()).inner)')}, Err(_) => false }}",
          tag="C13: AffinePoint entry point of the honest allocation"))
        o(cvo, Fn("new_variable_omit_prime_order_check", props=(tag,), preamble=bu,
                  subst=plumb + [("R9", r'\|\|\s*Ok\(ge\)', '|| -> (q_: Result<Element, SynthesisError>) ensures q_ == Ok::<Element, SynthesisError>(ge) { Ok(ge) }')],
                  requires="""call_requires(f, ()), !(mode is Constant) ==> !cs_none(ns_cs(cs)),
                      forall|q: Result<Element, SynthesisError>| #[trigger] call_ensures(f, (), q) ==> q is Ok && on_curve(repr(q->Ok_0.inner))""",
                  ensures="""match r { Ok(e) => !lz_from_enc(e.inner) && exists|t: Element| call_ensures(f, (), Ok::<Element, SynthesisError>(t)) && proj_eq(ov(e), repr(t.inner)) && on_curve(ov(e)), Err(_) => false }"""))

    # ---- src/ark_curve/r1cs/ops.rs
    def oop(hdr, tr, m, rhs_t, rhs_view, post, assign=False, rhs_ok=None):
        spec_impls.append(_specimpl(tr, m, "ElementVar", rhs_t, "ElementVar", assign))
        req = None
        if not sound:
            oks = ["ok_var(*old(self))" if assign else "ok_var(self)"] + ([rhs_ok] if rhs_ok else [])
            req = " && ".join(oks)
        if assign:
            ens = f"!lz_from_enc(final(self).inner), {post}(ov(*old(self)), {rhs_view}, ov(*final(self)))"
        else:
            ens = f"!lz_from_enc(r.inner), {post}(ov(self), {rhs_view}, ov(r))"
        # COMPL preconditions of operator impls go through the *_req spec fns
        if req:
            spec_impls[-1] = spec_impls[-1].replace("-> bool { true }", "-> bool { " + req.replace("*old(self)", "*self").replace("ok_var(self)", "ok_var(self)") + " }")
        items.append(Item(OPS, hdr, [dataclasses.replace(Fn(m, props=(tag,), preamble=bu, ensures=ens, attrs=R12), subst=exp)],
                          keep_assoc=() if assign else ("Output",)))
    oop("impl Add for ElementVar", "Add", "add", "ElementVar", "ov(other)", "add_post", rhs_ok="ok_var(rhs)")
    oop("impl<'a> Add<&'a ElementVar> for ElementVar", "Add", "add", "&'a ElementVar", "ov(*other)", "add_post", rhs_ok="ok_var(*rhs)")
    oop("impl AddAssign for ElementVar", "AddAssign", "add_assign", "ElementVar", "ov(rhs)", "add_post", True, rhs_ok="ok_var(rhs)")
    oop("impl<'a> AddAssign<&'a ElementVar> for ElementVar", "AddAssign", "add_assign", "&'a ElementVar", "ov(*rhs)", "add_post", True, rhs_ok="ok_var(*rhs)")
    oop("impl Sub for ElementVar", "Sub", "sub", "ElementVar", "ov(other)", "sub_post", rhs_ok="ok_var(rhs)")
    oop("impl<'a> Sub<&'a ElementVar> for ElementVar", "Sub", "sub", "&'a ElementVar", "ov(*other)", "sub_post", rhs_ok="ok_var(*rhs)")
    oop("impl SubAssign for ElementVar", "SubAssign", "sub_assign", "ElementVar", "ov(rhs)", "sub_post", True, rhs_ok="ok_var(rhs)")
    oop("impl<'a> SubAssign<&'a ElementVar> for ElementVar", "SubAssign", "sub_assign", "&'a ElementVar", "ov(*rhs)", "sub_post", True, rhs_ok="ok_var(*rhs)")
    oop("impl Sub<Element> for ElementVar", "Sub", "sub", "Element", "repr(other.inner)", "sub_post")
    oop("impl SubAssign<Element> for ElementVar", "SubAssign", "sub_assign", "Element", "repr(rhs.inner)", "sub_post", True)
    oop("impl Add<Element> for ElementVar", "Add", "add", "Element", "repr(other.inner)", "add_post")
    oop("impl AddAssign<Element> for ElementVar", "AddAssign", "add_assign", "Element", "repr(rhs.inner)", "add_post", True)
    u = Unit(name=f"r1cs_outer_{mode}", preludes=r1.base_preludes() + [("curve_spec.rs", None), ("r1cs.rs", None), ("r1cs_group.rs", None)],
             items=items, lemmas=lem + OUTER_LEMMAS + ("" if sound else NV_COMPL_SPECS) + _ell_spec() + "\n".join(spec_impls), params=fq, global_subst=[])
    u.raw = [(OUT, "struct", "ElementVar")]
    u.raw_strip = ("Clone", "Debug")
    u.tail_assert = True
    return u


def unit(arg):
    kind, mode = arg.split("_")
    return {"fwd": fwd_unit, "outer": outer_unit}[kind](mode)
