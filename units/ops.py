"""U(ops_<f>): every impl of src/fields/<f>/ops.rs against the integer operation mod p (C10, C11).
ops.rs is shared by both backends; it is verified once against the wrapper contracts."""
import re
from vx.extract import Fn, Item, Unit, src
from vx.rsscan import norm
from .fieldc import field_params, wrapper_stubs, eq_stub, FIELDS

R12 = "#[verifier::exec_allows_no_decreases_clause]"

BIN = {"Add": ("add", "madd"), "Sub": ("sub", "msub"), "Mul": ("mul", "mmul"), "Div": ("div", None)}


def unit(f):
    fp = field_params(f)
    F = fp["F"]
    P = f"{f}_p()"
    path = f"src/fields/{f}/ops.rs"
    s = src(path)
    stubs, consts = wrapper_stubs(f)
    items = list(stubs)
    bu = f"broadcast use {f}_abs;"
    zeros = ", ".join(["0"] * (fp["N64"] - 2))
    for imp in s.all_items():
        if imp.kind != 'impl':
            continue
        h = norm(imp.header)
        m = re.match(r"impl(<[^>]*>)?\s*(?:core::ops::)?(\w+)(?:<(.*)>)?\s*for (\w+)$", re.sub(r'\s+', ' ', imp.header.strip()))
        if not m:
            continue
        gen, trait, targ, ty = m.groups()
        gen = gen or ""
        hdr = re.sub(r'\s+', ' ', imp.header.strip())
        if trait == "From":
            t = targ
            val = "(if v { 1int } else { 0int })" if t == "bool" else "(v as int)"
            pre = f"""impl FromSpecImpl<{t}> for {F} {{
    open spec fn obeys_from_spec() -> bool {{ true }}
    open spec fn from_spec(v: {t}) -> {F} {{ {f}_of({val} % {P}) }}
}}"""
            if t == "u128":
                preamble = bu + f"""
        assert(other == (other as u64) as u128 + 0x1_0000_0000_0000_0000u128 * (((other >> 64) as u64) as u128)) by(bit_vector);
        proof {{ lemma_limbs_val_2([other as u64, (other >> 64) as u64, {zeros}]@); }}"""
            else:
                preamble = bu
            items.append(Item(path, hdr, [Fn("from", preamble=preamble, props=("C11",), attrs=R12)], pre=pre))
        elif trait == "Neg":
            pre = f"""impl NegSpecImpl for {F} {{
    open spec fn obeys_neg_spec() -> bool {{ true }}
    open spec fn neg_req(self) -> bool {{ true }}
    open spec fn neg_spec(self) -> {F} {{ {f}_of(mneg({P}, self.val())) }}
}}"""
            items.append(Item(path, hdr, [Fn("neg", preamble=bu, props=("C10",), attrs=R12)], pre=pre, keep_assoc=("Output",)))
        elif trait in BIN:
            meth, sp = BIN[trait]
            rhs = targ.replace("Self", F)
            if sp:
                spec = f"{f}_of({sp}({P}, self.val(), rhs.val()))"
                req = "true"
            else:
                spec = f"{f}_of(mmul({P}, self.val(), minv({P}, rhs.val())))"
                req = "rhs.val() != 0"
            pre = f"""impl{gen} {trait}SpecImpl<{rhs}> for {F} {{
    open spec fn obeys_{meth}_spec() -> bool {{ true }}
    open spec fn {meth}_req(self, rhs: {rhs}) -> bool {{ {req} }}
    open spec fn {meth}_spec(self, rhs: {rhs}) -> {F} {{ {spec} }}
}}"""
            items.append(Item(path, hdr, [Fn(meth, preamble=bu, props=("C10",), attrs=R12)], pre=pre, keep_assoc=("Output",)))
        elif trait in ("AddAssign", "SubAssign", "MulAssign", "DivAssign"):
            base = trait[:-6]
            meth, sp = BIN[base]
            meth = meth + "_assign"
            rhs = targ.replace("Self", F)
            if sp:
                spec = f"{f}_of({sp}({P}, self.val(), rhs.val()))"
                req = "true"
            else:
                spec = f"{f}_of(mmul({P}, self.val(), minv({P}, rhs.val())))"
                req = "rhs.val() != 0"
            pre = f"""impl{gen} {trait}SpecImpl<{rhs}> for {F} {{
    open spec fn obeys_{meth}_spec() -> bool {{ true }}
    open spec fn {meth}_req(&self, rhs: {rhs}) -> bool {{ {req} }}
    open spec fn {meth}_spec(&self, rhs: {rhs}) -> &{F} {{ &{spec} }}
}}"""
            items.append(Item(path, hdr, [Fn(meth, preamble=bu, props=("C10",), attrs=R12)], pre=pre))
        elif trait in ("Sum", "Product"):
            meth = "sum" if trait == "Sum" else "product"
            seqf = "sum_seq" if trait == "Sum" else "prod_seq"
            lem = "lemma_sum" if trait == "Sum" else "lemma_prod"
            opn = "Add" if trait == "Sum" else "Mul"
            init = "ZERO" if trait == "Sum" else "ONE"
            a = targ.replace("Self", F)
            isref = a.startswith("&")
            valmap = f"iter_seq(iter).map_values(|x: {a}| x.val())"
            ens = f"r.val() == {f}_{seqf}({valmap})"
            epi = f"""broadcast use {f}_abs;
            let s = iter_seq(iter);
            let accs = choose|accs: Seq<{F}>| fold_trace(s, <{F} as {opn}<{a}>>::{opn.lower()}, r_, accs) && accs[0].val() == {0 if trait == 'Sum' else 1};
            {f}_{lem}{'_ref' if isref else ''}(s, accs, s.len() as int);
            assert(s.take(s.len() as int) == s);"""
            items.append(Item(path, hdr, [Fn(meth, ensures=ens, epilogue=epi, props=("C10",), attrs=R12,
                                             subst=[("R6", r'\biter\s*\.\s*fold\s*\(', 'std_fold(iter, ')])]))
        elif trait == "Default":
            items.append(Item(path, hdr, [Fn("default", ensures="r.val() == 0", preamble=bu, props=("C10",))]))
    lem = LEMMAS.replace("@F@", F).replace("@f@", f).replace("@P@", P)
    u = Unit(name=f"ops_{f}", preludes=[("common.rs", None), ("field_consts.rs", dict(NW=fp["N64"])), ("field_abs.rs", None), ("std_standins.rs", None)],
             items=items, lemmas=consts + eq_stub(f) + lem, params=fp)
    return u


LEMMAS = r"""
pub proof fn lemma_limbs_val_2(s: Seq<u64>)
    requires s.len() >= 2, forall|i: int| 2 <= i < s.len() ==> s[i] == 0
    ensures limbs_val(s) == s[0] as int + W64() * (s[1] as int)
{
    reveal_with_fuel(limbs_val, 3);
    lemma_limbs_zero(s.drop_first().drop_first());
}
pub proof fn lemma_limbs_zero(s: Seq<u64>)
    requires forall|i: int| 0 <= i < s.len() ==> s[i] == 0
    ensures limbs_val(s) == 0
    decreases s.len()
{
    if s.len() > 0 { lemma_limbs_zero(s.drop_first()); }
}
pub open spec fn @f@_sum_seq(s: Seq<int>) -> int decreases s.len() {
    if s.len() == 0 { 0 } else { madd(@P@, @f@_sum_seq(s.drop_last()), s.last()) }
}
pub open spec fn @f@_prod_seq(s: Seq<int>) -> int decreases s.len() {
    if s.len() == 0 { 1 } else { mmul(@P@, @f@_prod_seq(s.drop_last()), s.last()) }
}
pub proof fn @f@_lemma_sum(s: Seq<@F@>, accs: Seq<@F@>, n: int)
    requires accs.len() == s.len() + 1, accs[0].val() == 0, 0 <= n <= s.len(),
             forall|i: int| 0 <= i < s.len() ==> call_ensures(<@F@ as Add<@F@>>::add, (#[trigger] accs[i], s[i]), accs[i+1])
    ensures accs[n].val() == @f@_sum_seq(s.take(n).map_values(|x: @F@| x.val()))
    decreases n
{
    broadcast use @f@_abs;
    if n > 0 {
        @f@_lemma_sum(s, accs, n-1);
        assert(s.take(n).map_values(|x: @F@| x.val()).drop_last() == s.take(n-1).map_values(|x: @F@| x.val()));
        assert(call_ensures(<@F@ as Add<@F@>>::add, (accs[n-1], s[n-1]), accs[n-1+1]));
    }
}
pub proof fn @f@_lemma_sum_ref(s: Seq<&@F@>, accs: Seq<@F@>, n: int)
    requires accs.len() == s.len() + 1, accs[0].val() == 0, 0 <= n <= s.len(),
             forall|i: int| 0 <= i < s.len() ==> call_ensures(<@F@ as Add<&@F@>>::add, (#[trigger] accs[i], s[i]), accs[i+1])
    ensures accs[n].val() == @f@_sum_seq(s.take(n).map_values(|x: &@F@| x.val()))
    decreases n
{
    broadcast use @f@_abs;
    if n > 0 {
        @f@_lemma_sum_ref(s, accs, n-1);
        assert(s.take(n).map_values(|x: &@F@| x.val()).drop_last() == s.take(n-1).map_values(|x: &@F@| x.val()));
        assert(call_ensures(<@F@ as Add<&@F@>>::add, (accs[n-1], s[n-1]), accs[n-1+1]));
    }
}
pub proof fn @f@_lemma_prod(s: Seq<@F@>, accs: Seq<@F@>, n: int)
    requires accs.len() == s.len() + 1, accs[0].val() == 1, 0 <= n <= s.len(),
             forall|i: int| 0 <= i < s.len() ==> call_ensures(<@F@ as Mul<@F@>>::mul, (#[trigger] accs[i], s[i]), accs[i+1])
    ensures accs[n].val() == @f@_prod_seq(s.take(n).map_values(|x: @F@| x.val()))
    decreases n
{
    broadcast use @f@_abs;
    if n > 0 {
        @f@_lemma_prod(s, accs, n-1);
        assert(s.take(n).map_values(|x: @F@| x.val()).drop_last() == s.take(n-1).map_values(|x: @F@| x.val()));
        assert(call_ensures(<@F@ as Mul<@F@>>::mul, (accs[n-1], s[n-1]), accs[n-1+1]));
    }
}
pub proof fn @f@_lemma_prod_ref(s: Seq<&@F@>, accs: Seq<@F@>, n: int)
    requires accs.len() == s.len() + 1, accs[0].val() == 1, 0 <= n <= s.len(),
             forall|i: int| 0 <= i < s.len() ==> call_ensures(<@F@ as Mul<&@F@>>::mul, (#[trigger] accs[i], s[i]), accs[i+1])
    ensures accs[n].val() == @f@_prod_seq(s.take(n).map_values(|x: &@F@| x.val()))
    decreases n
{
    broadcast use @f@_abs;
    if n > 0 {
        @f@_lemma_prod_ref(s, accs, n-1);
        assert(s.take(n).map_values(|x: &@F@| x.val()).drop_last() == s.take(n-1).map_values(|x: &@F@| x.val()));
        assert(call_ensures(<@F@ as Mul<&@F@>>::mul, (accs[n-1], s[n-1]), accs[n-1+1]));
    }
}
"""


def stub_items(f):
    """the operator impls of ops.rs as contract-carrying stubs (SpecImpl + external_body), proved in ops_<f>"""
    import dataclasses
    u = unit(f)
    out = []
    for it in u.items:
        if it.mode == "stub":
            out.append(it)        # wrapper stubs (proved in wrap64/wrap32)
        else:
            fns = [dataclasses.replace(fn, preamble="", epilogue="", before_tail="", subst=[]) for fn in it.fns]
            out.append(dataclasses.replace(it, mode="stub", fns=fns, proved_in=f"ops_{f}"))
    return out, u.lemmas
