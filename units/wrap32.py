"""U(wrap32_<f>): the 32-bit wrapper (src/fields/<f>/u32/wrapper.rs) over the fiat stand-in
(contracts proved by Kani on the verbatim fiat file, or A-FIAT).  Same contract text as wrap64_<f>."""
import dataclasses
from vx.extract import Fn, Item, Unit, src
from .fieldc import field_params, wrapper_contracts, wrapper_file, FIELDS

R12 = "#[verifier::exec_allows_no_decreases_clause]"


def with_(fn, **kw):
    return dataclasses.replace(fn, **kw)


def unit(f):
    fp = dict(field_params(f))
    F = fp["F"]
    path = wrapper_file(f, "u32")
    c = wrapper_contracts(f, style="conditional")
    P = f"{f}_p()"
    n64, n32, n8 = fp["N64"], fp["N32"], fp["N8"]
    items = []
    bu = "broadcast use lemma_l32_bound, lemma_bytes_val_bound, lemma_limbs_val_bound, lemma_l32_pairs;"
    I = lambda fn, hdr=None, **kw: items.append(Item(path, hdr or f"impl {F}", [fn], **kw))
    I(with_(c["ZERO"], preamble="proof { reveal_with_fuel(limbs32_val, 16); }"))
    I(with_(c["ONE"], preamble="proof { reveal_with_fuel(limbs32_val, 16); c17_one(); }"))
    fml = with_(c["from_montgomery_limbs"], requires=None,
                ensures=f"l32(r.0.0@) == limbs_val(limbs@), limbs_val(limbs@) < {P} ==> (r.wf() && r.val() == mmul({P}, limbs_val(limbs@), {fp['RINV']}int))",
                preamble=f"""proof {{ reveal_with_fuel(limbs32_val, {n32 + 2}); reveal_with_fuel(limbs_val, {n64 + 2}); }}
        assert(forall|x: u64| (#[trigger] (x >> 32)) == x / 0x1_0000_0000) by(bit_vector);
        assert(forall|x: u64| #[trigger] (x / 0x1_0000_0000) < 0x1_0000_0000) by(bit_vector);
        assert(forall|y: u64| (#[trigger] (y as u32)) as u64 == y % 0x1_0000_0000) by(bit_vector);""",
                subst=[("R24", r'(\(limbs\[\d+\] >> 32\)|limbs\[\d+\]) as u32', r'#[verifier::truncate] (\1 as u32)')])
    I(fml)
    try:
        src(path).find_fn(f"impl {F}", "from_montgomery_limbs_backend")
        I(Fn("from_montgomery_limbs_backend", ensures="r.0.0 == limbs", props=("C10",)))
        items[-2], items[-1] = items[-1], items[-2]
    except Exception:
        pass
    pre = f"""impl PartialEqSpecImpl<{F}> for {F} {{
    open spec fn obeys_eq_spec() -> bool {{ false }}
    open spec fn eq_spec(&self, other: &{F}) -> bool {{ arbitrary() }}
}}"""
    has_sentinel = any(ch.kind == 'const' and ch.name == 'SENTINEL' for imp in src(path).find_impls(f"impl {F}") for ch in imp.children())
    I(Fn("eq", props=("C10", "C08", "C12"), attrs=R12, preamble=bu + " broadcast use lemma_mont_zero;",
         ensures="self.wf() && other.wf() ==> r == (self.val() == other.val())"), hdr=f"impl PartialEq for {F}", pre=pre)
    if has_sentinel:
        I(Fn("SENTINEL", as_const=True, ensures=f"!{F}::SENTINEL.wf()", props=("C10",), preamble="proof { reveal_with_fuel(limbs_val, 8); }"))
        I(Fn("is_sentinel", ensures=f"self.wf() ==> !r", props=("C10",), preamble=bu + " proof { reveal_with_fuel(limbs32_val, 16); }"))
    bits = """assert(forall|x: u64| (#[trigger] (x >> 32)) == x / 0x1_0000_0000) by(bit_vector);
        assert(forall|x: u64| #[trigger] (x / 0x1_0000_0000) < 0x1_0000_0000) by(bit_vector);
        assert(forall|y: u64| (#[trigger] (y as u32)) as u64 == y % 0x1_0000_0000) by(bit_vector);
        assert(forall|y: u64| #[trigger] (y & 0xFFFF_FFFF_FFFF_FFFF) == y) by(bit_vector);
        assert(forall|a: u32, b: u32| #[trigger] ((a as u64) | ((b as u64) << 32)) == (a as u64) + 0x1_0000_0000 * (b as u64)) by(bit_vector);"""
    fuel = f"proof {{ reveal_with_fuel(limbs32_val, {n32 + 2}); reveal_with_fuel(limbs_val, {n64 + 2}); }}"
    I(with_(c["from_le_limbs"], preamble=bu + fuel + bits, unroll="all",
            subst=[("R24", r'(\(limbs\[i\] >> 32\)|\(limbs\[i\] & 0xFFFF_FFFF_FFFF_FFFF\)) as u32', r'#[verifier::truncate] (\1 as u32)')]))
    I(with_(c["to_le_limbs"], preamble=bu + fuel + bits, unroll="all"))
    I(with_(c["from_raw_bytes"], preamble=bu))
    I(with_(c["to_bytes_le"], preamble=bu))
    for n in ("square", "add", "sub", "mul", "neg"):
        I(with_(c[n], preamble=bu + " broadcast use lemma_mont_ops, lemma_mont_add, lemma_mont_sub, lemma_mont_neg;"))
    sfile = src(path)
    if sfile.find_impls(f"impl ConditionallySelectable for {F}"):
        items.append(Item(path, f"impl ConditionallySelectable for {F}", [Fn("conditional_select", props=("C10", "C12"), preamble=bu, unroll="all",
                          epilogue="if choice.b() { lemma_ext(r_, *b); } else { lemma_ext(r_, *a); }")],
                          extra_assoc="    open spec fn cs_wf(&self) -> bool { true }"))
        items.append(Item(path, f"impl ConstantTimeEq for {F}", [Fn("ct_eq", props=("C10", "C12"), preamble=bu + " broadcast use lemma_mont_zero; proof { lemma_eq_canon32(*self, *other); }")],
                          extra_assoc="    open spec fn ct_wf(&self) -> bool { self.wf() }\n    open spec fn ct_eq_spec(&self, other: &Self) -> bool { self.val() == other.val() }"))
    u = Unit(name=f"wrap32_{f}",
             preludes=[("common.rs", None), ("field_consts.rs", dict(NW=fp["N32"])), ("field_const_b.rs", None), ("le_lemmas.rs", None),
                       ("fiat_standin.rs", None), ("subtle.rs", None)],
             items=items, lemmas=LEMMAS.replace("@F@", F).replace("@f@", f), params=fp)
    u.raw = [(path, "struct", F)]
    u.consts = {"N_64": n64, "N_8": n8, "N": n32, "N_32": n32}
    return u


LEMMAS = r"""
impl @F@ {
    pub open spec fn wf(self) -> bool { l32(self.0.0@) < @f@_p() }
    pub open spec fn val(self) -> int { mmul(@f@_p(), l32(self.0.0@), @f@_rinv()) }
}
pub proof fn lemma_ext(x: @F@, y: @F@)
    requires forall|i: int| 0 <= i < @N32@ ==> x.0.0@[i] == y.0.0@[i]
    ensures x == y
{ assert(x.0.0 =~= y.0.0); }
// canonicity of the u32 representation: reduced limb vectors with equal value are equal
pub proof fn lemma_eq_canon32(a: @F@, b: @F@)
    requires a.wf(), b.wf()
    ensures (a.0.0@ =~= b.0.0@) <==> (a.val() == b.val())
{
    lemma_l32_bound(a.0.0@); lemma_l32_bound(b.0.0@);
    if a.val() == b.val() {
        lemma_mont_inj(l32(a.0.0@), l32(b.0.0@));
        lemma_l32_inj(a.0.0@, b.0.0@);
    }
}
pub proof fn lemma_mont_inj(x: int, y: int)
    requires 0 <= x < @f@_p(), 0 <= y < @f@_p(), mmul(@f@_p(), x, @f@_rinv()) == mmul(@f@_p(), y, @f@_rinv())
    ensures x == y
{
    let p = @f@_p(); let r = @f@_rinv(); let big = @RMOD@int;
    c17_one();
    vstd::arithmetic::div_mod::lemma_mul_mod_noop_general(x * r, big, p);
    vstd::arithmetic::div_mod::lemma_mul_mod_noop_general(y * r, big, p);
    assert((x * r) * big == x * (big * r)) by(nonlinear_arith);
    assert((y * r) * big == y * (big * r)) by(nonlinear_arith);
    vstd::arithmetic::div_mod::lemma_mul_mod_noop_general(x, big * r, p);
    vstd::arithmetic::div_mod::lemma_mul_mod_noop_general(y, big * r, p);
    vstd::arithmetic::div_mod::lemma_small_mod(x as nat, p as nat);
    vstd::arithmetic::div_mod::lemma_small_mod(y as nat, p as nat);
    assert(x * 1 == x); assert(y * 1 == y);
}
pub proof fn lemma_l32_inj(a: Seq<u32>, b: Seq<u32>)
    requires a.len() == b.len(), limbs32_val(a) == limbs32_val(b)
    ensures a =~= b
    decreases a.len()
{
    if a.len() > 0 {
        lemma_l32_bound(a.drop_first()); lemma_l32_bound(b.drop_first());
        assert(a[0] == b[0] && limbs32_val(a.drop_first()) == limbs32_val(b.drop_first())) by(nonlinear_arith)
            requires a[0] as int + 0x1_0000_0000 * limbs32_val(a.drop_first()) == b[0] as int + 0x1_0000_0000 * limbs32_val(b.drop_first()),
                     0 <= a[0] < 0x1_0000_0000, 0 <= b[0] < 0x1_0000_0000, limbs32_val(a.drop_first()) >= 0, limbs32_val(b.drop_first()) >= 0;
        lemma_l32_inj(a.drop_first(), b.drop_first());
        assert(a =~= seq![a[0]] + a.drop_first());
        assert(b =~= seq![b[0]] + b.drop_first());
    }
}
pub broadcast proof fn lemma_l32_pairs(s: Seq<u32>)
    ensures #[trigger] limbs32_val(s) >= 0
{ lemma_l32_bound(s); }
// the literal ONE of the u32 wrapper is 2^(32 N) mod p (lemma c17_<f>_u32_ONE of unit consts): its value is 1
pub proof fn c17_one()
    ensures mmul(@f@_p(), @RMOD@int, @f@_rinv()) == 1
{ assert(mmul(@f@_p(), @RMOD@int, @f@_rinv()) == 1) by(compute_only); }
// Montgomery form is a ring isomorphism: (aR)(bR)R^-1 R^-1 = ab, (aR + bR) R^-1 = a + b ...   (mod p)
pub broadcast proof fn lemma_mont_ops(a: int, b: int)
    ensures
        #[trigger] mmul(@f@_p(), mmul(@f@_p(), mmul(@f@_p(), a, b), @f@_rinv()), @f@_rinv())
            == mmul(@f@_p(), mmul(@f@_p(), a, @f@_rinv()), mmul(@f@_p(), b, @f@_rinv())),
{
    let p = @f@_p(); let r = @f@_rinv();
    vstd::arithmetic::div_mod::lemma_mul_mod_noop_general(a * b, r, p);
    vstd::arithmetic::div_mod::lemma_mul_mod_noop_general((a * b) * r, r, p);
    vstd::arithmetic::div_mod::lemma_mul_mod_noop_general(a, r, p);
    vstd::arithmetic::div_mod::lemma_mul_mod_noop_general(b, r, p);
    vstd::arithmetic::div_mod::lemma_mul_mod_noop_general(a * r, b * r, p);
    vstd::arithmetic::div_mod::lemma_mul_mod_noop_general(mmul(p, a, b), r, p);
    assert(((a * b) * r) * r == (a * r) * (b * r)) by(nonlinear_arith);
}
// x * R^-1 == 0 (mod p)  <=>  x == 0   for reduced x   (R^-1 is invertible: RMOD * RINV == 1 by compute)
pub broadcast proof fn lemma_mont_zero(x: int)
    requires 0 <= x < @f@_p()
    ensures (#[trigger] mmul(@f@_p(), x, @f@_rinv()) == 0) <==> x == 0
{
    let p = @f@_p(); let r = @f@_rinv(); let big = @RMOD@int;
    c17_one();
    if mmul(p, x, r) == 0 {
        // x == (x * r) * R  (mod p)
        vstd::arithmetic::div_mod::lemma_mul_mod_noop_general(x * r, big, p);
        assert((x * r) * big == x * (big * r)) by(nonlinear_arith);
        vstd::arithmetic::div_mod::lemma_mul_mod_noop_general(x, big * r, p);
        vstd::arithmetic::div_mod::lemma_small_mod(x as nat, p as nat);
        assert(x * 1 == x);
        assert((0int * big) % p == 0) by { vstd::arithmetic::div_mod::lemma_small_mod(0, p as nat); }
    } else {
        assert(x != 0) by { if x == 0 { assert((0 * r) % p == 0) by { assert(0 * r == 0); vstd::arithmetic::div_mod::lemma_small_mod(0, p as nat); } } }
    }
}
pub broadcast proof fn lemma_mont_add(a: int, b: int)
    ensures #[trigger] mmul(@f@_p(), (a + b) % @f@_p(), @f@_rinv()) == madd(@f@_p(), mmul(@f@_p(), a, @f@_rinv()), mmul(@f@_p(), b, @f@_rinv()))
{
    let p = @f@_p(); let r = @f@_rinv();
    vstd::arithmetic::div_mod::lemma_mul_mod_noop_general(a + b, r, p);
    vstd::arithmetic::div_mod::lemma_add_mod_noop(a * r, b * r, p);
    assert((a + b) * r == a * r + b * r) by(nonlinear_arith);
}
pub broadcast proof fn lemma_mont_sub(a: int, b: int)
    ensures #[trigger] mmul(@f@_p(), (a - b) % @f@_p(), @f@_rinv()) == msub(@f@_p(), mmul(@f@_p(), a, @f@_rinv()), mmul(@f@_p(), b, @f@_rinv()))
{
    let p = @f@_p(); let r = @f@_rinv();
    vstd::arithmetic::div_mod::lemma_mul_mod_noop_general(a - b, r, p);
    vstd::arithmetic::div_mod::lemma_sub_mod_noop(a * r, b * r, p);
    assert((a - b) * r == a * r - b * r) by(nonlinear_arith);
}
pub broadcast proof fn lemma_mont_neg(a: int)
    ensures #[trigger] mmul(@f@_p(), (-a) % @f@_p(), @f@_rinv()) == mneg(@f@_p(), mmul(@f@_p(), a, @f@_rinv()))
{
    let p = @f@_p(); let r = @f@_rinv();
    vstd::arithmetic::div_mod::lemma_mul_mod_noop_general(-a, r, p);
    vstd::arithmetic::div_mod::lemma_sub_mod_noop(0, a * r, p);
    assert((-a) * r == 0 - a * r) by(nonlinear_arith);
    assert(0int % p == 0) by { vstd::arithmetic::div_mod::lemma_small_mod(0, p as nat); }
}
"""
