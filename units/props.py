"""Property registry: which units / engines decide each property, and what is assumed."""

A_ARK1 = "A-ARK-1: ark_ff::Fp<MontBackend<_,N>> arithmetic (+ - * neg square inverse from_le_bytes_mod_order serialize_compressed new new_unchecked) behaves as Z/p on the canonical value; limbs are the Montgomery form"
A_STD = "A-STD: std stand-ins (Iterator::fold trace contract, u128::from(bool), array reverse/cmp, Hasher::write) as stated in preludes/std_standins.rs"
M_PRIME = "M-PRIME: q, r, p are prime (a * a^(p-2) == 1 for a != 0)"
A_WF = "A-WF: every Fq/Fr/Fp value in circulation satisfies the wrapper invariant (limbs < p); from_montgomery_limbs is only called with reduced limbs (all literal call sites in /repo are checked by compute under C17)"

PROPS = {
    "C10": dict(
        units=["ops_fq", "ops_fr", "ops_fp", "wrap64_fq", "wrap64_fr", "wrap64_fp"],
        assumptions=[A_ARK1, A_STD, M_PRIME, A_WF],
        explanation="every operator/method form of the three fields refines the integer operation mod p",
    ),
}

NOT_APPLICABLE = {
    "C15": "circuit shape / pinned Groth16 keys: the subject is the hidden ark_relations constraint store and binary key files; no pre/postcondition on a /repo function can state matrix equality across runs or SNARK verification (DESIGN.md C15)",
}
FIX_NOTE = "f4c29b3 7a29832 e58bcf9 db08dd6 b6643e6 5514f4e 35a968d"
