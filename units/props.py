"""Property registry: which units / engines decide each property, and what is assumed."""

A_ARK1 = "A-ARK-1: ark_ff::Fp<MontBackend<_,N>> arithmetic (+ - * neg square inverse from_le_bytes_mod_order serialize_compressed new new_unchecked) behaves as Z/p on the canonical value; limbs are the Montgomery form"
A_STD = "A-STD: std stand-ins as stated in preludes/std_standins.rs, chunk_lemmas.rs, ord_lemmas.rs and the unit texts: Iterator::fold trace contract, u128::from(bool), array reverse / lexicographic cmp, Hasher::write, slice chunks / iter / map / rev / fold / collect / iter_mut().zip(chunks_exact) (the iterator chains are desugared to index loops by R25/R28/R30), IntoIterator::into_iter / Iterator::next / zip / fold on generic iterators (the sequence an iterator yields is abstract; next pops its head; zip polls the left side first; R32 desugars a.zip(b).fold(init, f) to that loop), core::borrow::Borrow, to_vec, copy_from_slice on a prefix, u64 <-> little-endian bytes"
M_PRIME = "M-PRIME: q, r, p are prime (a * a^(p-2) == 1 for a != 0)"
A_WF = "A-WF: every Fq/Fr/Fp value in circulation satisfies the wrapper invariant (limbs < p); from_montgomery_limbs is only called with reduced limbs (all literal call sites in /repo are checked by compute under C17)"

PROPS = {
    "C10": dict(
        units=["ops_fq", "ops_fr", "ops_fp", "wrap64_fq", "wrap64_fr", "wrap64_fp"],
        assumptions=[A_ARK1, A_STD, M_PRIME, A_WF],
        explanation="every operator/method form of the three fields refines the integer operation mod p",
    ),
}

A_ARK2 = "A-ARK-2: ark_ec twisted-Edwards Projective/Affine (+ - neg double mul_bigint *= into() new zero is_zero) compute what preludes/ark_ec.rs states (ark-ec 0.4.2 group.rs/affine.rs)"
M_DECAF = "M-DECAF: spec-level facts about spec_encode/spec_decode (decoded points are on the curve; round-trip; coset/scale invariance) -- statements about the specification functions only"
C09_CONTRACT = "callers use only the four-case contract of sqrt_ratio_zeta (isqrt_ok), decided under C09"
M_LE32 = "M-LE32: [u8;32] <-> [0,2^256) little-endian is a bijection (le32 axioms)"
PROPS["C02"] = dict(units=["ark_encoding"], assumptions=[A_ARK1, A_ARK2, M_DECAF, C09_CONTRACT, A_STD, M_LE32, A_WF],
    explanation="every decoding entry point returns decode_result(bytes): Ok(point) iff the specification's decoding of the canonical, non-negative field element succeeds, else InvalidEncoding",
    not_decided=["Compress::No / Validate::No arms are unimplemented!() in /repo"])
PROPS["C03"] = dict(units=["ark_encoding"], assumptions=[A_ARK1, A_ARK2, M_DECAF, C09_CONTRACT, A_STD, M_LE32, A_WF],
    explanation="vartime_compress_to_field == spec_encode(X,Y,Z,T) for arbitrary coordinates; bytes are the canonical LE form with top three bits clear; all serialisation forms agree")
PROPS["C01"] = dict(units=["ark_encoding", "ark_element"], assumptions=[A_ARK1, A_ARK2, M_DECAF, C09_CONTRACT, A_STD, M_LE32, A_WF],
    explanation="round trip = lemma over the two refinements (encode == spec_encode, decode == spec_decode) + M-DECAF; `==` on elements (what 'equal to the original' means) is spec_eq")

M_GROUP = "M-GROUP: valid points under te_add modulo spec_eq form a group of order r; te_add complete for a=-1, d=3021; smul additive (statements about spec functions)"
PROPS["C04"] = dict(units=["ark_ops", "ark_encoding"], assumptions=[A_ARK2, M_GROUP, A_WF, A_STD],
    explanation="each operator form ensures to_affine(result) == to_affine(te_add/te_sub/te_neg(views of operands)): the reference group law in canonical affine form",
    not_decided=["termination of operator forwarding chains (R12)",
                 "native Group::double_in_place / Group::double for Element (src/ark_curve/element.rs: forwards to the inner arkworks doubling and returns `&mut Self`, a signature this Verus rejects): not under contract, bounded probe curve.ops (watched file); the minimal backend's Element::double is under contract"])
PROPS["C05"] = dict(units=["ark_ops"], assumptions=[A_ARK2, M_GROUP, A_WF, A_STD],
    explanation="each Mul/MulAssign form ensures to_affine(result) == to_affine(ark_mul(k, view(point))) where ark_mul is arkworks' scalar multiplication (assumed projectively equal to the k-fold sum); Element::vartime_multiscalar_mul: for iterators of any lengths the result is the left-to-right sum, from the identity, of terms that are (in canonical affine form) the reference products [c_i] P_i of exactly the pairs the zip yields (loop invariant after R32; the generic VariableBaseMSM impl is arkworks code over the operators proved here)")

PROPS["C04"]["units"] = ["ark_ops", "ark_encoding", "ark_element"]
PROPS["C05"]["units"] = ["ark_ops", "ark_element"]
PROPS["C05"]["not_decided"] = list(PROPS["C05"].get("not_decided", [])) + ["VariableBaseMSM::msm / msm_bigint on Element (arkworks' generic Pippenger code, which reaches the crate through the operator impls proved under C04 -- e.g. `bucket -= &base` -- and ScalarMul::batch_convert_to_mul_base, proved under C06): bounded probe curve.mul"]
PROPS["C06"] = dict(units=["ark_element", "ark_encoding", "ark_ops"], assumptions=[A_ARK2, M_GROUP, M_DECAF, A_WF, A_STD],
    explanation="each public constructor ensures valid(repr) (on the curve and in 2E) or equality with a value proved valid; from_random_bytes doubles the sampled curve point; normalize_batch / batch_convert_to_mul_base return, element by element, the affine form of their inputs (loop invariants after R28)",
    not_decided=["termination of the rejection samplers of rand.rs (probabilistic; partial correctness is proved: whatever the RNG stream, the value handed out is a successful decoding)",
                 "field samplers Fq/Fr/Fp::rand and Distribution<F> for Standard (every value of the type is valid; nothing to decide beyond panic freedom): bounded"])
PROPS["C08"] = dict(units=["ark_element"], assumptions=[A_ARK2, M_DECAF, A_WF, A_STD, M_LE32],
    explanation="eq == spec_eq(repr, repr); Hash writes a function of spec_encode(repr) only; is_identity / Zero::is_zero / AffineRepr::is_zero == (x == 0)")

M_ELL = "M-ELL: ell_opt(r0) is on the curve with z != 0 and in 2E; ell_opt ~ ell_spec (unoptimised map of the specification); ell_opt(-r0) = ell_opt(r0)"
PROPS["C07"] = dict(units=["ark_elligator"], assumptions=[A_ARK2, M_ELL, C09_CONTRACT, A_WF],
    explanation="elligator_map == to_affine(ell_opt(r0)) (the specification's optimised step list, normalised by Projective::new); hash_to_curve == group sum of the two maps")

for _p in ("C01", "C02", "C03", "C04", "C05", "C07", "C08"):
    PROPS[_p]["units"] = list(PROPS[_p]["units"]) + ["min_element"]
PROPS["C05"]["explanation"] += "; minimal build: both ladders (constant-time and variable-time) are proved by loop invariant for limb slices of any length: result ~ smul(limbs_val(le_bits), P)"
PROPS["C12"] = dict(units=["ark_encoding", "ark_ops", "ark_elligator", "ark_element", "min_element"],
    assumptions=[A_ARK1, A_ARK2, M_GROUP, M_DECAF, M_ELL, C09_CONTRACT, A_WF, A_STD, M_LE32,
                 "te_add_min(p,q) = 4 * te_add(p,q) coordinatewise and spec_encode is invariant under projective scaling (M-GROUP / M-DECAF), so exact-formula contracts of the minimal build and normal-form contracts of the arkworks build denote the same group element"],
    explanation="relational property decided by common specification: for every operation offered by both builds the arkworks unit and the minimal unit are verified against the same spec functions of preludes/curve_spec.rs (spec_decode, spec_encode, ell_opt, te_add, smul); byte-level results then agree")

A_ARK3 = "A-ARK-3: ark_serialize surface as stated in preludes/ark_serialize.rs: the default methods deserialize_compressed / serialize_compressed forward to our deserialize_with_mode / serialize_with_mode (both proved in fieldx_<f>, down to deserialize_with_flags / serialize_with_flags / from_bigint / to_bytes_le); std::io::Read::read_exact fills the buffer from the front of the stream or fails, Write::write_all appends or fails, an io::Error becomes SerializationError::IoError; Flags::from_u8_remove_flags is the documented default method (parse, then clear the mask bits); the round trip of value and flags is proved for every flag type obeying flags_law (mask in the top BIT_SIZE bits, parsing reads only those), which EmptyFlags, TEFlags and SWFlags are proved to obey from their ark-serialize 0.4.2 definitions; the stream parameters taken by value in the source are taken by &mut (rule R31: f(mut r: R) = g(&mut r) with g the verified text); a reader fails only on a short stream and a writer only when full (in-memory streams)"
for _p in ("C01", "C02"):
    PROPS[_p]["units"] = list(PROPS[_p]["units"]) + ["fieldx_fq"]
    PROPS[_p]["assumptions"] = list(PROPS[_p]["assumptions"]) + [A_ARK3]
PROPS["C11"] = dict(units=["fieldx_fq", "fieldx_fr", "fieldx_fp", "wrap64_fq", "wrap64_fr", "wrap64_fp", "ops_fq", "ops_fr", "ops_fp"],
    assumptions=[A_ARK1, A_ARK3, A_STD, A_WF],
    explanation="byte/limb/bigint conversions refine the integer value: to_bytes(_le) is the little-endian form of val, from_bytes_checked accepts exactly the integers below p, from_bigint is Some iff below p, from_le_limbs/from_raw_bytes reduce mod p, From<u8..u128,bool>; from_le_bytes_mod_order / from_be_bytes_mod_order reduce byte strings of ANY length (Horner loop invariant over N_8-byte chunks); Ord::cmp / PartialOrd::partial_cmp are integer comparison of the values (lexicographic comparison of the reversed limb arrays, lemma_lex_is_int proved); Hash writes exactly the canonical little-endian bytes, a function of the value; the flag-carrying stream format: serialize_with_flags writes ser_bytes(value, flags) (canonical bytes with the mask OR-ed into the top byte, or one extra byte when the flags do not fit), deserialize_with_flags returns deser_spec of the bytes it reads (NotEnoughSpace for flags wider than 8 bits, IoError on a short stream, UnexpectedFlags, InvalidData for non-canonical values, else value and flags) and consumes exactly serialized_size_with_flags bytes, serialize_with_mode / deserialize_with_mode / serialized_size / Valid::check are the EmptyFlags instances; lemma_flags_roundtrip: for every flag type obeying the flag law, deserialising what was serialised (followed by anything) returns the same value and flags; FromStr accepts exactly the strings of decimal digits (the empty one included) and returns their decimal value modulo p (Horner loop invariant after R33)",
    not_decided=["Display (BigInt::to_string through num-bigint, Formatter): bounded probe field.* (decimal round trip; zero prints as the empty string, as in arkworks)",
                 "Field::sqrt / legendre (arkworks generic routines, A-ARK-1): bounded"])

PROPS["C17"] = dict(units=["consts"], assumptions=[M_PRIME + " (the certified factors of p-1 are prime)", "the reference moduli are read from the cargo registry source of ark-bls12-377 / ark-ed-on-bls12-377 0.4.0"],
    explanation="one lemma per published constant, generated from the literals in /repo each run and evaluated exactly by Verus by(compute_only): half modulus, bit size, two-adicity, trace, half trace, generator (order test over the certified prime factors of p-1), root of unity (= g^t, exact order 2^s), QNR^t, 2^(8N) mod p, u32/u64 spellings, curve a/d/zeta/Montgomery A,B, generator (on curve, T=XY, [r]G = identity element, = decode(8)), sqrt-table constants, min_curve copies",
    technique="contract-based deductive verification: generated ground lemmas over constants extracted from /repo, discharged by Verus by(compute_only)")
for _p in ("C04", "C05", "C06", "C07", "C12"):
    PROPS[_p]["units"] = list(PROPS[_p]["units"]) + ["consts"]

A_ARK4 = "A-ARK-4: each ark_r1cs_std primitive used (FpVar new_witness/new_constant/square/inverse/negate/is_eq/conditionally_select/conditional_enforce_equal/to_bits_le/+,-,*; Boolean new_witness/and/or/not/is_eq/enforce_equal/select; AffineVar::new; AffineVar add / sub / double_in_place / negate / zero / constant / new_variable_omit_prime_order_check as gadgets for the twisted Edwards group law on curve points, preludes/r1cs_group.rs) is a sound and complete gadget for the operation it names (preludes/r1cs.rs); a variable allocated in Constant mode has no constraint system and witnessing into it fails; EqGadget::enforce_equal and AllocVar::new_input are the arkworks default methods over the functions proved here; in the completeness reading AffineVar::new_variable_omit_prime_order_check succeeds on an on-curve point and holds its affine coordinates, FpVar::new_variable holds the hint's value, allocation outside Constant mode needs a constraint system, the native encoder meets its C03 contract and the coordinates of a native point are field elements; in the soundness reading a panic (expect) during synthesis leaves no circuit to reason about"
PROPS["C14"] = dict(units=["r1cs_sound", "r1cs_fwd_sound", "r1cs_outer_sound"], assumptions=[A_ARK4, M_PRIME + " (no zero divisors; a non-zero square has exactly two roots; zeta is a non-square)", M_DECAF, A_WF],
    explanation="the verbatim gadget code is verified with every witness value left arbitrary and every enforced constraint taken as a fact: any satisfying assignment makes isqrt / sign / abs / encode / decode / Elligator / equality / select outputs satisfy the specification's relations; the four AllocVar::new_variable functions (inner AllocVar<Element>; outer AllocVar<Element>, AllocVar<AffinePoint>, AllocVar<Fq>) are verified with the offered point, the offered encoding and both isqrt hints arbitrary: a Witness-mode variable is always the in-circuit decoding of some field element or an on-curve point the equality gadget identifies with it; CurveVar::new_variable_omit_prime_order_check of both layers (by its name no group check) still yields an on-curve point outside Constant mode; R1CSVar::value of both layers returns the native point with exactly the variable's coordinates; known finding D6 is the region den = 0 of isqrt (decode of s = q-1)",
    not_decided=["to_bits_le / to_bytes of both ElementVar layers (bit / byte decompositions of the affine coordinates by arkworks gadgets)", "lazy.rs itself is C13 (Kani)"])

PROPS["C13"] = dict(units=["r1cs_compl", "r1cs_fwd_compl", "r1cs_outer_compl"], assumptions=[A_ARK4, M_PRIME, M_ELL, M_DECAF, C09_CONTRACT, A_WF],
    explanation="the verbatim gadget code is verified with honest hints (witness = value of the hint closure) and every enforced constraint / inverse / new_witness / expect as a proof obligation: synthesis returns Ok, all constraints hold, and outputs equal the native specification values (isqrt flag and root, sign, abs, encode, decode when native decoding succeeds, Elligator coordinates, equality, select); the 17 operator / CurveVar forwarding impls of inner.rs and the 27 functions of the lazily evaluated outer ElementVar (element.rs, ops.rs) are verified against the group law te_add / te_neg with LazyElementVar abstract; the allocation functions (inner AllocVar<Element>::new_variable; outer AllocVar<Element> / AllocVar<AffinePoint> / AllocVar<Fq>::new_variable; CurveVar::new_variable_omit_prime_order_check of both layers) are verified for the honest prover in every mode they support: the hint closure returns an element on the curve whose encoding decodes to an element equal to it (what C06 establishes), synthesis then succeeds -- the in-circuit decoding of the witnessed encoding exists and the equality constraint with the witnessed coordinates holds -- and the variable denotes the native element (Witness: its canonical representative; Constant: its affine form; Input: its encoding, which decodes); R1CSVar::value of both layers returns the native point with exactly the variable's coordinates (Affine::new's on-curve assertion is an obligation) and never fails for the honest prover; lazy.rs itself (forcing order, repetition, emission counts, RefCell discipline) is proved by Kani on the verbatim file",
    not_decided=["scalar multiplication gadget scalar_mul_le (arkworks default method over double_in_place / conditionally_select / add, all three under contract)",
                 "to_bits_le / to_bytes (bit / byte decompositions of the affine coordinates by arkworks gadgets)", "histories of forcing operations longer than 4 on one lazy variable (absorbing-state argument, see DESIGN 2.6)"])

M_SQRT = "M-SQRT (retired): both square-root routines are proved -- the Sarkar table routine of the default build in unit ark_invsqrt, the constant-time Tonelli-Shanks `our_sqrt` of the minimal build in unit min_invsqrt (loop invariant z^2 = t x, t^(2^(i-1)) = 1, c^(2^(i-1)) = -1)"
M_ROOTS8 = "M-ROOTS8: h = g^(2^39) is a primitive 256th root of unity in the cyclic group Fq^*, hence every x with x^256 = 1 is an inverse power h^(-nu), nu < 256 (a statement about the constants q and g only; g^(2^47) = 1 != g^(2^46) is proved by compute)"
PROPS["C09"] = dict(units=["ark_invsqrt", "min_invsqrt", "consts"],
    assumptions=[M_ROOTS8, M_PRIME + " (Euler's criterion, no zero divisors, Fermat)", A_WF, A_ARK1 + " (incl. the generic Field::pow and Field::inverse of arkworks)",
                 "A-STD for invsqrt.rs: hashbrown::HashMap<Fq,u64> is a finite map keyed by the field value (insert / index, index panics on a miss), Vec push/pop, Vec -> Box<[T;256]> conversion panics unless the length is 256, u64::pow(2, e) = 2^e for e < 64, From<u64> for BigInteger"],
    explanation="default build: Fq::sqrt_ratio_zeta (Sarkar 2020, 7+8+8+8+8+8 bit windows) is proved for ALL num, den: every table lookup hits (each looked-up value is shown to be a 256th root of unity from the previous lookup's equation; the first one from x5 = (num t)^M and Fermat), every table index is in bounds, the digit accumulator never overflows, and the result meets the four-case contract isqrt_ok by ring algebra from the last lookup's equation; SquareRootTables::new is proved to establish the table invariant (six 256-entry power tables, lookup table sound and -- by M-ROOTS8 -- complete). minimal build: our_sqrt (constant-time Tonelli-Shanks) returns a square root of every non-zero square by loop invariants (outer: z^2 = t x, t^(2^(i-1)) = 1, c^(2^(i-1)) = -1; inner: b = t^(2^(j-1))), non_arkworks_sqrt_ratio_zeta ensures isqrt_ok for all num, den; pow_le_limbs == mpow(x, limbs_val) by loop invariant for any slice length; constants (zeta non-square, M, (M-1)/2, zeta^((1-M)/2), g = zeta^M, Fr (r+1)/4) by compute",
    not_decided=["Field::sqrt / legendre (arkworks generic routines over SQRT_PRECOMP, A-ARK-1; constants proved under C17) -- bounded probe field.*",
                 "the one-line static initialiser `SQRT_LOOKUP_TABLES = Lazy::new(|| SquareRootTables::new())` (once_cell)"])
PROPS["C10"]["units"] = list(PROPS["C10"]["units"]) + ["fieldx_fq", "fieldx_fr", "fieldx_fp"]

PROPS["C16"] = dict(units=["bls_consts", "consts", "ops_fp", "wrap64_fp", "fieldx_fp"],
    assumptions=[A_ARK1, "parametricity: two instantiations of the same generic arkworks Bls12<Config> code with equal configuration constants over fields with equal arithmetic and serialisation (C10, C11 for Fp) are the same mathematical object, so pairing values, serialisation and scalar multiplication agree and bilinearity / non-degeneracy are those of the reference", M_PRIME],
    explanation="bls12_377.rs contains no algorithms, only configuration constants: every literal (Fp2/Fp6/Fp12 non-residues, all 6+6+12 Frobenius coefficients, G1/G2 generators, COEFF_B, cofactors and their inverses, x, twist type) is shown by compute to equal the value defined by the modulus (gamma^k with gamma = (-5)^((p-1)/6), delta^k, generators on curve, [r]G1 = O and [r]G2 = O (Jacobian ladders over Fp and Fp2 evaluated by compute), cofactor*inverse = 1 mod r, p and r as polynomials in x) AND the corresponding constant parsed from the reference crate's source",
    technique="contract-based deductive verification: generated ground lemmas over the configuration literals extracted from /repo, discharged by Verus by(compute_only); engine equivalence itself is assumed (parametricity) with a bounded differential stand-in in the thorough tier",
    not_decided=["the pairing computation itself (generic arkworks code, A-ARK) -- bounded differential probe `bls` in the thorough tier"])
# C16's parametricity argument rests on Fp's arithmetic and serialisation being those of the reference field: every Fp
# obligation of C10/C11 is therefore also an obligation of C16 (the file src/fields/fp/* is the engine's base field)
PROPS["C16"]["tag_alias"] = {u: ["C10", "C11"] for u in ("ops_fp", "wrap64_fp", "fieldx_fp")}
WATCH_C16 = {"src/ark_curve/bls12_377.rs": [("ark", "bls")]}
PROPS["C16"]["watch"] = WATCH_C16

from vx import kani as _kani
A_FIAT = "A-FIAT: fiat-crypto's documented postconditions for f*_mul, f*_square, f*_from_montgomery (inputs below the modulus), f*_to_montgomery for every input below 2^(32N) (A-FIAT-2), and the Bernstein-Yang divstep inversion of the u32 `inverse` (A-FIAT-3, not under contract: bounded probes)"
for _p in ("C10", "C11", "C12"):
    PROPS[_p]["units"] = list(PROPS[_p]["units"]) + ["wrap32_fq", "wrap32_fr", "wrap32_fp"]
    PROPS[_p]["assumptions"] = list(PROPS[_p]["assumptions"]) + [A_FIAT]
    PROPS[_p]["engines"] = [_kani.engine()]
    PROPS[_p]["checker_extra"] = "cargo kani --harness proofs_<f>::h_<f>_<fn> in build/kani_fiat (verbatim fiat.rs via #[path])"
PROPS["C10"]["not_decided"] = list(PROPS["C10"].get("not_decided", [])) + ["the 32-bit backend's `inverse` (Bernstein-Yang divstep loop over fiat's f*_divstep, (49 B + 57) / 17 iterations, final sign fix and precomputed factor): not under contract, bounded probe field.* on the minimal build (watched files); the 64-bit backend's inverse is arkworks' (A-ARK-1)"]

from vx import kani_lazy as _kani_lazy
PROPS["C13"]["engines"] = [_kani_lazy.engine()]
PROPS["C13"]["checker_extra"] = "cargo kani --harness proofs::h_lazy_from_{encoding,element} in build/kani_lazy (verbatim lazy.rs via #[path])"

# every unit that calls Fq::sqrt_ratio_zeta through its contract (the prelude stub of ark_curve_misc.rs / r1cs.rs) depends on
# the unit that proves that contract: its obligations count for the calling property too (seeded C07_c hid a defect there)
for _p, _s in PROPS.items():
    if _p != "C09" and any(u in ("ark_encoding", "ark_elligator", "ark_element", "r1cs_sound", "r1cs_compl") for u in _s["units"]):
        _s["units"] = list(_s["units"]) + ["ark_invsqrt"]
        _s.setdefault("tag_alias", {})["ark_invsqrt"] = ["C09"]
# C12 (the two builds compute the same thing) is broken by a defect in either build: every obligation of its units counts
PROPS["C12"]["units"] = list(PROPS["C12"]["units"]) + [u for u in ("fieldx_fq", "fieldx_fr", "fieldx_fp", "ops_fq", "ops_fr", "ops_fp") if u not in PROPS["C12"]["units"]]
# the generic MSM of arkworks reaches the crate through the additive operator forms (C04 obligations of ark_ops): they carry C05 too
PROPS["C05"].setdefault("tag_alias", {})["ark_ops"] = ["C04"]
PROPS["C12"].setdefault("tag_alias", {}).update({u: ["*"] for u in PROPS["C12"]["units"]})
# C17: the constants of the 32-bit backend are built through from_montgomery_limbs (tagged C17 in the wrapper units)
PROPS["C17"]["units"] = list(PROPS["C17"]["units"]) + [f"wrap{b}_{f}" for b in ("64", "32") for f in ("fq", "fr", "fp")]

# bounded stand-ins (thorough tier only; never counted as proved): probes of /verif/replay_runner against the real crate
_F = [("ark", "field.fq"), ("ark", "field.fr"), ("ark", "field.fp"), ("min", "field.fq"), ("min", "field.fr"), ("min", "field.fp")]
PROBES = {
    "C01": [("ark", "curve.encode"), ("ark", "curve.decode"), ("min", "min.all")],
    "C02": [("ark", "curve.decode"), ("ark", "field.fq"), ("min", "min.all"), ("min", "field.fq")],
    "C03": [("ark", "curve.encode"), ("min", "min.all")],
    "C04": [("ark", "curve.ops"), ("min", "min.all")],
    "C05": [("ark", "curve.mul"), ("min", "min.all")],
    "C06": [("ark", "curve.ctor")],
    "C07": [("ark", "curve.elligator"), ("min", "min.all")],
    "C08": [("ark", "curve.eqhash"), ("min", "min.all")],
    "C09": [("ark", "curve.sqrt"), ("min", "min.all")],
    "C10": _F, "C11": _F,
    "C12": _F + [("ark", "curve.encode"), ("ark", "curve.decode"), ("ark", "curve.ops"), ("ark", "curve.mul"), ("ark", "curve.elligator"), ("min", "min.all")],
    "C13": [("r1cs", "r1cs.d6"), ("r1cs", "r1cs.lazy"), ("r1cs", "r1cs.unforced")], "C14": [("r1cs", "r1cs.hints"), ("r1cs", "r1cs.alloc"), ("r1cs", "r1cs.unforced")], "C16": [("ark", "bls")],
}
for _p, _l in PROBES.items():
    if _p in PROPS:
        PROPS[_p]["probes"] = _l

WATCH = {
    "C02": {"src/ark_curve/serialize.rs": [("ark", "curve.decode")], "src/fields/fq/arkworks.rs": [("ark", "field.fq"), ("ark", "curve.decode")]},
    "C03": {"src/ark_curve/serialize.rs": [("ark", "curve.encode")]},
    "C05": {"src/ark_curve/element/projective.rs": [("ark", "curve.mul")], "src/ark_curve/element.rs": [("ark", "curve.mul")]},
    "C06": {"src/ark_curve/element.rs": [("ark", "curve.ctor")], "src/ark_curve/rand.rs": [("ark", "curve.ctor")], "src/ark_curve/edwards.rs": [("ark", "curve.ctor")],
            "src/ark_curve/serialize.rs": [("ark", "curve.ctor"), ("ark", "curve.decode")]},
    "C09": {"src/ark_curve/invsqrt.rs": [("ark", "curve.sqrt")], "src/min_curve/invsqrt.rs": [("min", "min.all")], "src/fields/fq/arkworks.rs": [("ark", "curve.sqrt")]},
    "C10": {f"src/fields/{f}/u32/wrapper.rs": [("min", f"field.{f}")] for f in ("fq", "fr", "fp")},
    "C11": dict([(f"src/fields/{f}.rs", [("ark", f"field.{f}"), ("min", f"field.{f}")]) for f in ("fq", "fr", "fp")] +
                [(f"src/fields/{f}/arkworks.rs", [("ark", f"field.{f}")]) for f in ("fq", "fr", "fp")] +
                [(f"src/fields/{f}/u32/wrapper.rs", [("min", f"field.{f}")]) for f in ("fq", "fr", "fp")]),
    "C12": dict([(f"src/fields/{f}/u32/wrapper.rs", [("min", f"field.{f}")]) for f in ("fq", "fr", "fp")] +
                [(f"src/fields/{f}/u32/fiat.rs", [("min", f"field.{f}")]) for f in ("fq", "fr", "fp")]),
    "C13": {"src/ark_curve/r1cs/inner.rs": [("r1cs", "r1cs.d6"), ("r1cs", "r1cs.lazy")], "src/ark_curve/r1cs/element.rs": [("r1cs", "r1cs.lazy"), ("r1cs", "r1cs.unforced")],
            "src/ark_curve/r1cs/lazy.rs": [("r1cs", "r1cs.lazy"), ("r1cs", "r1cs.unforced")], "src/ark_curve/r1cs/ops.rs": [("r1cs", "r1cs.lazy")],
            "src/ark_curve/r1cs/fqvar_ext.rs": [("r1cs", "r1cs.unforced")]},
    "C14": {"src/ark_curve/r1cs/inner.rs": [("r1cs", "r1cs.hints"), ("r1cs", "r1cs.alloc")], "src/ark_curve/r1cs/element.rs": [("r1cs", "r1cs.alloc"), ("r1cs", "r1cs.unforced")],
            "src/ark_curve/r1cs/lazy.rs": [("r1cs", "r1cs.unforced")], "src/ark_curve/r1cs/fqvar_ext.rs": [("r1cs", "r1cs.unforced")]},
}
for _p, _w in WATCH.items():
    if _p in PROPS:
        PROPS[_p]["watch"] = _w


def _auto_watch():
    """every source file the units of a property extract functions from is watched as well: contracts cover functions, not
    files, and a change to an uncontracted neighbour (seeded C02_c: `read` for `read_exact` in a deserialiser next to the
    decoder) must still run the bounded probes of that file.  Resolved lazily because it loads the unit descriptions."""
    from vx import replay as _r
    import units as _u
    for pid, spec in PROPS.items():
        files = set()
        for un in spec["units"]:
            try:
                unit = _u.load(un)
            except Exception:
                continue
            for it in unit.items:
                if it.file and it.file.startswith("src/") and it.mode == "verify":
                    files.add(it.file)
        w = dict(spec.get("watch", {}))
        for f in sorted(files):
            pr = _r.probes_for(f, None, "", pid)
            if pr:
                w.setdefault(f, pr)
        spec["watch"] = w


_AUTO_DONE = []


def ensure_auto_watch():
    if not _AUTO_DONE:
        _AUTO_DONE.append(1)
        _auto_watch()

NOT_APPLICABLE = {
    "C15": "circuit shape / pinned Groth16 keys: the subject is the hidden ark_relations constraint store and binary key files; no pre/postcondition on a /repo function can state matrix equality across runs or SNARK verification (DESIGN.md C15)",
}
FIX_NOTE = "f4c29b3 7a29832 e58bcf9 db08dd6 b6643e6 5514f4e 35a968d dc3044d 8bf0bfb"
