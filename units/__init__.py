"""Unit registry: name -> (module, argument)."""
import importlib

REGISTRY = {}
for _f in ("fq", "fr", "fp"):
    REGISTRY[f"ops_{_f}"] = ("ops", _f)
    REGISTRY[f"wrap64_{_f}"] = ("wrap64", _f)
    REGISTRY[f"fieldx_{_f}"] = ("fieldx", _f)
    REGISTRY[f"wrap32_{_f}"] = ("wrap32", _f)

_CACHE = {}


def load(name):
    if name not in _CACHE:
        mod, arg = REGISTRY[name]
        m = importlib.import_module("units." + mod)
        _CACHE[name] = m.unit(arg) if arg is not None else m.unit()
    return _CACHE[name]
REGISTRY["ark_encoding"] = ("arkcurve", "encoding")
REGISTRY["ark_ops"] = ("arkcurve", "ops")
REGISTRY["ark_element"] = ("arkcurve", "element")
REGISTRY["ark_elligator"] = ("arkcurve", "elligator")
REGISTRY["min_element"] = ("mincurve", "element")
REGISTRY["consts"] = ("consts", None)
REGISTRY["r1cs_sound"] = ("r1cs", "sound")
REGISTRY["r1cs_compl"] = ("r1cs", "compl")
REGISTRY["min_invsqrt"] = ("mincurve", "invsqrt")
REGISTRY["bls_consts"] = ("blsconsts", None)
REGISTRY["ark_invsqrt"] = ("arksqrt", None)
for _m in ("sound", "compl"):
    REGISTRY[f"r1cs_fwd_{_m}"] = ("r1csouter", f"fwd_{_m}")
    REGISTRY[f"r1cs_outer_{_m}"] = ("r1csouter", f"outer_{_m}")
