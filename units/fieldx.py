"""U(fieldx_<f>): the shared (non-wrapper) field code: src/fields/<f>.rs and src/fields/<f>/arkworks.rs
(checked parsing, bigint conversions, Zero/One, Ord/Hash ...) over the abstract field (C11, C02 dependencies, C10)."""
import dataclasses
import re
from vx.extract import Fn, Item, Unit, src
from .fieldc import field_params, FIELDS
from . import ops as opsmod

R12 = "#[verifier::exec_allows_no_decreases_clause]"


def unit(f):
    fp = dict(field_params(f))
    F = fp["F"]
    P = f"{f}_p()"
    n64, n8 = fp["N64"], fp["N8"]
    stubs, lem = opsmod.stub_items(f)
    items = list(stubs)
    main = f"src/fields/{f}.rs"
    ark = f"src/fields/{f}/arkworks.rs"
    bu = f"broadcast use {f}_abs, lemma_bytes_val_bound, lemma_limbs_val_bound;"
    I = lambda path, hdr, fn, **kw: items.append(Item(path, hdr, [fn], **kw))
    # ---- src/fields/<f>.rs
    I(main, f"impl {F}", Fn("MODULUS_LIMBS", as_const=True, props=("C11", "C17", "C02"),
                            ensures=f"limbs_val({F}::MODULUS_LIMBS@) == {P}, {F}::MODULUS_LIMBS@.len() == {n64}",
                            preamble=f"reveal_with_fuel(limbs_val, {n64 + 2});"))
    I(main, f"impl {F}", Fn("from_bytes_checked", props=("C11", "C02", "C01"),
                            ensures=f"""match r {{ Ok(v) => bytes_val(bytes@) < {P} && v.val() == bytes_val(bytes@),
                                       Err(e) => bytes_val(bytes@) >= {P} && e == EncodingError::InvalidEncoding }}""",
                            preamble=bu + " broadcast use lemma_bytes_inj;",
                            subst=[("R6", r'\s*==\s*\*bytes\b', '.arr_eq(bytes)'),
                                   ("R6", r'(?<![\w.)])((?:\w+\.)*\w+\(\))\s*!=\s*\*bytes\b', r'!\1.arr_eq(bytes)')]))
    I(main, f"impl {F}", Fn("to_bytes", ensures="bytes_val(r@) == self.val()", props=("C11",), preamble=bu))
    # reduction of byte strings of ANY length (Horner over N_8-byte chunks, last chunk first); R25 desugars the chain
    W_ = pow(2, 8 * n8, fp["P"])
    I(main, f"impl {F}", Fn(
        "from_le_bytes_mod_order", props=("C11", "C07"),
        ensures=f"r.val() == bytes_val(bytes@) % {P}",
        preamble=bu + f" broadcast use lemma_pad_zero, lemma_chunks_cover; proof {{ lemma_pw256_n8(); }}",
        subst=[("R6", r'(\w+)\[\s*\.\.\s*(\w+)\.len\(\)\s*\]\.copy_from_slice\(\s*\2\s*\)', r'copy_prefix(&mut \1, \2)')],
        loops={0: f"""invariant chunk_n_ == {n8}, src_@ == bytes@, 0 <= k_ as int <= chunks_len_spec(src_@.len() as int, {n8}),
                        acc_.val() == bytes_val(src_@.subrange(imin(k_ as int * {n8}, src_@.len() as int), src_@.len() as int)) % {P},
                    decreases k_"""},
        loops_begin={0: f"broadcast use {f}_abs, lemma_pad_zero, lemma_bytes_val_bound;"},
        loops_end={0: f"lemma_pw256_n8(); lemma_chunk_step({P}, src_@, {n8}, k_ as int, acc0_.val(), xm_.val(), acc_.val(), {W_}int);"},
        before_tail="assert(src_@.subrange(0, src_@.len() as int) =~= src_@);"))
    if f == "fq":
        S_ = "exp.as_ref_spec()@"
        J_ = "(it.index@ as int)"
        X_ = "self.val()"
        I(main, f"impl {F}", Fn(
            "power", props=("C10",),
            ensures=f"r.val() == mpow({P}, {X_}, limbs_val({S_}) as nat)",
            preamble=bu + f" proof {{ assert({S_}.take(0).len() == 0); lemma_p2_pos(0); reveal_with_fuel(mpow, 2); }}",
            ghost_iter={0: "it"},
            subst=[("R4", r'\blimb\s*>>', '*limb >>')],
            loops={0: f"""invariant res.val() == mpow({P}, {X_}, limbs_val({S_}.take({J_})) as nat),
                            insert.val() == mpow({P}, {X_}, p2((64 * it.index@) as nat) as nat)""",
                   1: f"""invariant 0 <= {J_} < {S_}.len(), *limb == {S_}[{J_}], 0 <= i <= 64,
                            res.val() == mpow({P}, {X_}, prefix_val({S_}, {J_}, i as u64) as nat),
                            insert.val() == mpow({P}, {X_}, (p2((64 * it.index@) as nat) * p2(i as nat)) as nat)"""},
            loops_begin={0: f"proof {{ lemma_prefix_0({S_}, {J_}); }}",
                         1: f"broadcast use {f}_abs; let ghost res0 = res; let ghost ins0 = insert; let ghost k_ = i as u64; let ghost x_ = *limb; assert(((x_ >> k_) & 1) <= 1) by(bit_vector);"},
            loops_end={0: f"lemma_prefix_64({S_}, {J_});",
                       1: f"""lemma_prefix_step({S_}, {J_}, i as u64);
                    let e0 = prefix_val({S_}, {J_}, i as u64);
                    let w = p2((64 * it.index@) as nat) * p2(i as nat);
                    lemma_mpow_add({P}, {X_}, e0 as nat, w as nat);
                    lemma_mpow_add({P}, {X_}, w as nat, w as nat);
                    assert((((*limb >> i) & 1) as int) * w == (if ((*limb >> i) & 1) == 1 {{ w }} else {{ 0 }})) by(nonlinear_arith)
                        requires ((*limb >> i) & 1) == 0 || ((*limb >> i) & 1) == 1;"""},
            before_tail=f"assert({S_}.take({S_}.len() as int) =~= {S_});"))
    # ---- src/fields/<f>/arkworks.rs, trait impls checked as inherent impls (R7b)
    hp = f"impl PrimeField for {F}"
    I(ark, hp, Fn("MODULUS", as_const=True, props=("C11", "C02", "C17"), ensures=f"limbs_val({F}::MODULUS.0@) == {P}"), header_out=f"impl {F}")
    I(ark, hp, Fn("from_bigint", props=("C11", "C02", "C01"), preamble=bu,
                  ensures=f"match r {{ Some(v) => limbs_val(repr.0@) < {P} && v.val() == limbs_val(repr.0@), None => limbs_val(repr.0@) >= {P} }}"),
      header_out=f"impl {F}")
    I(ark, hp, Fn("into_bigint", props=("C11",), preamble=bu, ensures="limbs_val(r.0@) == self.val()"), header_out=f"impl {F}")
    I(ark, hp, Fn("from_be_bytes_mod_order", props=("C11",), preamble=bu, ensures=f"r.val() == bytes_val_be(bytes@) % {P}",
                  subst=[("R6", r'from_le_bytes_mod_order\(&(\w+)\)', r'from_le_bytes_mod_order(\1.as_slice())')]),
      header_out=f"impl {F}")
    hz = f"impl Zero for {F}"
    I(ark, hz, Fn("zero", ensures="r.val() == 0", props=("C10", "C11"), preamble=bu), header_out=f"impl {F}")
    I(ark, hz, Fn("is_zero", ensures="r == (self.val() == 0)", props=("C10", "C11"), preamble=bu), header_out=f"impl {F}")
    ho = f"impl One for {F}"
    I(ark, ho, Fn("one", ensures="r.val() == 1", props=("C10", "C11"), preamble=bu), header_out=f"impl {F}")
    I(ark, ho, Fn("is_one", ensures="r == (self.val() == 1)", props=("C10", "C11"), preamble=bu), header_out=f"impl {F}")
    hf = f"impl Field for {F}"
    I(ark, hf, Fn("double", ensures=f"r.val() == madd({P}, self.val(), self.val())", props=("C10",), preamble=bu), header_out=f"impl {F}",
      )
    # ---- the flag-carrying stream format (C11: "serialisation with flag bits round-trips value and flags"; C02 dependency):
    # serialize_with_flags writes ser_bytes(value, flags), deserialize_with_flags returns deser_spec of what it reads; the
    # round trip is lemma_flags_roundtrip (preludes/ark_serialize.rs) over these two contracts.  R31: the stream parameters,
    # taken by value in the source (`mut reader: R`, `mut writer: W`), are taken by `&mut`: the by-value function is
    # f(mut r: R) = g(&mut r) with g the text verified here, and only g's contract can speak about the stream afterwards.
    MB = fp["P"].bit_length()
    R31 = [("R31", r'\b(?:mut\s+)?reader\s*:\s*R\b', 'reader: &mut R'), ("R31", r'\b(?:mut\s+)?writer\s*:\s*W\b', 'writer: &mut W')]
    EOK = lambda t, e: f"r == Err::<{t}, SerializationError>(SerializationError::{e})"
    I(main, f"impl {F}", Fn("MODULUS_BIT_SIZE", as_const=True, props=("C11", "C17"), ensures=f"{F}::MODULUS_BIT_SIZE == {MB}"))
    hd = f"impl CanonicalDeserializeWithFlags for {F}"
    I(ark, hd, Fn("deserialize_with_flags", props=("C11", "C02"), preamble=bu,
                  subst=R31 + [("R27", r'(let out = Self::from_bigint\()', rf"""proof {{ lemma_limbs_bytes(limbs@, bytes@.subrange(0, {n8}));
                      let sz_ = ser_size::<F>({MB}); let rd_ = old(reader).rest().take(sz_);
                      assert(bytes@.subrange(0, {n8}) =~= rd_.update(sz_ - 1, rd_[sz_ - 1] & !flags.mask()).take({n8})); }} \1""")],
                  ensures=f"deser_post::<F>(r, old(reader).rest(), final(reader).rest(), {MB}, {n8}, {P})",
                  loops={0: f"""invariant n_ == {n64}, src_@.len() == {n8}, i_ <= n_, limbs@.len() == {n64},
                                  forall|j: int| 0 <= j < i_ ==> limbs@[j] as int == #[trigger] le8_at(src_@, 8 * j),
                              decreases n_ - i_"""},
                  ),
      header_out=f"impl {F}")
    I(ark, f"impl Valid for {F}", Fn("check", props=("C11",), ensures="r is Ok"), header_out=f"impl {F}")
    I(ark, f"impl CanonicalDeserialize for {F}", Fn(
        "deserialize_with_mode", props=("C11", "C02"), subst=R31,
        preamble=bu + f""" proof {{ let s0_ = reader.rest(); if s0_.len() >= {n8} {{ let s_ = s0_.take({n8}); let b_ = s_[{n8} - 1];
                      assert(b_ & !0u8 == b_) by(bit_vector); assert(s_.update({n8} - 1, s_[{n8} - 1] & !0u8).take({n8}) =~= s_); }} }}""",
        ensures=f"""({{ let s0 = old(reader).rest();
            if s0.len() < {n8} {{ {EOK(F, 'IoError')} }}
            else if bytes_val(s0.take({n8})) >= {P} {{ {EOK(F, 'InvalidData')} && final(reader).rest() == s0.skip({n8}) }}
            else {{ r is Ok && r.unwrap().val() == bytes_val(s0.take({n8})) && final(reader).rest() == s0.skip({n8}) }} }})"""),
      header_out=f"impl {F}")
    hs = f"impl CanonicalSerializeWithFlags for {F}"
    I(ark, hs, Fn("serialized_size_with_flags", props=("C11",),
                  requires=f"{MB} + F::BIT_SIZE as int + 7 <= usize::MAX",
                  ensures=f"r as int == ser_size::<F>({MB})"), header_out=f"impl {F}")
    I(ark, hs, Fn("serialize_with_flags", props=("C11", "C03"),
                  preamble=bu + " broadcast use concat_lemmas;",
                  subst=R31 + [("R27", r'(let mut bytes = self\.to_bytes_le\(\);)', r'\1 proof { lemma_le_bytes(bytes@); }')],
                  ensures=f"ser_post::<F>(r, old(writer).out(), final(writer).out(), self.val(), flags, {MB}, {n8})"),
      header_out=f"impl {F}")
    hc = f"impl CanonicalSerialize for {F}"
    I(ark, hc, Fn("serialize_with_mode", props=("C11", "C03"), subst=R31,
                  preamble=f"""proof {{ broadcast use {f}_abs; assert(pw256({n8}) > {P}) by(compute_only); lemma_le_bytes_val(self.val(), {n8}); let tb_ = le_bytes(self.val(), {n8}); let b_ = tb_[{n8} - 1];
                      assert(b_ | 0u8 == b_) by(bit_vector); assert(tb_.update({n8} - 1, tb_[{n8} - 1] | 0u8) =~= tb_); }}""",
                  ensures=f"match r {{ Ok(_) => final(writer).out() == old(writer).out() + le_bytes(self.val(), {n8}), Err(e) => e == SerializationError::IoError }}"),
      header_out=f"impl {F}")
    I(ark, hc, Fn("serialized_size", props=("C11",), ensures=f"r == {n8}"), header_out=f"impl {F}")
    # ---- decimal strings: FromStr accepts exactly the strings of decimal digits (the empty one included) and returns their
    # value modulo p (Horner loop invariant after R33)
    # the two locals the invariant speaks about are found by what they are initialised with, whatever they are called
    try:
        _fs = src(ark).find_fn(f"impl FromStr for {F}", "from_str")[1].text
    except Exception:
        _fs = ""
    _m = re.search(r'let\s+mut\s+(\w+)\s*=\s*Self::zero\(\)', _fs)
    acc_n = _m.group(1) if _m else "acc"
    _m = re.search(r'let\s+(\w+)\s*=\s*Self::from\(10u8\)', _fs)
    ten_n = _m.group(1) if _m else "ten"
    I(ark, f"impl FromStr for {F}", Fn(
        "from_str", props=("C11",), preamble=bu + " proof { assert(s@.take(0) =~= Seq::<char>::empty()); }",
        subst=[("R7", r'\bSelf::Err\b', '()'), ("R2", r'\bark_std::dbg!\([^;]*\);', '')],      # a debug print (stderr) is dropped
        ensures=f"match r {{ Ok(v) => all_digits(s@) && v.val() == dec_val(s@) % {P}, Err(_) => !all_digits(s@) }}",
        loops={0: f"""invariant cs_@ == s@, i_ <= cs_.len(), {ten_n}.val() == 10, forall|j: int| 0 <= j < i_ ==> is_digit(#[trigger] cs_@[j]),
                        {acc_n}.val() == dec_val(cs_@.take(i_ as int)) % {P},
                    decreases cs_.len() - i_"""},
        loops_begin={0: f"broadcast use {f}_abs; let ghost acc0_ = {acc_n};"},
        loops_end={0: f"""lemma_dec_step({P}, cs_@, (i_ - 1) as int, acc0_.val(), mmul({P}, 10, acc0_.val()), (cs_@[(i_ - 1) as int] as int - '0' as int) % {P}, {acc_n}.val());"""},
        before_tail="assert(s@.take(s@.len() as int) =~= s@);"), header_out=f"impl {F}")
    # ---- Ord / PartialOrd / Hash of src/fields/<f>/ops.rs: integer ordering, hashing of the canonical bytes (C11)
    opsf = f"src/fields/{f}/ops.rs"
    I(opsf, f"impl Ord for {F}", Fn("cmp", props=("C11",), preamble=bu,
                                   ensures="r == int_cmp(self.val(), other.val())",
                                   subst=[("R27", r'(let mut right = [^;]*;)', r'\1 let ghost l0_ = left@; let ghost r0_ = right@;'),
                                          ("R6", r'(\w+)\.reverse\(\);', r'arr_rev(&mut \1);'), ("R6", r'(\w+)\.cmp\(&(\w+)\)', r'limbs_cmp(&\1, &\2)')],
                                   before_tail="lemma_lex_is_int(l0_, r0_);"), header_out=f"impl {F}")
    I(opsf, f"impl PartialOrd for {F}", Fn("partial_cmp", props=("C11",), preamble=bu, ensures="r == Some(int_cmp(self.val(), other.val()))"), header_out=f"impl {F}")
    I(opsf, f"impl Hash for {F}", Fn("hash", props=("C11",), preamble=bu + " let ghost w0_ = state.written(); let ghost mut tbs_: Seq<u8> = Seq::empty();",
                                    subst=[("R20", r'state\.write\(&self\.to_bytes_le\(\)\)', r'{ let tb_ = self.to_bytes_le(); proof { tbs_ = tb_@; } state.write(&tb_) }')],
                                    epilogue=f"assert(state.written() == w0_ + tbs_); assert(state.written().subrange(0, w0_.len() as int) =~= w0_); assert(state.written().subrange(w0_.len() as int, (w0_.len() + {n8}) as int) =~= tbs_);",
                                    ensures=f"final(state).written().len() == old(state).written().len() + {n8}, final(state).written().subrange(0, old(state).written().len() as int) == old(state).written(), bytes_val(final(state).written().subrange(old(state).written().len() as int, (old(state).written().len() + {n8}) as int)) == self.val()"),
      header_out=f"impl {F}")
    u = Unit(name=f"fieldx_{f}",
             preludes=[("common.rs", None), ("field_consts.rs", dict(NW=fp["N64"])), ("field_abs.rs", None), ("std_standins.rs", None),
                       ("le_lemmas.rs", None), ("ark_bigint.rs", None), ("ladder_lemmas.rs", None), ("pow_lemmas.rs", None), ("chunk_lemmas.rs", None), ("ord_lemmas.rs", None),
                       ("ark_serialize.rs", dict(MB=fp["P"].bit_length(), TOP=1 << (fp["P"].bit_length() - 8 * (fp["N8"] - 1)), PWTOP=hex(256 ** (fp["N8"] - 1))))],
             items=items, lemmas=lem + FX_LEMMAS + f"""
pub proof fn lemma_pw256_n8() ensures pw256({n8}) % {P} == {W_}int {{ assert(pw256({n8}) % {fp["P"]}int == {W_}int) by(compute_only); }}
""", params=fp,
             global_subst=[("R7", r'\bark_ff::BigInt\(', 'BigInt('), ("R7", r'\bSelf::BigInt\b', 'BigInt'), ("R7", r'\bcore::hash::Hasher\b', 'Hasher'),
                           ("R7", r'\bark_std::io::(Read|Write)\b', r'\1')])
    u.raw = [("src/error.rs", "enum", "EncodingError")]
    u.ufcs_fns = ("power",)
    return u


FX_LEMMAS = r"""
// little-endian value is injective on byte strings of equal length
pub proof fn lemma_bytes_inj_rec(a: Seq<u8>, b: Seq<u8>)
    requires a.len() == b.len(), bytes_val(a) == bytes_val(b)
    ensures a =~= b
    decreases a.len()
{
    if a.len() > 0 {
        lemma_bytes_val_bound(a.drop_first());
        lemma_bytes_val_bound(b.drop_first());
        assert(bytes_val(a) == a[0] as int + 256 * bytes_val(a.drop_first()));
        assert(bytes_val(b) == b[0] as int + 256 * bytes_val(b.drop_first()));
        assert(a[0] == b[0] && bytes_val(a.drop_first()) == bytes_val(b.drop_first())) by(nonlinear_arith)
            requires a[0] as int + 256 * bytes_val(a.drop_first()) == b[0] as int + 256 * bytes_val(b.drop_first()),
                     0 <= a[0] < 256, 0 <= b[0] < 256, bytes_val(a.drop_first()) >= 0, bytes_val(b.drop_first()) >= 0;
        lemma_bytes_inj_rec(a.drop_first(), b.drop_first());
        assert(a =~= seq![a[0]] + a.drop_first());
        assert(b =~= seq![b[0]] + b.drop_first());
    }
}
pub broadcast proof fn lemma_bytes_inj(a: Seq<u8>, b: Seq<u8>)
    requires a.len() == b.len(), #[trigger] bytes_val(a) == #[trigger] bytes_val(b)
    ensures a == b
{ lemma_bytes_inj_rec(a, b); }
"""
