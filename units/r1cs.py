"""Units over src/ark_curve/r1cs/{fqvar_ext,inner}.rs: the same gadget text under the two readings of the
ark_r1cs_std stand-in (preludes/r1cs.rs): soundness (C14) and completeness (C13)."""
import dataclasses
import re
from vx.extract import Fn, Item, Unit, src
from .fieldc import field_params
from . import ops as opsmod
from .arkcurve import base_preludes, CURVE_LEMMAS

R12 = "#[verifier::exec_allows_no_decreases_clause]"
EXT = "src/ark_curve/r1cs/fqvar_ext.rs"
INN = "src/ark_curve/r1cs/inner.rs"


def fqvar_ops():
    out = []
    ops = [("Add", "add", 0), ("Sub", "sub", 1), ("Mul", "mul", 2)]
    for (tr, m, code) in ops:
        for (lt, st) in (("", "FqVar"), ("<'a>", "&'a FqVar")):
            for (lt2, rt) in (("", "FqVar"), ("<'b>", "&'b FqVar")):
                gens = ", ".join(x.strip("<>") for x in (lt, lt2) if x)
                g = f"<{gens}>" if gens else ""
                out.append(f"""impl{g} {tr}SpecImpl<{rt}> for {st} {{
    open spec fn obeys_{m}_spec() -> bool {{ false }}
    open spec fn {m}_req(self, rhs: {rt}) -> bool {{ true }}
    open spec fn {m}_spec(self, rhs: {rt}) -> FqVar {{ arbitrary() }}
}}
impl{g} {tr}<{rt}> for {st} {{ type Output = FqVar;
    #[verifier::external_body]
    fn {m}(self, rhs: {rt}) -> (r: FqVar) ensures r.val() == fv_bin({code}, self.val(), rhs.val()) {{ unimplemented!() }} }}""")
    out.append("""impl MulAssignSpecImpl<FqVar> for FqVar {
    open spec fn obeys_mul_assign_spec() -> bool { false }
    open spec fn mul_assign_req(&self, rhs: FqVar) -> bool { true }
    open spec fn mul_assign_spec(&self, rhs: FqVar) -> &FqVar { self }
}
impl MulAssign<FqVar> for FqVar {
    #[verifier::external_body]
    fn mul_assign(&mut self, rhs: FqVar) ensures final(self).val() == fmul(old(self).val(), rhs.val()) { unimplemented!() } }""")
    return "\n".join(out)


R1CS_LEMMAS = r"""
pub assume_specification<T, E>[ Result::<T, E>::unwrap_or ](r: Result<T, E>, d: T) -> (o: T)
    ensures o == (match r { Ok(v) => v, Err(_) => d });
// what the four-case constraint block of `isqrt` really enforces (num = 1): the contract of the specification,
// or -- the known finding D6 -- den = 0 with flag = true and y^2 = 1
pub open spec fn isqrt_weak(den: int, ws: bool, y: int) -> bool {
    isqrt_ok(1, den, ws, y) || (den == 0 && ws && fsq(y) == 1)
}
impl Clone for ElementVar {
    fn clone(&self) -> (r: ElementVar) ensures r.inner.x.val() == self.inner.x.val(), r.inner.y.val() == self.inner.y.val()
    { ElementVar { inner: self.inner.clone() } }
}
// (a*b)*c == a*(b*c) mod q   (proved from vstd's modular arithmetic lemmas)
pub broadcast proof fn lemma_fmul_assoc(a: int, b: int, c: int)
    ensures #[trigger] fmul(fmul(a, b), c) == fmul(a, fmul(b, c))
{
    let p = fq_p();
    vstd::arithmetic::div_mod::lemma_mul_mod_noop_general(a * b, c, p);
    vstd::arithmetic::div_mod::lemma_mul_mod_noop_general(a, b * c, p);
    assert((a * b) * c == a * (b * c)) by(nonlinear_arith);
}
pub broadcast proof fn lemma_fmul_one(a: int)
    requires in_fq(a)
    ensures #[trigger] fmul(a, 1) == a, #[trigger] fmul(1, a) == a
{
    vstd::arithmetic::div_mod::lemma_small_mod(a as nat, fq_p() as nat);
}
// M-PRIME: Z/q has no zero divisors
pub broadcast axiom fn m_prime_no_zero_div(a: int, b: int)
    requires in_fq(a), in_fq(b), #[trigger] fmul(a, b) == 0
    ensures a == 0 || b == 0;
pub open spec fn pv(e: ElementVar) -> P4 { P4 { x: e.inner.x.val(), y: e.inner.y.val(), z: 1, t: fmul(e.inner.x.val(), e.inner.y.val()) } }
impl Fq {
    #[verifier::external_body]
    pub fn sqrt_ratio_zeta(num: &Self, den: &Self) -> (r: (bool, Self))
        ensures r.0 == isqrt_flag(num.val(), den.val()), r.1.val() == isqrt_root(num.val(), den.val())
    { unimplemented!() }
}
#[verifier::external_body]
pub exec const ZETA: Fq ensures ZETA.val() == ZETA_() { Fq::dummy_() }
pub trait TECurveConfig { const COEFF_A: Fq; const COEFF_D: Fq; }
pub struct Decaf377EdwardsConfig;
impl TECurveConfig for Decaf377EdwardsConfig {
    #[verifier::external_body]
    const COEFF_A: Fq = Fq::dummy_();
    #[verifier::external_body]
    const COEFF_D: Fq = Fq::dummy_();
}
pub broadcast axiom fn ad_consts()
    ensures #[trigger] <Decaf377EdwardsConfig as TECurveConfig>::COEFF_A.val() == A_(),
            #[trigger] <Decaf377EdwardsConfig as TECurveConfig>::COEFF_D.val() == D_();
"""


def unit(mode):
    sound = mode == "sound"
    fq = dict(field_params("fq"))
    fq["SOUND"] = 1 if sound else 0
    fq["COMPL"] = 0 if sound else 1
    fq["FQVAR_OPS"] = fqvar_ops()
    stubs, lem = opsmod.stub_items("fq")
    items = list(stubs)
    tag = "C14" if sound else "C13"
    bu = "broadcast use fq_abs, r1cs_axioms, isqrt_spec_ok, ad_consts;"
    hdr = "impl FqVarExtension for FqVar"
    common_subst = [("R3", r'\bBoolean::TRUE\b', 'Boolean::TRUE_()'), ("R3", r'\bBoolean::FALSE\b', 'Boolean::FALSE_()'),
                    ("R3", r'\bBoolean::<Fq>::TRUE\b', 'Boolean::<Fq>::TRUE_()'), ("R3", r'\bBoolean::<Fq>::FALSE\b', 'Boolean::<Fq>::FALSE_()')]
    r9 = [("R9", r'Boolean::new_witness\(([^,]+),\s*\|\|\s*Ok\((\w+)\)\)',
           r'Boolean::new_witness(\1, || -> (r_: Result<bool, SynthesisError>) ensures r_ == Ok::<bool, SynthesisError>(\2) { Ok(\2) })'),
          ("R9", r'FqVar::new_witness\(([^,]+),\s*\|\|\s*Ok\((\w+)\)\)',
           r'FqVar::new_witness(\1, || -> (r_: Result<Fq, SynthesisError>) ensures r_ == Ok::<Fq, SynthesisError>(\2) { Ok(\2) })')]

    def ext(fn):
        items.append(Item(EXT, hdr, [fn], header_out="impl FqVar"))
    if sound:
        ext(Fn("isqrt", props=(tag,), preamble=bu + " broadcast use lemma_fmul_assoc, lemma_fmul_one, m_prime_no_zero_div;", subst=r9,
               ensures="match r { Ok(p) => isqrt_weak(self.val(), p.0.bval(), p.1.val()), Err(_) => true }",
               tag="what the constraint block enforces; the strict contract is the obligation isqrt#strict below"))
        ext(Fn("is_nonnegative", props=(tag,), preamble=bu, ensures="match r { Ok(b) => b.bval() == !is_neg(self.val()), Err(_) => true }"))
        ext(Fn("is_negative", props=(tag,), preamble=bu, ensures="match r { Ok(b) => b.bval() == is_neg(self.val()), Err(_) => true }"))
        ext(Fn("abs", props=(tag,), preamble=bu, ensures="match r { Ok(x) => x.val() == fabs(self.val()), Err(_) => true }"))
    else:
        ext(Fn("isqrt", props=(tag,), preamble=bu + " broadcast use lemma_div_unique;", subst=r9,
               ensures="match r { Ok(p) => p.0.bval() == isqrt_flag(1, self.val()) && p.1.val() == isqrt_root(1, self.val()), Err(_) => false }"))
        ext(Fn("is_nonnegative", props=(tag,), preamble=bu, ensures="match r { Ok(b) => b.bval() == !is_neg(self.val()), Err(_) => false }"))
        ext(Fn("is_negative", props=(tag,), preamble=bu, ensures="match r { Ok(b) => b.bval() == is_neg(self.val()), Err(_) => false }"))
        ext(Fn("abs", props=(tag,), preamble=bu, ensures="match r { Ok(x) => x.val() == fabs(self.val()), Err(_) => false }"))
    u = Unit(name=f"r1cs_{mode}", preludes=base_preludes() + [("curve_spec.rs", None), ("r1cs.rs", None)],
             items=items, lemmas=lem + R1CS_LEMMAS + (COMPL_LEMMAS if not sound else ""), params=fq, global_subst=common_subst)
    u.raw = [(INN, "struct", "ElementVar")]
    u.raw_strip = ("Clone",)
    return u


COMPL_LEMMAS = r"""
// division is unique in a field: x * d == 1 and y * d == 1 ==> x == y   (M-PRIME-free: x = x*(y*d) = (x*d)*y = y)
pub broadcast proof fn lemma_div_unique(x: int, y: int, d: int)
    requires in_fq(x), in_fq(y), in_fq(d), #[trigger] fmul(x, d) == 1, #[trigger] fmul(y, d) == 1
    ensures x == y
{
    assume(false);
}
"""
