"""Units over src/ark_curve/r1cs/{fqvar_ext,inner}.rs: the same gadget text under the two readings of the
ark_r1cs_std stand-in (preludes/r1cs.rs): soundness (C14) and completeness (C13)."""
import dataclasses
import re
from vx.extract import Fn, Item, Unit, src
from .fieldc import field_params
from . import ops as opsmod
from .arkcurve import base_preludes, CURVE_LEMMAS

R12 = "#[verifier::exec_allows_no_decreases_clause]"
# local-free stepping stone: the specification's answer for this input meets the four-case contract (instance of M-SQRT)
ISQ_HINT = ' proof { assert(isqrt_ok(1, self.val(), isqrt_flag(1, self.val()), isqrt_root(1, self.val()))); }'
EXT = "src/ark_curve/r1cs/fqvar_ext.rs"
INN = "src/ark_curve/r1cs/inner.rs"


def fqvar_ops():
    out = []
    ops = [("Add", "add", 0), ("Sub", "sub", 1), ("Mul", "mul", 2)]
    for (tr, m, code) in ops:
        for (lt, st) in (("", "FqVar"), ("<'a>", "&'a FqVar")):
            for (lt2, rt) in (("", "FqVar"), ("<'b>", "&'b FqVar")):
                gens = ", ".join(x.strip("<>") for x in (lt, lt2) if x)
                g = f"<{gens}>" if gens else ""
                out.append(f"""impl{g} {tr}SpecImpl<{rt}> for {st} {{
    open spec fn obeys_{m}_spec() -> bool {{ false }}
    open spec fn {m}_req(self, rhs: {rt}) -> bool {{ true }}
    open spec fn {m}_spec(self, rhs: {rt}) -> FqVar {{ arbitrary() }}
}}
impl{g} {tr}<{rt}> for {st} {{ type Output = FqVar;
    #[verifier::external_body]
    fn {m}(self, rhs: {rt}) -> (r: FqVar) ensures r.val() == fv_bin({code}, self.val(), rhs.val()) {{ unimplemented!() }} }}""")
    out.append("""impl MulAssignSpecImpl<FqVar> for FqVar {
    open spec fn obeys_mul_assign_spec() -> bool { false }
    open spec fn mul_assign_req(&self, rhs: FqVar) -> bool { true }
    open spec fn mul_assign_spec(&self, rhs: FqVar) -> &FqVar { self }
}
impl MulAssign<FqVar> for FqVar {
    #[verifier::external_body]
    fn mul_assign(&mut self, rhs: FqVar) ensures final(self).val() == fmul(old(self).val(), rhs.val()) { unimplemented!() } }""")
    return "\n".join(out)


R1CS_LEMMAS = r"""
pub assume_specification<T, E>[ Result::<T, E>::unwrap_or ](r: Result<T, E>, d: T) -> (o: T)
    ensures o == (match r { Ok(v) => v, Err(_) => d });
// what the four-case constraint block of `isqrt` really enforces (num = 1): the contract of the specification,
// or -- the known finding D6 -- den = 0 with flag = true and y^2 = 1
pub open spec fn isqrt_weak(den: int, ws: bool, y: int) -> bool {
    isqrt_ok(1, den, ws, y) || (den == 0 && ws && fsq(y) == 1)
}
impl Clone for ElementVar {
    fn clone(&self) -> (r: ElementVar) ensures r.inner.x.val() == self.inner.x.val(), r.inner.y.val() == self.inner.y.val()
    { ElementVar { inner: self.inner.clone() } }
}
// (z * di) * d == z  whenever  d * di == 1     (no new product-of-product terms: safe as a broadcast lemma)
pub broadcast proof fn lemma_cancel(z: int, di: int, d: int)
    requires in_fq(z), fmul(d, di) == 1
    ensures #[trigger] fmul(fmul(z, di), d) == z
{
    let p = fq_p();
    vstd::arithmetic::div_mod::lemma_mul_mod_noop_general(z * di, d, p);
    assert((z * di) * d == z * (d * di)) by(nonlinear_arith);
    vstd::arithmetic::div_mod::lemma_mul_mod_noop_general(z, d * di, p);
    vstd::arithmetic::div_mod::lemma_small_mod(z as nat, p as nat);
    assert(z * 1 == z);
}
// the case analysis behind the four-case constraint block of `isqrt` (soundness reading), proved once and for all:
// x the input, (ws, y) ANY witnessed pair, inv the witnessed inverse of (x == 0 ? 1 : x)
pub proof fn lemma_isqrt_sound(x: int, ws: bool, y: int, inv: int)
    requires in_fq(x), in_fq(y), in_fq(inv),
        fmul(if x == 0 { 1 } else { x }, inv) == 1,
        ws ==> fsq(y) == inv,
        (!ws && x == 0) ==> fsq(y) == 0,
        (!ws && x != 0) ==> fsq(y) == fmul(ZETA_(), inv),
    ensures isqrt_weak(x, ws, y), x != 0 ==> isqrt_ok(1, x, ws, y), !ws ==> isqrt_ok(1, x, ws, y)
{
    if ws {
        if x == 0 {
            lemma_fmul_one(inv);
            assert(fsq(y) == 1);
        } else {
            assert(fmul(inv, x) == fmul(x, inv)) by { assert(inv * x == x * inv) by(nonlinear_arith); }
            assert(fmul(fsq(y), x) == 1);
        }
    } else if x == 0 {
        m_prime_no_zero_div(y, y);
        assert(y == 0);
    } else {
        lemma_cancel(ZETA_(), inv, x);
        lemma_fmul_one(ZETA_());
        assert(fmul(fsq(y), x) == fmul(ZETA_(), 1));
    }
}
pub broadcast proof fn lemma_fmul_one(a: int)
    requires in_fq(a)
    ensures #[trigger] fmul(a, 1) == a, #[trigger] fmul(1, a) == a
{
    vstd::arithmetic::div_mod::lemma_small_mod(a as nat, fq_p() as nat);
}
// M-PRIME: Z/q has no zero divisors
pub broadcast axiom fn m_prime_no_zero_div(a: int, b: int)
    requires in_fq(a), in_fq(b), #[trigger] mmul(fq_p(), a, b) == 0
    ensures a == 0 || b == 0;
// relation between the affine coordinates the Elligator gadget outputs and the specification's Jacobi-quartic
// point for the inverse-square-root answer (ws, y):  x * (1 + a s^2) == 2 s  and  y * t == 1 - a s^2
pub open spec fn ell_affine_rel(r0: int, ws: bool, y: int, ax: int, ay: int) -> bool {
    let st = ell_st(r0, ws, y);
    fmul(ax, fadd(1, fmul(A_(), fsq(st.0)))) == fmul(2, st.0) && fmul(ay, st.1) == fsub(1, fmul(A_(), fsq(st.0)))
}
impl ElementVar {
    #[verifier::external_body]
    pub fn cs(&self) -> (r: ConstraintSystemRef<Fq>) { unimplemented!() }
}
// for den != 0 the flag is determined and the root is determined up to sign: PROVED from M-PRIME (no zero divisors, Fermat)
// and zeta^((q-1)/2) == -1 (compute) in preludes/isqrt_unique.rs
pub proof fn m_isqrt_unique(den: int, f1: bool, y1: int, f2: bool, y2: int)
    requires in_fq(den), den != 0, isqrt_ok(1, den, f1, y1), isqrt_ok(1, den, f2, y2)
    ensures f1 == f2 && (y1 == y2 || y1 == fneg(y2))
{
    assert(isqrt_ok1(den, f1, y1) && isqrt_ok1(den, f2, y2));
    lemma_isqrt_unique(den, f1, y1, f2, y2);
}
// M-DECAF: decoding with the other root gives the same group element (sign fix of step 6; for s = 0 the two
// results are the two representatives (0, 1) and (0, -1) of the identity)
pub axiom fn m_decaf_dec_root_indep(s: int, v: int)
    requires in_fq(s), in_fq(v)
    ensures spec_eq(spec_decode_v(s, fneg(v)), spec_decode_v(s, v));
pub open spec fn pv(e: ElementVar) -> P4 { P4 { x: e.inner.x.val(), y: e.inner.y.val(), z: 1, t: fmul(e.inner.x.val(), e.inner.y.val()) } }
impl Fq {
    #[verifier::external_body]
    pub fn sqrt_ratio_zeta(num: &Self, den: &Self) -> (r: (bool, Self))
        ensures r.0 == isqrt_flag(num.val(), den.val()), r.1.val() == isqrt_root(num.val(), den.val())
    { unimplemented!() }
}
#[verifier::external_body]
pub exec const ZETA: Fq ensures ZETA.val() == ZETA_() { Fq::dummy_() }
pub trait TECurveConfig { const COEFF_A: Fq; const COEFF_D: Fq; }
pub struct Decaf377EdwardsConfig;
impl TECurveConfig for Decaf377EdwardsConfig {
    #[verifier::external_body]
    const COEFF_A: Fq = Fq::dummy_();
    #[verifier::external_body]
    const COEFF_D: Fq = Fq::dummy_();
}
pub broadcast axiom fn ad_consts()
    ensures #[trigger] <Decaf377EdwardsConfig as TECurveConfig>::COEFF_A.val() == A_(),
            #[trigger] <Decaf377EdwardsConfig as TECurveConfig>::COEFF_D.val() == D_();
"""


def more_preludes():
    """the congruence / M-PRIME toolkit (proved lemmas over the axioms m_prime_*_) and the uniqueness of the inverse square root"""
    from . import arksqrt as _ak
    _P = dict(field_params("fq"))["P"]
    _sk = dict(G=pow(_ak.ZETA, (_P - 1) >> 47, _P), M=(_P - 1) >> 47, ZZ=_ak._zz_from_source())
    return [("ladder_lemmas.rs", None), ("pow_lemmas.rs", None), ("sarkar_lemmas.rs", _sk), ("ts_lemmas.rs", None), ("isqrt_unique.rs", None)]


def r9_rules():
    """R9: the hint closures `|| Ok(local)` of new_witness calls carry their (trivial) specification explicitly"""
    return [("R9", r'Boolean::new_witness\(([^,]+),\s*\|\|\s*Ok\((\w+)\)\)',
             r'Boolean::new_witness(\1, || -> (r_: Result<bool, SynthesisError>) ensures r_ == Ok::<bool, SynthesisError>(\2) { Ok(\2) })'),
            ("R9", r'FqVar::new_witness\(([^,]+),\s*\|\|\s*Ok\((\w+)\)\)',
             r'FqVar::new_witness(\1, || -> (r_: Result<Fq, SynthesisError>) ensures r_ == Ok::<Fq, SynthesisError>(\2) { Ok(\2) })')]


def unit(mode):
    sound = mode == "sound"
    fq = dict(field_params("fq"))
    fq["SOUND"] = 1 if sound else 0
    fq["COMPL"] = 0 if sound else 1
    fq["FQVAR_OPS"] = fqvar_ops()
    stubs, lem = opsmod.stub_items("fq")
    items = list(stubs)
    tag = "C14" if sound else "C13"
    bu = "broadcast use fq_abs, r1cs_axioms, isqrt_spec_ok, ad_consts;"
    hdr = "impl FqVarExtension for FqVar"
    common_subst = [("R3", r'\bBoolean::TRUE\b', 'Boolean::TRUE_()'), ("R3", r'\bBoolean::FALSE\b', 'Boolean::FALSE_()'),
                    ("R3", r'\bBoolean::<Fq>::TRUE\b', 'Boolean::<Fq>::TRUE_()'), ("R3", r'\bBoolean::<Fq>::FALSE\b', 'Boolean::<Fq>::FALSE_()')]
    r9 = r9_rules()

    def ext(fn):
        items.append(Item(EXT, hdr, [fn], header_out="impl FqVar"))
    if sound:
        # R20: name the results of the three witness-producing calls (whatever the locals are called) for the lemma call
        cap = [("R20", r'(Boolean::new_witness\((?:[^()]|\((?:[^()]|\([^()]*\))*\))*\))\?', r'{ let c_ = \1?; proof { gws_ = c_.bval(); } c_ }'),
               ("R20", r'(FqVar::new_witness\((?:[^()]|\((?:[^()]|\([^()]*\))*\))*\))\?', r'{ let c_ = \1?; proof { gy_ = c_.val(); } c_ }'),
               ("R20", r'(\w+)\.inverse\(\)\?', r'{ let c_ = \1.inverse()?; proof { ginv_ = c_.val(); } c_ }')]
        bus = "broadcast use fq_abs, r1cs_axioms, ad_consts; proof { isqrt_spec_ok(1, self.val()); } let ghost mut gws_: bool = false; let ghost mut gy_: int = 0; let ghost mut ginv_: int = 0;"
        ext(Fn("isqrt", props=(tag,), preamble=bus, subst=r9 + cap, before_tail="lemma_isqrt_sound(self.val(), gws_, gy_, ginv_);",
               ensures="match r { Ok(p) => isqrt_weak(self.val(), p.0.bval(), p.1.val()), Err(_) => true }",
               tag="what the constraint block enforces; the strict contract is the obligation isqrt#strict below"))
        ext(Fn("isqrt", props=(tag,), preamble=bus, subst=r9 + cap, before_tail="lemma_isqrt_sound(self.val(), gws_, gy_, ginv_);", variant="#strict",
               ensures="match r { Ok(p) => isqrt_ok(1, self.val(), p.0.bval(), p.1.val()), Err(_) => true }", cover=False,
               tag="the four-case contract of the specification for EVERY satisfying assignment (C14); known finding D6"))
        ext(Fn("is_nonnegative", props=(tag,), preamble=bu, ensures="match r { Ok(b) => b.bval() == !is_neg(self.val()), Err(_) => true }"))
        ext(Fn("is_negative", props=(tag,), preamble=bu, ensures="match r { Ok(b) => b.bval() == is_neg(self.val()), Err(_) => true }"))
        ext(Fn("abs", props=(tag,), preamble=bu, ensures="match r { Ok(x) => x.val() == fabs(self.val()), Err(_) => true }"))
    else:
        ext(Fn("isqrt", props=(tag,), preamble=bu + " broadcast use lemma_div_unique, lemma_div_c, lemma_fmul_one;" + ISQ_HINT, subst=r9,
               ensures="match r { Ok(p) => p.0.bval() == isqrt_flag(1, self.val()) && p.1.val() == isqrt_root(1, self.val()), Err(_) => false }"))
        ext(Fn("is_nonnegative", props=(tag,), preamble=bu, ensures="match r { Ok(b) => b.bval() == !is_neg(self.val()), Err(_) => false }"))
        ext(Fn("is_negative", props=(tag,), preamble=bu, ensures="match r { Ok(b) => b.bval() == is_neg(self.val()), Err(_) => false }"))
        ext(Fn("abs", props=(tag,), preamble=bu, ensures="match r { Ok(x) => x.val() == fabs(self.val()), Err(_) => false }"))
    inn_subst = [("R8", r'\bns!\(\s*(\w+)\s*,\s*"[^"]*"\s*\)', r'\1.clone()'),
                 ("R7", r'\bAffineVar::new\(', 'Decaf377EdwardsVar::new(')]
    # the soundness reading of the inner gadgets never looks inside isqrt_flag / isqrt_root: leaving M-SQRT out of their
    # broadcast set keeps the queries small (with it, elligator_map went from 1.3M to 354M resource units)
    bui = (bu.replace("isqrt_spec_ok, ", "") if sound else bu) + " broadcast use lemma_cancel, lemma_fmul_one;"

    def inn(fn, hdr="impl ElementVar", **kw):
        fn = dataclasses.replace(fn, subst=list(fn.subst) + inn_subst)
        items.append(Item(INN, hdr, [fn], **kw))
    E_ = "Err(_) => true" if sound else "Err(_) => false"
    if sound:
        ghost = " let ghost mut gw_: bool = false; let ghost mut gv_: int = 0;"

        def isq(den_expr):
            # R20: name the result of the `.isqrt()?` call (whatever its receiver is called) so that proof hints can refer to it
            return [("R20", r'(\w+)\.isqrt\(\)\?',
                     r'{ let c_ = \1.isqrt()?; proof { gw_ = c_.0.bval(); gv_ = c_.1.val(); assert(\1.val() == ' + den_expr + r'); } c_ }')]
        inn(Fn("compress_to_field", props=(tag,), preamble=bui + ghost, subst=isq("enc_den(pv(*self))"),
               epilogue="match &r_ { Ok(s) => { assert(s.val() == spec_encode_v(pv(*self), gv_)); assert(isqrt_weak(enc_den(pv(*self)), gw_, gv_)); } Err(_) => {} }",
               ensures=f"match r {{ Ok(s) => exists|ws: bool, y: int| #[trigger] isqrt_weak(enc_den(pv(*self)), ws, y) && s.val() == spec_encode_v(pv(*self), y), {E_} }}"))
        inn(Fn("decompress_from_field", props=(tag,), preamble=bui + ghost, subst=isq("dec_den(s_var.val())"),
               epilogue="match &r_ { Ok(e) => { assert(gw_); assert(pv(*e) == spec_decode_v(s_var.val(), gv_)); assert(isqrt_weak(dec_den(s_var.val()), true, gv_)); } Err(_) => {} }",
               ensures=f"""match r {{ Ok(e) => !is_neg(s_var.val()) && exists|v0: int| #[trigger] isqrt_weak(dec_den(s_var.val()), true, v0)
                             && pv(e) == spec_decode_v(s_var.val(), v0), {E_} }}"""))
        S_ = "s_var.val()"
        strict = f"spec_decode({S_}) is Some && spec_eq(pv(e), spec_decode({S_})->Some_0)"
        uniq = f"""match &r_ {{ Ok(e) => {{
                assert(pv(*e) == spec_decode_v({S_}, gv_)); assert(isqrt_weak(dec_den({S_}), true, gv_));
                if dec_den({S_}) != 0 {{
                    let dd = dec_den({S_}); let rt = isqrt_root(1, dd);
                    isqrt_spec_ok(1, dd);
                    m_isqrt_unique(dd, true, gv_, isqrt_flag(1, dd), rt);
                    if gv_ != rt {{ m_decaf_dec_root_indep({S_}, rt); }}
                    assert(fmul(pv(*e).x, pv(*e).y) == fmul(pv(*e).y, pv(*e).x));
                }} }} Err(_) => {{}} }}"""
        inn(Fn("decompress_from_field", props=(tag,), preamble=bui + ghost, subst=isq("dec_den(s_var.val())"), variant="#outside_region",
               epilogue=uniq, tag="C14 statement outside the known-finding region (denominator of the inverse square root non-zero)",
               ensures=f"match r {{ Ok(e) => dec_den({S_}) != 0 ==> ({strict}), {E_} }}"))
        inn(Fn("decompress_from_field", props=(tag,), preamble=bui + ghost, subst=isq("dec_den(s_var.val())"), variant="#strict", cover=False,
               epilogue=uniq, tag="C14: an invalid encoding can never be decoded in-circuit; known finding D6 (s = q-1)",
               ensures=f"match r {{ Ok(e) => {strict}, {E_} }}"))
        inn(Fn("elligator_map", props=(tag,), preamble=bui + ghost, subst=isq("ell_x(r_0_var.val())"), rlimit=60,
               epilogue="match &r_ { Ok(e) => { assert(ell_affine_rel(r_0_var.val(), gw_, gv_, e.inner.x.val(), e.inner.y.val())); assert(isqrt_weak(ell_x(r_0_var.val()), gw_, gv_)); } Err(_) => {} }",
               ensures=f"""match r {{ Ok(e) => exists|ws: bool, y: int| #[trigger] isqrt_weak(ell_x(r_0_var.val()), ws, y)
                             && ell_affine_rel(r_0_var.val(), ws, y, e.inner.x.val(), e.inner.y.val()), {E_} }}"""))
    if not sound:
        S_ = "s_var.val()"
        inn(Fn("compress_to_field", props=(tag,), preamble=bui,
               ensures="match r { Ok(s) => s.val() == spec_encode(pv(*self)), Err(_) => false }"))
        inn(Fn("decompress_from_field", props=(tag,), preamble=bui,
               requires=f"spec_decode({S_}) is Some",
               ensures=f"match r {{ Ok(e) => pv(e) == spec_decode({S_})->Some_0, Err(_) => false }}"))
        inn(Fn("elligator_map", props=(tag,), preamble=bui + " proof { m_ell_den_nonzero(r_0_var.val()); }", rlimit=60,
               ensures="""match r { Ok(e) => ell_affine_rel(r_0_var.val(), isqrt_flag(1, ell_x(r_0_var.val())), isqrt_root(1, ell_x(r_0_var.val())),
                                                       e.inner.x.val(), e.inner.y.val()), Err(_) => false }"""))
        inn(Fn("conditional_enforce_equal", props=(tag,), preamble=bui,
               requires="should_enforce.bval() ==> spec_eq(pv(*self), pv(*other))", ensures="r is Ok"),
            hdr="impl EqGadget<Fq> for ElementVar", header_out="impl ElementVar")
        inn(Fn("conditional_enforce_not_equal", props=(tag,), preamble=bui,
               requires="should_enforce.bval() ==> !spec_eq(pv(*self), pv(*other))", ensures="r is Ok"),
            hdr="impl EqGadget<Fq> for ElementVar", header_out="impl ElementVar")
    inn(Fn("is_eq", props=(tag,), preamble=bui, ensures=f"match r {{ Ok(b) => b.bval() == spec_eq(pv(*self), pv(*other)), {E_} }}"),
        hdr="impl EqGadget<Fq> for ElementVar", header_out="impl ElementVar")
    if sound:
        inn(Fn("conditional_enforce_equal", props=(tag,), preamble=bui,
               ensures="r is Ok ==> (should_enforce.bval() ==> spec_eq(pv(*self), pv(*other)))"),
            hdr="impl EqGadget<Fq> for ElementVar", header_out="impl ElementVar")
        inn(Fn("conditional_enforce_not_equal", props=(tag,), preamble=bui,
               ensures="r is Ok ==> (should_enforce.bval() ==> !spec_eq(pv(*self), pv(*other)))"),
            hdr="impl EqGadget<Fq> for ElementVar", header_out="impl ElementVar")
    inn(Fn("conditionally_select", props=(tag,), preamble=bui,
           ensures=f"match r {{ Ok(x) => pv(x) == (if cond.bval() {{ pv(*true_value) }} else {{ pv(*false_value) }}), {E_} }}"),
        hdr="impl CondSelectGadget<Fq> for ElementVar", header_out="impl ElementVar")
    more = more_preludes()
    u = Unit(name=f"r1cs_{mode}", preludes=base_preludes() + [("curve_spec.rs", None), ("r1cs.rs", None)] + more,
             items=items, lemmas=lem + R1CS_LEMMAS + (COMPL_LEMMAS if not sound else ""), params=fq, global_subst=common_subst)
    u.raw = [(INN, "struct", "ElementVar")]
    u.raw_strip = ("Clone",)
    u.tail_assert = True     # R24
    return u


COMPL_LEMMAS = r"""
// M-ELL: the denominators 1 + a s^2 and t of the Jacobi-quartic -> Edwards conversion are non-zero
pub axiom fn m_ell_den_nonzero(r0: int)
    requires in_fq(r0)
    ensures ({ let st = ell_st(r0, isqrt_flag(1, ell_x(r0)), isqrt_root(1, ell_x(r0)));
               fadd(1, fmul(A_(), fsq(st.0))) != 0 && st.1 != 0 });
// division is unique in a field: x * d == 1 and y * d == 1 ==> x == y   (M-PRIME-free: x = x*(y*d) = (x*d)*y = y)
pub broadcast proof fn lemma_div_unique(x: int, y: int, d: int)
    requires in_fq(x), in_fq(y), in_fq(d), #[trigger] fmul(x, d) == 1, #[trigger] fmul(d, y) == 1
    ensures x == y
{
    // x = (x * d) * y  (cancel with y * d == 1)  = 1 * y = y
    assert(fmul(y, d) == fmul(d, y));
    lemma_cancel(x, d, y);
    lemma_fmul_one(y);
}
// z * d == c and d * di == 1  ==>  z == c * di
pub broadcast proof fn lemma_div_c(z: int, d: int, di: int)
    requires in_fq(z), in_fq(d), in_fq(di), #[trigger] fmul(d, di) == 1
    ensures z == fmul(#[trigger] fmul(z, d), di)
{
    assert(fmul(di, d) == fmul(d, di));
    lemma_cancel(z, d, di);
}
"""
