"""Shared definitions for the field units: parameters read from /repo, wrapper contracts
(proved in wrap64_* / wrap32_*, imported as stubs everywhere else) and operator SpecImpls
(proved in ops_*, imported as stubs by the curve units)."""
import os
import re
from vx.extract import Fn, Item, Unit, src, REPO
from vx.rsscan import LostAnchor

FIELDS = {"fq": "Fq", "fr": "Fr", "fp": "Fp"}


def parse_int_array(text):
    """[a, b, c] of integer literals (decimal / hex, with _ and type suffixes) -> list of ints"""
    m = re.search(r'\[(.*)\]', text, re.S)
    if not m:
        raise LostAnchor("no array literal in " + text[:60])
    vals = []
    for tok in m.group(1).split(','):
        tok = tok.strip()
        if not tok:
            continue
        tok = re.sub(r'(u8|u16|u32|u64|u128|usize)$', '', tok).replace('_', '')
        vals.append(int(tok, 0))
    return vals


def resolve_int_array(text, files, depth=0):
    """like parse_int_array, but follows one named constant (`&Self::X_LIMBS`, `Fr::X`) through the given source files
    when the initialiser holds no literal: a refactor that shares a limb array must not lose the anchor"""
    try:
        return parse_int_array(text)
    except LostAnchor:
        if depth > 3:
            raise
    rhs = text.split('=', 1)[1] if '=' in text else text
    names = re.findall(r'\b(?:Self|Fq|Fr|Fp)::([A-Z][A-Z0-9_]*)\b', rhs)
    names = [n for n in names if n not in ("Case3Mod4", "TonelliShanks")]
    if len(set(names)) != 1:
        raise LostAnchor("no array literal and no unique named constant in " + text[:80])
    from vx.extract import src
    hits = []
    for fpath in files:
        try:
            sf = src(fpath)
        except (LostAnchor, OSError):
            continue
        for it in sf.all_items():
            if it.kind in ('const', 'static') and it.name == names[0]:
                hits.append(it)
            if it.kind == 'impl':
                hits += [ch for ch in it.children() if ch.kind in ('const', 'static') and ch.name == names[0]]
    if len(hits) != 1:
        raise LostAnchor(f"constant {names[0]} referenced by initialiser: {len(hits)} definitions")
    t = hits[0].text
    return resolve_int_array(t.split('=', 1)[1] if '=' in t else t, files, depth + 1)


def limbs_to_int(limbs, bits=64):
    return sum(v << (bits * i) for i, v in enumerate(limbs))


_FP = {}


def field_params(f):
    """read B, MODULUS_LIMBS from src/fields/<f>.rs (every run; never cached across processes)"""
    if f in _FP:
        return _FP[f]
    s = src(f"src/fields/{f}.rs")
    F = FIELDS[f]
    B = None
    for it in s.all_items():
        if it.kind == 'const' and it.name == 'B':
            B = int(re.search(r'=\s*(\d+)', it.text).group(1))
    if B is None:
        raise LostAnchor(f"src/fields/{f}.rs :: const B")
    mod = s.find_const(f"impl {F}", "MODULUS_LIMBS")
    limbs = parse_int_array(mod.text.split('=', 1)[1])
    P = limbs_to_int(limbs)
    N64 = (B + 63) // 64
    N32 = (B + 31) // 32
    N8 = (B + 7) // 8
    if len(limbs) != N64:
        raise LostAnchor(f"MODULUS_LIMBS has {len(limbs)} limbs, expected {N64}")
    R = 1 << (64 * N64)
    p = dict(F=F, f=f, B=B, N64=N64, N32=N32, N8=N8, P=P, RINV=pow(R, -1, P), RMOD=R % P, R=R,
             ZEROS64=", ".join(["0"] * N64), PM2=P - 2, RDIV64=R >> 64)
    _FP[f] = p
    return p


# ----------------------------------------------------------------------------- wrapper contracts
# The same text is (a) spliced into the real wrapper bodies in wrap64_<f> / wrap32_<f> and
# (b) emitted on external_body stubs wherever a higher layer calls the wrapper.

def wrapper_contracts(f, style="requires"):
    """style 'requires': well-formedness of the operands is a precondition (u64 wrappers, abstract stubs);
    style 'conditional': no precondition, the postcondition is conditional on it (u32 wrappers: the fiat routines are
    total and `PartialEq::eq`, which cannot carry a precondition, calls `sub`).  Under wf() == true both coincide."""
    c = _wrapper_contracts(f)
    if style == "conditional":
        import dataclasses
        out = {}
        for k, fn in c.items():
            if fn.requires and k != "from_montgomery_limbs":
                out[k] = dataclasses.replace(fn, requires=None, ensures=f"({fn.requires.replace(', ', ' && ')}) ==> ({fn.ensures.replace('r.wf(), ', 'r.wf() && ')})")
            else:
                out[k] = fn
        return out
    return c


def _wrapper_contracts(f):
    P = "@f@_p()"
    return {
        "from_le_limbs": Fn("from_le_limbs", ensures=f"r.wf(), r.val() == limbs_val(limbs@) % {P}", props=("C10", "C11")),
        "from_raw_bytes": Fn("from_raw_bytes", ensures=f"r.wf(), r.val() == bytes_val(bytes@) % {P}", props=("C11",)),
        "to_le_limbs": Fn("to_le_limbs", requires="self.wf()", ensures="limbs_val(r@) == self.val()", props=("C11",)),
        "to_bytes_le": Fn("to_bytes_le", requires="self.wf()", ensures="bytes_val(r@) == self.val()", props=("C11",)),
        "from_montgomery_limbs": Fn("from_montgomery_limbs", requires=f"limbs_val(limbs@) < {P}",
                                    ensures=f"r.wf(), r.val() == mmul({P}, limbs_val(limbs@), @RINV@int)", props=("C10", "C17")),
        "square": Fn("square", requires="self.wf()", ensures=f"r.wf(), r.val() == mmul({P}, self.val(), self.val())", props=("C10",)),
        "inverse": Fn("inverse", requires="self.wf()",
                      ensures=f"match r {{ None => self.val() == 0, Some(x) => self.val() != 0 && x.wf() && x.val() == minv({P}, self.val()) }}",
                      props=("C10",)),
        "add": Fn("add", requires="self.wf(), other.wf()", ensures=f"r.wf(), r.val() == madd({P}, self.val(), other.val())", props=("C10",)),
        "sub": Fn("sub", requires="self.wf(), other.wf()", ensures=f"r.wf(), r.val() == msub({P}, self.val(), other.val())", props=("C10",)),
        "mul": Fn("mul", requires="self.wf(), other.wf()", ensures=f"r.wf(), r.val() == mmul({P}, self.val(), other.val())", props=("C10",)),
        "neg": Fn("neg", requires="self.wf()", ensures=f"r.wf(), r.val() == mneg({P}, self.val())", props=("C10",)),
        "ZERO": Fn("ZERO", ensures="@F@::ZERO.wf(), @F@::ZERO.val() == 0", as_const=True, props=("C10", "C17")),
        "ONE": Fn("ONE", ensures="@F@::ONE.wf(), @F@::ONE.val() == 1", as_const=True, props=("C10", "C17")),
    }


def wrapper_file(f, backend):
    return f"src/fields/{f}/{backend}/wrapper.rs"


def wrapper_stubs(f, backend="u64", names=None):
    """stub items importing the wrapper contracts into an abstract-field unit"""
    F = FIELDS[f]
    fp_ = field_params(f)
    c = wrapper_contracts(f)
    names = names or ["from_le_limbs", "from_raw_bytes", "to_le_limbs", "to_bytes_le", "from_montgomery_limbs",
                      "square", "inverse", "add", "sub", "mul", "neg"]
    items = []
    for n in names:
        both = (f"wrap64_{f}", f"wrap32_{f}") if n != "inverse" else (f"wrap64_{f}",)
        items.append(Item(wrapper_file(f, backend), f"impl {F}", [c[n]], mode="stub", proved_in=both))
    # constants: stubs need a compilable dummy body
    consts = f"""
impl {F} {{
    #[verifier::external_body]
    pub exec const ZERO: {F} ensures {F}::ZERO.val() == 0 {{ {F}::dummy_() }}
    #[verifier::external_body]
    pub exec const ONE: {F} ensures {F}::ONE.val() == 1 {{ {F}::dummy_() }}
    // 2^(8 * N_8) mod p: literal initialiser checked in the consts unit (c17_{f}_FIELD_SIZE_POWER_OF_TWO[_value])
    #[verifier::external_body]
    pub exec const FIELD_SIZE_POWER_OF_TWO: {F} ensures {F}::FIELD_SIZE_POWER_OF_TWO.val() == {pow(2, 8 * fp_["N8"], fp_["P"])}int {{ {F}::dummy_() }}
}}
"""
    return items, consts


def eq_stub(f):
    F = FIELDS[f]
    return f"""
impl PartialEqSpecImpl<{F}> for {F} {{
    open spec fn obeys_eq_spec() -> bool {{ true }}
    open spec fn eq_spec(&self, other: &{F}) -> bool {{ self.val() == other.val() }}
}}
impl PartialEq<{F}> for {F} {{ #[verifier::external_body] fn eq(&self, other: &{F}) -> bool {{ unimplemented!() }} }}
impl Eq for {F} {{}}
"""
