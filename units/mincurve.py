"""Units over src/min_curve (self-contained backend, built with --no-default-features)."""
import dataclasses
import re
from vx.extract import Fn, Item, Unit, src
from .fieldc import field_params
from . import ops as opsmod
from .arkcurve import sign_items, CURVE_LEMMAS, base_preludes, _specimpl

R12 = "#[verifier::exec_allows_no_decreases_clause]"
EL = "src/min_curve/element.rs"
OPS = "src/min_curve/ops.rs"
INV = "src/min_curve/invsqrt.rs"

MIN_PRELUDE = r"""
// ---- src/min_curve/constants.rs: values proved by compute in unit `consts` (C17)
#[verifier::external_body]
pub exec const COEFF_A: Fq ensures COEFF_A.val() == A_() { Fq::dummy_() }
#[verifier::external_body]
pub exec const COEFF_D: Fq ensures COEFF_D.val() == D_() { Fq::dummy_() }
#[verifier::external_body]
pub exec const COEFF_K: Fq ensures COEFF_K.val() == K_() { Fq::dummy_() }
#[verifier::external_body]
pub exec const ZETA: Fq ensures ZETA.val() == ZETA_() { Fq::dummy_() }
pub open spec fn mrepr(e: Element) -> P4 { P4 { x: e.x.val(), y: e.y.val(), z: e.z.val(), t: e.t.val() } }
pub open spec fn m_of(p: P4) -> Element { Element { x: fq_of(p.x), y: fq_of(p.y), z: fq_of(p.z), t: fq_of(p.t) } }
pub open spec fn decode_result_min(b: Seq<u8>) -> Result<Element, EncodingError> {
    match decode_bytes_spec(b) { Some(p) => Ok(m_of(p)), None => Err(EncodingError::InvalidEncoding) }
}
// non_arkworks_sqrt_ratio_zeta is imported as a stub below: unit min_invsqrt proves isqrt_ok(num, den, r.0, r.1) for every
// input; isqrt_flag / isqrt_root are the Skolem functions of that (deterministic) implementation.
pub broadcast proof fn mrepr_m_of(q: P4)
    requires p4_wf(q)
    ensures mrepr(#[trigger] m_of(q)) == q
{ broadcast use fq_abs; }
pub broadcast proof fn m_of_mrepr(e: Element)
    ensures m_of(#[trigger] mrepr(e)) == e
{ broadcast use fq_abs; }
// M-GROUP (homomorphism facts for the double-and-add ladder; statements about spec functions only)
pub broadcast axiom fn m_group_ladder_add(a: P4, b: P4, m: nat, n: nat, p: P4)
    requires proj_eq(a, smul(m, p)), proj_eq(b, smul(n, p))
    ensures proj_eq(#[trigger] te_add_min(a, b), #[trigger] smul((m + n) as nat, p));
pub broadcast axiom fn m_group_smul_one(p: P4)
    ensures proj_eq(p, #[trigger] smul(1, p));
pub broadcast axiom fn m_group_ladder_double(b: P4, n: nat, p: P4)
    requires proj_eq(b, smul(n, p))
    ensures proj_eq(#[trigger] te_double_min(b), #[trigger] smul((2 * n) as nat, p));
"""
BUM = "broadcast use fq_abs, fr_abs, isqrt_spec_ok, lemma_bytes_val_bound, mrepr_m_of, m_of_mrepr, le32_axioms, lemma_top_byte;"


def view(expr, ty):
    t = ty.replace("&", "").replace("'a", "").replace("'b", "").strip()
    if t in ("Element", "Self"):
        return f"mrepr(*{expr})" if ty.strip().startswith("&") else f"mrepr({expr})"
    raise ValueError(ty)


def element_unit():
    fq = field_params("fq")
    stubs, lem = opsmod.stub_items("fq")
    items = list(stubs) + sign_items()
    I = lambda fn, hdr="impl Element": items.append(Item(EL, hdr, [fn]))
    items.append(Item(EL, "impl ConditionallySelectable for Element", [Fn("conditional_select", props=("C05", "C10"), preamble=BUM)],
                      extra_assoc="    open spec fn cs_wf(&self) -> bool { true }"))
    items.append(Item("src/fields/fq/u64/wrapper.rs", "impl ConditionallySelectable for Fq", [Fn("conditional_select")], mode="stub",
                      proved_in="wrap64_fq", extra_assoc="    open spec fn cs_wf(&self) -> bool { true }"))
    from .fieldc import wrapper_contracts
    items.append(Item("src/fields/fr/u64/wrapper.rs", "impl Fr", [wrapper_contracts("fr")["to_le_limbs"]], mode="stub", proved_in="wrap64_fr"))
    items.append(Item("src/fields/fq.rs", "impl Fq", [Fn("from_bytes_checked",
        ensures="""match r { Ok(v) => bytes_val(bytes@) < fq_p() && v.val() == bytes_val(bytes@),
                          Err(e) => bytes_val(bytes@) >= fq_p() && e == EncodingError::InvalidEncoding }""")], mode="stub", proved_in="fieldx_fq"))
    items.append(Item(INV, "impl Fq", [Fn("non_arkworks_sqrt_ratio_zeta",
        ensures="r.0 == isqrt_flag(num.val(), den.val()), r.1.val() == isqrt_root(num.val(), den.val())")], mode="stub", proved_in="min_invsqrt"))
    I(Fn("new_checked", ensures="""r == (if fadd(fsq(y.val()), fmul(A_(), fsq(x.val()))) == fadd(fsq(z.val()), fmul(D_(), fsq(t.val())))
                { Some(Element { x, y, z, t }) } else { None })""", props=("C06",), preamble=BUM))
    I(Fn("IDENTITY", as_const=True, ensures="mrepr(Element::IDENTITY) == id4()", props=("C06", "C12")))
    I(Fn("new", ensures="r == (Element { x, y, z, t })", props=("C04",), preamble=BUM))
    I(Fn("from_affine", ensures="mrepr(r) == (P4 { x: x.val(), y: y.val(), z: 1, t: fmul(x.val(), y.val()) })", props=("C06",), preamble=BUM))
    I(Fn("is_identity", ensures="r == spec_is_identity(mrepr(*self))", props=("C08", "C12"), preamble=BUM))
    I(Fn("double", ensures="mrepr(r) == te_double_min(mrepr(self))", props=("C04", "C12"), preamble=BUM + " broadcast use comm_ops;"))
    I(Fn("vartime_compress_to_field", ensures="r.val() == spec_encode(mrepr(*self))", props=("C01", "C03", "C12"), preamble=BUM + " broadcast use comm_ops;"))
    I(Fn("vartime_compress", ensures="r.0 == le32(spec_encode(mrepr(*self))), r.0@[31] < 32", props=("C01", "C03", "C12"), preamble=BUM))
    I(Fn("elligator_map", ensures="mrepr(r) == ell_opt(r_0.val())", props=("C07", "C12"), preamble=BUM, rlimit=80))
    I(Fn("hash_to_curve", ensures="mrepr(r) == te_add_min(ell_opt(r_1.val()), ell_opt(r_2.val()))", props=("C07", "C12"), preamble=BUM))
    I(Fn("encode_to_curve", ensures="mrepr(res) == ell_opt(r.val())", ret="res", props=("C07", "C12"), preamble=BUM))
    I(Fn("vartime_decompress", ensures="r == decode_result_min(self.0@)", props=("C01", "C02", "C12"),
         preamble=BUM + " assert(forall|x: u8| (x >> 5 != 0u8) == (x >= 32u8)) by(bit_vector);"), hdr="impl Encoding")
    P_ = "mrepr(self)"
    S_ = "le_bits@"
    J_ = "(it.index@ as int)"
    items.append(Item(EL, "impl Element", [Fn(
        "scalar_mul_both", props=("C05", "C12"), no_ufcs=False,
        ensures=f"proj_eq(mrepr(r), smul(limbs_val({S_}) as nat, {P_}))",
        preamble=BUM + " broadcast use lemma_limbs_val_bound; proof { assert(le_bits@.take(0).len() == 0); lemma_p2_pos(0); m_group_smul_one(mrepr(self)); } assert(forall|x: u64, k: u64| k < 64 ==> #[trigger] ((x >> k) & 1) == 0 || ((x >> k) & 1) == 1) by(bit_vector);",
        ghost_iter={0: "it"},
        subst=[("R4", r'\blimb\s*>>', '*limb >>')],
        loops={0: f"""invariant proj_eq(mrepr(acc), smul(limbs_val({S_}.take({J_})) as nat, {P_})),
                        proj_eq(mrepr(insert), smul(p2((64 * it.index@) as nat) as nat, {P_}))""",
               1: f"""invariant 0 <= {J_} < {S_}.len(), *limb == {S_}[{J_}], 0 <= i <= 64,
                        proj_eq(mrepr(acc), smul(prefix_val({S_}, {J_}, i as u64) as nat, {P_})),
                        proj_eq(mrepr(insert), smul((p2((64 * it.index@) as nat) * p2(i as nat)) as nat, {P_}))"""},
        loops_begin={0: f"proof {{ lemma_prefix_0({S_}, {J_}); }}",
                     1: "let ghost acc0 = acc; let ghost ins0 = insert; let ghost k_ = i as u64; let ghost x_ = *limb; assert(((x_ >> k_) & 1) <= 1) by(bit_vector);"},
        loops_end={0: f"lemma_prefix_64({S_}, {J_}); assert({S_}.take({J_} + 1) =~= {S_}.take(({J_}) + 1));",
                   1: f"""lemma_prefix_step({S_}, {J_}, i as u64);
                let e0 = prefix_val({S_}, {J_}, i as u64);
                let w = p2((64 * it.index@) as nat) * p2(i as nat);
                m_group_ladder_add(mrepr(acc0), mrepr(ins0), e0 as nat, w as nat, {P_});
                m_group_ladder_double(mrepr(ins0), w as nat, {P_});
                assert((((*limb >> i) & 1) as int) * w == (if ((*limb >> i) & 1) == 1 {{ w }} else {{ 0 }})) by(nonlinear_arith)
                    requires ((*limb >> i) & 1) == 0 || ((*limb >> i) & 1) == 1;"""},
        before_tail=f"assert({S_}.take({S_}.len() as int) =~= {S_});")]))
    I(Fn("scalar_mul_vartime", ensures=f"proj_eq(mrepr(r), smul(limbs_val({S_}) as nat, {P_}))", props=("C05", "C12"), preamble=BUM))
    I(Fn("scalar_mul", ensures=f"proj_eq(mrepr(r), smul(limbs_val({S_}) as nat, {P_}))", props=("C05", "C12"), preamble=BUM))
    # operators in element.rs
    items.append(Item(EL, "impl Add for Element", [Fn("add", ensures="mrepr(r) == te_add_min(mrepr(self), mrepr(other))", props=("C04", "C12"),
                                                      preamble=BUM + " broadcast use lemma_fmul_comm_b, lemma_fadd_comm_b;", attrs=R12)],
                      keep_assoc=("Output",), pre=_specimpl("", "Add", "Element", "Element", "Element")))
    items.append(Item(EL, "impl Neg for Element", [Fn("neg", ensures="mrepr(r) == te_neg(mrepr(self))", props=("C04", "C12"), preamble=BUM, attrs=R12)],
                      keep_assoc=("Output",), pre=_specimpl("", "Neg", None, "Element", "Element")))
    pre = """impl PartialEqSpecImpl<Element> for Element {
    open spec fn obeys_eq_spec() -> bool { true }
    open spec fn eq_spec(&self, other: &Element) -> bool { spec_eq(mrepr(*self), mrepr(*other)) }
}"""
    items.append(Item(EL, "impl PartialEq for Element", [Fn("eq", props=("C08", "C12", "C01"), preamble=BUM, attrs=R12)], pre=pre))
    # conversion impls of the minimal backend (same contracts as the arkworks ones in units/arkcurve.py)
    def conv(header, fn, pre, keep=(), **kw):
        items.append(Item(EL, header, [Fn(fn, preamble=BUM, attrs=R12, **kw)], pre=pre, keep_assoc=keep))
    enc_of = "Encoding(le32(spec_encode(mrepr(*point))))"
    conv("impl From<&Element> for Encoding", "from", f"""impl<'a> FromSpecImpl<&'a Element> for Encoding {{
    open spec fn obeys_from_spec() -> bool {{ true }}
    open spec fn from_spec(point: &'a Element) -> Encoding {{ {enc_of} }}
}}""", props=("C03", "C12"))
    conv("impl From<Element> for Encoding", "from", f"""impl FromSpecImpl<Element> for Encoding {{
    open spec fn obeys_from_spec() -> bool {{ true }}
    open spec fn from_spec(point: Element) -> Encoding {{ {enc_of.replace("*point", "point")} }}
}}""", props=("C03", "C12"))
    conv("impl From<[u8; 32]> for Encoding", "from", """impl FromSpecImpl<[u8; 32]> for Encoding {
    open spec fn obeys_from_spec() -> bool { true }
    open spec fn from_spec(bytes: [u8; 32]) -> Encoding { Encoding(bytes) }
}""", props=("C02", "C12"))
    conv("impl From<Encoding> for [u8; 32]", "from", """impl FromSpecImpl<Encoding> for [u8; 32] {
    open spec fn obeys_from_spec() -> bool { true }
    open spec fn from_spec(enc: Encoding) -> [u8; 32] { enc.0 }
}""", props=("C03", "C12"))
    conv("impl From<Element> for [u8; 32]", "from", """impl FromSpecImpl<Element> for [u8; 32] {
    open spec fn obeys_from_spec() -> bool { true }
    open spec fn from_spec(enc: Element) -> [u8; 32] { le32(spec_encode(mrepr(enc))) }
}""", props=("C03", "C12"))
    conv("impl TryFrom<&Encoding> for Element", "try_from", """impl<'a> TryFromSpecImpl<&'a Encoding> for Element {
    open spec fn obeys_try_from_spec() -> bool { true }
    open spec fn try_from_spec(bytes: &'a Encoding) -> Result<Element, EncodingError> { decode_result_min(bytes.0@) }
}""", props=("C02", "C12"), keep=("Error",))
    conv("impl TryFrom<Encoding> for Element", "try_from", """impl TryFromSpecImpl<Encoding> for Element {
    open spec fn obeys_try_from_spec() -> bool { true }
    open spec fn try_from_spec(bytes: Encoding) -> Result<Element, EncodingError> { decode_result_min(bytes.0@) }
}""", props=("C02", "C12"), keep=("Error",))
    conv("impl TryFrom<[u8; 32]> for Element", "try_from", """impl TryFromSpecImpl<[u8; 32]> for Element {
    open spec fn obeys_try_from_spec() -> bool { true }
    open spec fn try_from_spec(bytes: [u8; 32]) -> Result<Element, EncodingError> { decode_result_min(bytes@) }
}""", props=("C02", "C12"), keep=("Error",))
    items += ops_items()
    u = Unit(name="min_element",
             preludes=base_preludes() + [("subtle.rs", None), ("curve_spec.rs", None), ("min_spec.rs", None), ("ladder_lemmas.rs", None)],
             items=items, lemmas=lem + MIN_LEMMAS_PRE + MIN_PRELUDE + COMM_LEMMAS, params=fq,
             global_subst=[("R2b", r'\bcfg!\(debug_assertions\)', 'false')])
    u.raw = [("src/error.rs", "enum", "EncodingError"), ("src/min_curve/encoding.rs", "struct", "Encoding"), (EL, "struct", "Element")]
    u.ufcs = True
    u.ufcs_only = ("src/min_curve/ops.rs",)
    return u


COMM_LEMMAS = r"""
// commutativity of the field operations (each produces at most the mirrored term: no matching loop), so that an
// operand swap in the source does not push the formula proofs into the resource limit
pub broadcast proof fn lemma_fmul_comm_b(a: int, b: int) ensures #[trigger] fmul(a, b) == fmul(b, a)
{ assert(a * b == b * a) by(nonlinear_arith); }
pub broadcast proof fn lemma_fadd_comm_b(a: int, b: int) ensures #[trigger] fadd(a, b) == fadd(b, a) { }
"""
MIN_LEMMAS_PRE = CURVE_LEMMAS.replace("""pub open spec fn decode_result(b: Seq<u8>) -> Result<Element, EncodingError> {
    match decode_bytes_spec(b) { Some(p) => Ok(Element { inner: of_p4(p) }), None => Err(EncodingError::InvalidEncoding) }
}""", "")


def ops_items():
    s = src(OPS)
    items = []
    for imp in s.all_items():
        if imp.kind != "impl":
            continue
        hdr = re.sub(r'\s+', ' ', imp.header.strip())
        m = re.match(r"impl(<[^>]*>)?\s*(\w+)(?:<(.*)>)?\s*for (.+)$", hdr)
        if not m:
            continue
        gen, trait, rhs_t, self_t = m.groups()
        fns = [c for c in imp.children() if c.kind == "fn"]
        if len(fns) != 1:
            continue
        fn = fns[0]
        out_t = "Element"
        pm = re.search(r'\(\s*(?:&\s*mut\s+self|mut\s+self|&\s*self|self)\s*(?:,\s*(?:mut\s+)?(\w+)\s*:\s*([^)]*))?\)', fn.sig_text)
        pname = pm.group(1) if pm else None

        def V(e, ty):
            return f"mrepr(*{e})" if ty.strip().startswith("&") else f"mrepr({e})"
        if trait in ("Add", "Sub"):
            rhs = V(pname, rhs_t)
            if trait == "Sub":
                rhs = f"te_neg({rhs})"
            ens = f"mrepr(r) == te_add_min({V('self', self_t)}, {rhs})"
            items.append(Item(OPS, hdr, [Fn(fn.name, ensures=ens, preamble=BUM, props=("C04", "C12"), attrs=R12)], keep_assoc=("Output",),
                              pre=_specimpl(gen, trait, rhs_t, self_t, out_t)))
        elif trait in ("AddAssign", "SubAssign"):
            rhs = V(pname, rhs_t)
            if trait == "SubAssign":
                rhs = f"te_neg({rhs})"
            ens = f"mrepr(*final(self)) == te_add_min(mrepr(*old(self)), {rhs})"
            items.append(Item(OPS, hdr, [Fn(fn.name, ensures=ens, preamble=BUM, props=("C04", "C12"), attrs=R12)],
                              pre=_specimpl(gen, trait, rhs_t, self_t, out_t)))
        elif trait in ("Mul", "MulAssign"):
            if trait == "Mul":
                if "Fr" in self_t:
                    k, kt, pt, ptt = "self", self_t, pname, rhs_t
                else:
                    k, kt, pt, ptt = pname, rhs_t, "self", self_t
                ens = f"proj_eq(mrepr(r), smul({k}.val() as nat, {V(pt, ptt)}))"
                keep = ("Output",)
            else:
                ens = f"proj_eq(mrepr(*final(self)), smul({pname}.val() as nat, mrepr(*old(self))))"
                keep = ()
            items.append(Item(OPS, hdr, [Fn(fn.name, ensures=ens, preamble=BUM, props=("C05", "C12"), attrs=R12)], keep_assoc=keep,
                              pre=_specimpl(gen, trait, rhs_t, self_t, out_t)))
    return items


INVSQRT_LEMMAS = r"""
pub open spec fn is_sq(a: int) -> bool { exists|y: int| in_fq(y) && #[trigger] fsq(y) == a }
pub open spec fn QM1H() -> nat { ((fq_p() - 1) / 2) as nat }
// M-PRIME (Euler's criterion; zeta is a non-square -- proved by compute in unit consts -- so zeta * non-square is a square)
pub axiom fn m_prime_euler(a: int)
    requires in_fq(a), a != 0
    ensures (mpow(fq_p(), a, QM1H()) == 1) <==> is_sq(a),
            !is_sq(a) ==> is_sq(fmul(ZETA_(), a));
// (z * di) * d == z whenever d * di == 1
pub proof fn lemma_cancel(z: int, di: int, d: int)
    requires in_fq(z), fmul(d, di) == 1
    ensures fmul(fmul(z, di), d) == z
{
    let p = fq_p();
    vstd::arithmetic::div_mod::lemma_mul_mod_noop_general(z * di, d, p);
    assert((z * di) * d == z * (d * di)) by(nonlinear_arith);
    vstd::arithmetic::div_mod::lemma_mul_mod_noop_general(z, d * di, p);
    vstd::arithmetic::div_mod::lemma_small_mod(z as nat, p as nat);
    assert(z * 1 == z);
}
pub proof fn lemma_fmul_assoc(a: int, b: int, c: int)
    ensures fmul(fmul(a, b), c) == fmul(a, fmul(b, c))
{
    let p = fq_p();
    vstd::arithmetic::div_mod::lemma_mul_mod_noop_general(a * b, c, p);
    vstd::arithmetic::div_mod::lemma_mul_mod_noop_general(a, b * c, p);
    assert((a * b) * c == a * (b * c)) by(nonlinear_arith);
}
// M-PRIME: no zero divisors
pub axiom fn m_prime_no_zero_div(a: int, b: int)
    requires in_fq(a), in_fq(b), fmul(a, b) == 0
    ensures a == 0 || b == 0;
// M-PRIME: a * a^(q-2) == 1 for a != 0 (Fermat)
pub axiom fn m_prime_fermat(a: int)
    requires in_fq(a), a != 0
    ensures fmul(a, finv(a)) == 1, in_fq(finv(a));
"""


def invsqrt_unit():
    fq = field_params("fq")
    from . import arksqrt as _ak
    _P = fq["P"]
    _sk = dict(G=pow(_ak.ZETA, (_P - 1) >> 47, _P), M=(_P - 1) >> 47, ZZ=_ak._zz_from_source())
    stubs, lem = opsmod.stub_items("fq")
    items = list(stubs)
    P = "fq_p()"
    S_ = "limbs@"
    J_ = "(it.index@ as int)"
    X_ = "self.val()"
    bu = "broadcast use fq_abs, lemma_bytes_val_bound, lemma_limbs_val_bound;"
    items.append(Item(INV, "impl Fq", [Fn(
        "pow_le_limbs", props=("C09", "C10"),
        ensures=f"r.val() == mpow({P}, {X_}, limbs_val({S_}) as nat)",
        preamble=bu + f" proof {{ assert({S_}.take(0).len() == 0); lemma_p2_pos(0); reveal_with_fuel(mpow, 2); }}",
        ghost_iter={0: "it"},
        subst=[("R4", r'\blimb\s*>>', '*limb >>')],
        loops={0: f"""invariant acc.val() == mpow({P}, {X_}, limbs_val({S_}.take({J_})) as nat),
                        insert.val() == mpow({P}, {X_}, p2((64 * it.index@) as nat) as nat)""",
               1: f"""invariant 0 <= {J_} < {S_}.len(), *limb == {S_}[{J_}], 0 <= i <= 64,
                        acc.val() == mpow({P}, {X_}, prefix_val({S_}, {J_}, i as u64) as nat),
                        insert.val() == mpow({P}, {X_}, (p2((64 * it.index@) as nat) * p2(i as nat)) as nat)"""},
        loops_begin={0: f"proof {{ lemma_prefix_0({S_}, {J_}); }}",
                     1: "broadcast use fq_abs; let ghost acc0 = acc; let ghost ins0 = insert; let ghost k_ = i as u64; let ghost x_ = *limb; assert(((x_ >> k_) & 1) <= 1) by(bit_vector);"},
        loops_end={0: f"lemma_prefix_64({S_}, {J_});",
                   1: f"""lemma_prefix_step({S_}, {J_}, i as u64);
                let e0 = prefix_val({S_}, {J_}, i as u64);
                let w = p2((64 * it.index@) as nat) * p2(i as nat);
                lemma_mpow_add({P}, {X_}, e0 as nat, w as nat);
                lemma_mpow_add({P}, {X_}, w as nat, w as nat);
                assert((((*limb >> i) & 1) as int) * w == (if ((*limb >> i) & 1) == 1 {{ w }} else {{ 0 }})) by(nonlinear_arith)
                    requires ((*limb >> i) & 1) == 0 || ((*limb >> i) & 1) == 1;"""},
        before_tail=f"assert({S_}.take({S_}.len() as int) =~= {S_});")]))
    items.append(Item("src/fields/fq/u64/wrapper.rs", "impl ConditionallySelectable for Fq", [Fn("conditional_select")], mode="stub",
                      proved_in=("wrap64_fq", "wrap32_fq"), extra_assoc="    open spec fn cs_wf(&self) -> bool { true }"))
    items.append(Item("src/fields/fq/u64/wrapper.rs", "impl ConstantTimeEq for Fq", [Fn("ct_eq")], mode="stub", proved_in=("wrap64_fq", "wrap32_fq"),
                      extra_assoc="    open spec fn ct_wf(&self) -> bool { true }\n    open spec fn ct_eq_spec(&self, other: &Self) -> bool { self.val() == other.val() }"))
    # our_sqrt: constant-time Tonelli-Shanks (hash-to-curve draft, appendix I.4).  Outer loop invariant ts_inv(x, z, t, c, i):
    # z^2 == t x, t^(2^(i-1)) == 1, c^(2^(i-1)) == -1;  inner loop: b == t^(2^(j-1)).  R29 turns the reversed range into a while loop.
    XV = "self.val()"
    items.append(Item(INV, "impl Fq", [Fn(
        "our_sqrt", props=("C09", "C12"),
        requires="is_sq(self.val()), self.val() != 0",
        ensures="fsq(r.val()) == self.val()",
        preamble=bu + f""" proof {{
                let y_ = choose|y: int| in_fq(y) && #[trigger] fsq(y) == {XV};
                assert(fmul(y_, y_) == {XV});
                assert(is_sq_({XV}));
                assert(p2(47) == 140737488355328 && p2(46) == 70368744177664) by(compute_only);
            }}""",
        subst=[("R27", r'(let mut c = Fq::QUADRATIC_NON_RESIDUE_TO_TRACE;)', r"""\1 proof {
                lemma_ts_init(self.val(), xp(self.val(), ((M_() - 1) / 2) as nat), t.val(), z.val(), c.val()); }""")],
        loops={0: f"""invariant 1 <= i_ <= 47, ts_inv({XV}, z.val(), t.val(), c.val(), i_ as nat), b.val() == t.val(), in_fq({XV}),
                    decreases i_""",
               1: f"""invariant 2 <= i <= 47, 1 <= _j <= i - 1, in_fq(t.val()), b.val() == xp(t.val(), p2((_j - 1) as nat) as nat),"""},
        loops_begin={0: f"broadcast use fq_abs; let ghost z0_ = z.val(); let ghost t0_ = t.val(); let ghost c0_ = c.val(); proof {{ assert(p2(0) == 1) by(compute_only); assert(xp(t0_, 1) == t0_) by {{ reveal_with_fuel(mpow, 2); lemma_fmul_one_r(t0_); }} }}",
                     1: "broadcast use fq_abs; let ghost b0_ = b.val();"},
        loops_end={0: f"lemma_ts_step({XV}, z0_, t0_, c0_, i as nat, xp(t0_, p2((i - 2) as nat) as nat), z.val(), c.val(), t.val());",
                   1: f"""let e_ = p2((_j - 1) as nat) as nat;
                          lemma_p2_nat((_j - 1) as nat); lemma_p2_add((_j - 1) as nat, 1); assert(p2(1) == 2) by(compute_only);
                          assert(((_j - 1) as nat) + 1 == _j as nat);
                          assert(p2(_j as nat) == e_ + e_);
                          lemma_mpow_add(fq_p(), t.val(), e_, e_);
                          assert(b.val() == fmul(b0_, b0_));
                          assert(b.val() == xp(t.val(), p2(_j as nat) as nat));"""},
        before_tail=f"""assert(p2(0) == 1) by(compute_only);
                        assert(xp(t.val(), 1) == t.val()) by {{ reveal_with_fuel(mpow, 2); lemma_fmul_one_r(t.val()); }}
                        lemma_fmul_one_r({XV});""")]))
    items.append(Item("src/fields/fq.rs", "impl Fq", [Fn("TRACE_MINUS_ONE_DIV_TWO_LIMBS", as_const=True, props=("C09", "C17"),
                      ensures="limbs_val(Fq::TRACE_MINUS_ONE_DIV_TWO_LIMBS@) == ((M_() - 1) / 2) as nat", preamble="reveal_with_fuel(limbs_val, 6);")]))
    items.append(Item("src/fields/fq.rs", "impl Fq", [Fn("TWO_ADICITY", as_const=True, props=("C09", "C17"), ensures="Fq::TWO_ADICITY == 47")]))
    items.append(Item("src/fields/fq.rs", "impl Fq", [Fn("MODULUS_MINUS_ONE_DIV_TWO_LIMBS", as_const=True, props=("C09", "C17"),
                      ensures="limbs_val(Fq::MODULUS_MINUS_ONE_DIV_TWO_LIMBS@) == QM1H()", preamble="reveal_with_fuel(limbs_val, 6);")]))
    items.append(Item(INV, "impl Fq", [Fn(
        "non_arkworks_sqrt_ratio_zeta", props=("C09", "C12"),
        ensures="isqrt_ok(num.val(), den.val(), r.0, r.1.val())",
        preamble=bu + """ proof { if num.val() != 0 && den.val() != 0 {
                let x = fmul(num.val(), finv(den.val()));
                m_prime_fermat(den.val());
                lemma_cancel(num.val(), finv(den.val()), den.val());
                if x == 0 { m_prime_no_zero_div(num.val(), finv(den.val())); assert(fmul(den.val(), 0) == 0); }
                m_prime_euler(x);
                lemma_fmul_assoc(ZETA_(), x, den.val());
                assert(fmul(ZETA_(), 1) == ZETA_());
                assert(x != 0);
                if fmul(ZETA_(), x) == 0 { m_prime_no_zero_div(ZETA_(), x); }
                assert(fmul(ZETA_(), x) != 0);
            } }""")]))
    u = Unit(name="min_invsqrt",
             preludes=base_preludes() + [("subtle.rs", None), ("curve_spec.rs", None), ("ladder_lemmas.rs", None), ("pow_lemmas.rs", None), ("sarkar_lemmas.rs", _sk), ("ts_lemmas.rs", None)],
             items=items, lemmas=lem + INVSQRT_LEMMAS + """
// QUADRATIC_NON_RESIDUE_TO_TRACE has order exactly 2^47: its 2^46-th power is -1 (unit consts, c17_fq_QNR_TO_TRACE, on the source literal)
impl Fq {
    #[verifier::external_body]
    pub exec const QUADRATIC_NON_RESIDUE_TO_TRACE: Fq ensures xp(Fq::QUADRATIC_NON_RESIDUE_TO_TRACE.val(), 70368744177664) == M1_() { Fq::dummy_() }
}
#[verifier::external_body]
pub exec const ZETA: Fq ensures ZETA.val() == ZETA_() { Fq::dummy_() }
""", params=fq)
    u.ufcs_fns = ("pow_le_limbs",)
    return u


def unit(which):
    return {"element": element_unit, "invsqrt": invsqrt_unit}[which]()
