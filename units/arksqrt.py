"""U(ark_invsqrt): src/ark_curve/invsqrt.rs -- the table-driven square root of a ratio (Sarkar 2020) of the default build.
Proved for ALL num, den: no lookup misses, no index out of bounds, no overflow, and the four-case contract `isqrt_ok`.
The discrete-log walk is proved from the table invariant, exponent laws of mpow (proved), Fermat / no zero divisors
(M-PRIME) and -- for the completeness of the lookup table -- M-ROOTS8 (every 256th root of unity of Fq is an inverse
power of h = g^(2^39); a statement about the constants q and g only)."""
from vx.extract import Fn, Item, Unit
from .fieldc import field_params
from . import ops as opsmod
from .arkcurve import base_preludes

INV = "src/ark_curve/invsqrt.rs"
ZETA = 2841681278031794617739547238867782961338435681360110683443920362658525667816


def _zz_from_source():
    """the literal of ZETA_TO_ONE_MINUS_M_DIV_TWO in src/ark_curve/constants.rs (re-read on every run)"""
    import re
    from vx.extract import src
    from vx.rsscan import LostAnchor
    it = src("src/ark_curve/constants.rs").find_const(None, "ZETA_TO_ONE_MINUS_M_DIV_TWO")
    m = re.search(r'"(\d+)"', it.text)
    if not m:
        raise LostAnchor("no decimal literal in ZETA_TO_ONE_MINUS_M_DIV_TWO")
    return int(m.group(1))

STD = r"""
// ---- stand-ins (A-ARK-1 / A-STD) for what invsqrt.rs uses
pub trait BigVal { spec fn big_val(&self) -> nat; }
#[derive(Clone, Copy)]
pub struct BigInteger256 { pub l: [u64; 4] }
#[derive(Clone, Copy)]
pub struct BigInteger64 { pub l: [u64; 1] }
pub uninterp spec fn big256_val(b: BigInteger256) -> nat;
pub uninterp spec fn big64_val(b: BigInteger64) -> nat;
impl BigVal for BigInteger256 { open spec fn big_val(&self) -> nat { big256_val(*self) } }
impl BigVal for BigInteger64 { open spec fn big_val(&self) -> nat { big64_val(*self) } }
impl BigInteger256 {
    // <BigInteger256 as From<u64>>::from  (`(e).into()` is this call, std blanket impl)
    #[verifier::external_body]
    pub fn from(v: u64) -> (r: BigInteger256) ensures big256_val(r) == v as nat { unimplemented!() }
}
impl BigInteger64 {
    #[verifier::external_body]
    pub fn from(v: u64) -> (r: BigInteger64) ensures big64_val(r) == v as nat { unimplemented!() }
}
impl Fq {
    // ark_ff::Field::pow (generic square-and-multiply over the limbs of the exponent, A-ARK-1)
    #[verifier::external_body]
    pub fn pow<S: BigVal>(&self, exp: S) -> (r: Fq) ensures r.val() == xp(self.val(), exp.big_val()) { unimplemented!() }
}
// u64::pow for base 2 (A-STD); panics on overflow in debug builds, hence the bound
#[verifier::external_body]
pub fn pow2_u64(e: u32) -> (r: u64) requires e < 64 ensures r as int == p2(e as nat) { unimplemented!() }
// `pub static N: u32 = 47; pub static SQRT_W: u32 = 8;` (values checked in unit consts: c17_ark_N, c17_ark_SQRT_W)
pub const SQRT_N: u32 = 47;
pub const SQRT_W: u32 = 8;
// hashbrown::HashMap<Fq, u64>: a finite map keyed by the field value (Hash/Eq of Fq are by value: C08/C11)
#[verifier::external_body]
pub struct FqU64Map { _p: u8 }
pub uninterp spec fn fqmap_view(m: FqU64Map) -> Map<int, u64>;
impl FqU64Map {
    pub open spec fn view(&self) -> Map<int, u64> { fqmap_view(*self) }
    #[verifier::external_body]
    pub fn new() -> (r: FqU64Map) ensures r@ == Map::<int, u64>::empty() { unimplemented!() }
    #[verifier::external_body]
    pub fn insert(&mut self, k: Fq, v: u64) -> (r: Option<u64>) ensures final(self)@ == old(self)@.insert(k.val(), v) { unimplemented!() }
    // `map[&k]`: panics when the key is absent
    #[verifier::external_body]
    pub fn index_(&self, k: &Fq) -> (r: u64) requires self@.contains_key(k.val()) ensures r == self@[k.val()] { unimplemented!() }
}
// proved helpers the index expressions are rewritten to (R26): the body IS the original expression
pub fn byte_at(t: u64, k: u64) -> (r: usize)
    requires k < 64
    ensures r as u64 == ((t >> k) & 0xFF), r < 256
{
    assert(((t >> k) & 0xFF) < 256) by(bit_vector);
    ((t >> k) & 0xFF) as usize
}
pub fn bit0(t: u64) -> (r: usize) ensures r as u64 == (t & 0b1), r < 2, r as int == (t as int) % 2
{
    assert((t & 0b1) < 2) by(bit_vector);
    assert((t & 0b1) == t % 2) by(bit_vector);
    (t & 0b1) as usize
}
// ---- the table invariant (established by SquareRootTables::new)
pub open spec fn tab_ok(tab: Seq<Fq>, w: nat) -> bool {
    tab.len() == 256 && forall|j: int| 0 <= j < 256 ==> (#[trigger] tab[j]).val() == gp((j * w) as nat)
}
pub open spec fn slook_ok(m: Map<int, u64>) -> bool {
    // soundness of every entry: key * h^value == 1, value one byte
    (forall|x: int| #[trigger] m.contains_key(x) ==> m[x] < 256 && fmul(x, gp((m[x] as nat) * 549755813888)) == 1)
    // completeness: every 256th root of unity is a key
    && (forall|x: int| in_fq(x) && #[trigger] xp(x, 256) == 1 ==> m.contains_key(x))
}
pub open spec fn tables_ok(t: SquareRootTables) -> bool {
    slook_ok(t.s_lookup@) && t.nonsquare_lookup@[0].val() == 1 && t.nonsquare_lookup@[1].val() == ZZ_()
    && tab_ok(t.g0@, 1) && tab_ok(t.g8@, 256) && tab_ok(t.g16@, 65536) && tab_ok(t.g24@, 16777216)
    && tab_ok(t.g32@, 4294967296) && tab_ok(t.g40@, 1099511627776)
}
pub mod lazy {
    use super::*;
    // `static SQRT_LOOKUP_TABLES: Lazy<SquareRootTables> = Lazy::new(|| SquareRootTables::new())`
    #[verifier::external_body]
    pub fn SQRT_LOOKUP_TABLES() -> (r: &'static SquareRootTables) ensures tables_ok(*r) { unimplemented!() }
    // `G = ZETA.pow(*M)`: the literal G_() is zeta^M (lemma_g_is_zeta_m below, by compute; M checked in unit consts)
    #[verifier::external_body]
    pub fn G() -> (r: Fq) ensures r.val() == G_() { unimplemented!() }
    #[verifier::external_body]
    pub fn ONE() -> (r: Fq) ensures r.val() == 1 { unimplemented!() }
    // literal re-read from src/ark_curve/constants.rs on every run (and related to zeta in unit consts)
    #[verifier::external_body]
    pub fn ZETA_TO_ONE_MINUS_M_DIV_TWO() -> (r: Fq) ensures r.val() == ZZ_() { unimplemented!() }
    // values checked in unit consts (c17_ark_M_MINUS_ONE_DIV_TWO)
    #[verifier::external_body]
    pub fn M_MINUS_ONE_DIV_TWO() -> (r: BigInteger256) ensures big256_val(r) == ((M_() - 1) / 2) as nat { unimplemented!() }
}
pub proof fn lemma_g_is_zeta_m() ensures mpow(fq_p(), ZETA_(), M_()) == G_() { assert(mpow(fq_p(), ZETA_(), M_()) == G_()) by(compute_only); }
// `v.into_boxed_slice().try_into().unwrap()`: Vec<T> -> Box<[T]> -> Box<[T; 256]>; panics unless the length is 256 (A-STD)
#[verifier::external_body]
pub fn vec_to_boxed_array(v: Vec<Fq>) -> (r: Box<[Fq; 256]>) requires v@.len() == 256 ensures r@ == v@ { unimplemented!() }
// M-ROOTS8: h = g^(2^39) is a primitive 256th root of unity of the cyclic group Fq^*, so every 256th root of unity is
// an inverse power of h.  A statement about the constants q and g only.
pub axiom fn m_roots8(x: int)
    requires in_fq(x), xp(x, 256) == 1
    ensures exists|nu: int| 0 <= nu < 256 && #[trigger] fmul(x, gp((nu * 549755813888) as nat)) == 1;
// x * a == 1 and k * a == 1  ==>  x == k
pub proof fn lemma_inv_unique(x: int, k: int, a: int)
    requires in_fq(x), in_fq(k), fmul(x, a) == 1, fmul(k, a) == 1
    ensures x == k
{
    // x == x (k a) == (x a) k == k
    lemma_fmul_assoc_(x, k, a); lemma_fmul_comm_(x, k); lemma_fmul_assoc_(k, x, a);
    lemma_fmul_one_r(x); lemma_fmul_one_r(k);
    lemma_fmul_comm_(k, a); lemma_fmul_comm_(x, a);
    lemma_fmul_assoc_(x, a, k); lemma_fmul_assoc_(k, a, x);
    assert(fmul(fmul(x, a), k) == fmul(1, k));
    assert(fmul(fmul(k, a), x) == fmul(1, x));
    lemma_fmul_comm_(a, k); lemma_fmul_comm_(a, x);
    assert(fmul(x, fmul(a, k)) == fmul(x, 1));
}
pub open spec fn hinv(j: int) -> int { mpow(fq_p(), gp((j * 549755813888) as nat), (fq_p() - 2) as nat) }
// table products: (x * g^(b0 w0)) * g^(b1 w1) ... == x * g^(sum)
pub proof fn lemma_tab2(x: int, e0: nat, e1: nat) ensures fmul(fmul(x, gp(e0)), gp(e1)) == fmul(x, gp(e0 + e1)) { lemma_chain(x, e0, e1); }
pub proof fn lemma_tab3(x: int, e0: nat, e1: nat, e2: nat) ensures fmul(fmul(fmul(x, gp(e0)), gp(e1)), gp(e2)) == fmul(x, gp(e0 + e1 + e2))
{ lemma_chain(x, e0, e1); lemma_chain(x, e0 + e1, e2); }
pub proof fn lemma_tab4(x: int, e0: nat, e1: nat, e2: nat, e3: nat)
    ensures fmul(fmul(fmul(fmul(x, gp(e0)), gp(e1)), gp(e2)), gp(e3)) == fmul(x, gp(e0 + e1 + e2 + e3))
{ lemma_tab3(x, e0, e1, e2); lemma_chain(x, e0 + e1 + e2, e3); }
pub proof fn lemma_tab5(x: int, e0: nat, e1: nat, e2: nat, e3: nat, e4: nat)
    ensures fmul(fmul(fmul(fmul(fmul(x, gp(e0)), gp(e1)), gp(e2)), gp(e3)), gp(e4)) == fmul(x, gp(e0 + e1 + e2 + e3 + e4))
{ lemma_tab4(x, e0, e1, e2, e3); lemma_chain(x, e0 + e1 + e2 + e3, e4); }
pub proof fn lemma_tab6(x: int, e0: nat, e1: nat, e2: nat, e3: nat, e4: nat, e5: nat)
    ensures fmul(fmul(fmul(fmul(fmul(fmul(x, gp(e0)), gp(e1)), gp(e2)), gp(e3)), gp(e4)), gp(e5)) == fmul(x, gp(e0 + e1 + e2 + e3 + e4 + e5))
{ lemma_tab5(x, e0, e1, e2, e3, e4); lemma_chain(x, e0 + e1 + e2 + e3 + e4, e5); }
// byte decomposition of the digit accumulator
pub proof fn lemma_bytes_of(t: u64)
    ensures t < 0x1_0000 ==> t == (t & 0xFF) + ((t >> 8) & 0xFF) * 0x100,
            t < 0x100_0000 ==> t == (t & 0xFF) + ((t >> 8) & 0xFF) * 0x100 + ((t >> 16) & 0xFF) * 0x1_0000,
            t < 0x1_0000_0000 ==> t == (t & 0xFF) + ((t >> 8) & 0xFF) * 0x100 + ((t >> 16) & 0xFF) * 0x1_0000 + ((t >> 24) & 0xFF) * 0x100_0000,
            t < 0x100_0000_0000 ==> t == (t & 0xFF) + ((t >> 8) & 0xFF) * 0x100 + ((t >> 16) & 0xFF) * 0x1_0000 + ((t >> 24) & 0xFF) * 0x100_0000
                                        + ((t >> 32) & 0xFF) * 0x1_0000_0000,
            t < 0x1_0000_0000_0000 ==> t == (t & 0xFF) + ((t >> 8) & 0xFF) * 0x100 + ((t >> 16) & 0xFF) * 0x1_0000 + ((t >> 24) & 0xFF) * 0x100_0000
                                        + ((t >> 32) & 0xFF) * 0x1_0000_0000 + ((t >> 40) & 0xFF) * 0x100_0000_0000,
            t < 0x100 ==> (t & 0xFF) == t, (t >> 0) == t,
{
    assert(t < 0x1_0000 ==> t == (t & 0xFF) + ((t >> 8) & 0xFF) * 0x100) by(bit_vector);
    assert(t < 0x100_0000 ==> t == (t & 0xFF) + ((t >> 8) & 0xFF) * 0x100 + ((t >> 16) & 0xFF) * 0x1_0000) by(bit_vector);
    assert(t < 0x1_0000_0000 ==> t == (t & 0xFF) + ((t >> 8) & 0xFF) * 0x100 + ((t >> 16) & 0xFF) * 0x1_0000 + ((t >> 24) & 0xFF) * 0x100_0000) by(bit_vector);
    assert(t < 0x100_0000_0000 ==> t == (t & 0xFF) + ((t >> 8) & 0xFF) * 0x100 + ((t >> 16) & 0xFF) * 0x1_0000 + ((t >> 24) & 0xFF) * 0x100_0000
                                        + ((t >> 32) & 0xFF) * 0x1_0000_0000) by(bit_vector);
    assert(t < 0x1_0000_0000_0000 ==> t == (t & 0xFF) + ((t >> 8) & 0xFF) * 0x100 + ((t >> 16) & 0xFF) * 0x1_0000 + ((t >> 24) & 0xFF) * 0x100_0000
                                        + ((t >> 32) & 0xFF) * 0x1_0000_0000 + ((t >> 40) & 0xFF) * 0x100_0000_0000) by(bit_vector);
    assert(t < 0x100 ==> (t & 0xFF) == t) by(bit_vector);
    assert((t >> 0) == t) by(bit_vector);
}
pub proof fn lemma_shl_digit(q: u64)
    requires q < 256
    ensures (q << 7) == q * 0x80, (q << 15) == q * 0x8000, (q << 23) == q * 0x80_0000, (q << 31) == q * 0x8000_0000, (q << 39) == q * 0x80_0000_0000,
{
    assert(q < 256 ==> (q << 7) == q * 0x80) by(bit_vector);
    assert(q < 256 ==> (q << 15) == q * 0x8000) by(bit_vector);
    assert(q < 256 ==> (q << 23) == q * 0x80_0000) by(bit_vector);
    assert(q < 256 ==> (q << 31) == q * 0x8000_0000) by(bit_vector);
    assert(q < 256 ==> (q << 39) == q * 0x80_0000_0000) by(bit_vector);
}
pub proof fn lemma_parity_(a: int, q: int, k: int) ensures (a + q * (2 * k)) % 2 == a % 2
{
    assert(q * (2 * k) == 2 * (q * k)) by(nonlinear_arith);
    vstd::arithmetic::div_mod::lemma_mod_multiples_vanish(q * k, a, 2);
}
pub proof fn lemma_half2(tt: int, t: int) requires tt >= 0, t == (tt + 1) / 2 ensures 2 * t == (if tt % 2 == 1 { tt + 1 } else { tt })
{ }
pub proof fn lemma_half(t: u64) requires t < 0x1_0000_0000_0000 ensures ((t + 1) as u64 >> 1) as int == (t as int + 1) / 2
{ assert(t < 0x1_0000_0000_0000 ==> ((t + 1) as u64 >> 1) == (t + 1) as u64 / 2) by(bit_vector); }
#[verifier::external_body]
pub exec const ZETA: Fq ensures ZETA.val() == ZETA_() { Fq::dummy_() }
"""


def unit():
    fq = dict(field_params("fq"))
    P = fq["P"]
    M = (P - 1) >> 47
    fq["G"] = pow(ZETA, M, P)
    fq["M"] = M
    fq["ZZ"] = _zz_from_source()
    stubs, lem = opsmod.stub_items("fq")
    items = list(stubs)
    items.append(Item("src/fields/fq/arkworks.rs", "impl Zero for Fq", [Fn("is_zero", ensures="r == (self.val() == 0)")],
                      mode="stub", proved_in="fieldx_fq", header_out="impl Fq"))
    bu = "broadcast use fq_abs;"
    X = "x5.val()"
    # proof text attached behind named statements (R27: `let NAME = ..;` anchors; a renamed local loses the anchor -> undecided)
    def after(stmt_rx, proof):
        return ("R27", "(" + stmt_rx + ")", r"\1 proof { " + proof.replace("\\", "\\\\") + " }")
    keyhint = lambda c, tprev: f"lemma_key_root({X}, {c[0]}, {c[1]}, {tprev} as nat);"
    subst = [
        ("R6", r'SQRT_LOOKUP_TABLES\.s_lookup\[\s*&(\w+)\s*\]', r'tabs_.s_lookup.index_(&\1)'),
        ("R3", r'\bSQRT_LOOKUP_TABLES\.', 'tabs_.'),
        ("R26", r'\(\s*(\w+)\s*&\s*0xFF\s*\)\s*as\s+usize', r'byte_at(\1, 0)'),
        ("R26", r'\(\s*\(\s*(\w+)\s*>>\s*(\d+)\s*\)\s*&\s*0xFF\s*\)\s*as\s+usize', r'byte_at(\1, \2)'),
        ("R26", r'\(\s*(\w+)\s*&\s*0b1\s*\)\s*as\s+usize', r'bit0(\1)'),
        ("R6", r'\b2u64\.pow\(', 'pow2_u64('),
        ("R6", r'(:\s*BigInteger(256|64)\s*=\s*)\(?((?:[^;()]|\([^;()]*\))*?)\)?\.into\(\)\s*;', r'\1BigInteger\2::from(\3);'),
        # ---- proof text
        after(r'let x5 = [^;]*;', f"""
            lemma_p2_nat(47); assert(p2(47) == 140737488355328) by(compute_only);
            lemma_x5_sylow(num.val(), den.val(), s.val(), fmul(num.val(), t.val()), xp(fmul(num.val(), t.val()), ((M_() - 1) / 2) as nat), w.val(), x5.val());
            assert(v.val() == fmul(w.val(), den.val())); assert(uv.val() == fmul(w.val(), num.val()));"""),
        after(r'let x0 = [^;]*;', f"""
            let p_ = fq_p();
            assert(p2(8) == 256 && p2(7) == 128 && p2(16) == 65536 && p2(24) == 16777216 && p2(32) == 4294967296 && p2(39) == 549755813888 && p2(47) == 140737488355328 && p2(0) == 1 && p2(15) == 32768 && p2(23) == 8388608 && p2(31) == 2147483648) by(compute_only);
            lemma_mpow_mul(p_, {X}, 256, 256); lemma_mpow_mul(p_, {X}, 65536, 256); lemma_mpow_mul(p_, {X}, 16777216, 256); lemma_mpow_mul(p_, {X}, 4294967296, 128);
            assert(x4.val() == xp({X}, 256) && x3.val() == xp({X}, 65536) && x2.val() == xp({X}, 16777216) && x1.val() == xp({X}, 4294967296) && x0.val() == xp({X}, 549755813888));
            assert(xp({X}, 1) == {X}) by {{ reveal_with_fuel(mpow, 2); lemma_fmul_one_r({X}); }}
            // level 47 holds with no digits: x5^(2^47) * g^0 == 1
            assert(gp(0) == 1) by {{ reveal_with_fuel(mpow, 1); }}
            assert(fmul(1, 1) == 1);
            assert(inv_c({X}, 47, 0)) by {{ assert(p2(47) * 0 == 0); }}
            lemma_key_root({X}, 47, 39, 0);
            assert(key_c({X}, 39, 0) == x0.val()) by {{ assert(p2(39) * 0 == 0); lemma_xp_range({X}, 549755813888); lemma_fmul_one_r(x0.val()); }}"""),
        after(r'let q0_prime = [^;]*;', "lemma_shl_digit(q0_prime);"),
        after(r'let mut t = q0_prime;', f"""
            lemma_key_post({X}, 39, 0, q0_prime as nat, q0_prime as nat);
            lemma_bytes_of(t);"""),
    ]
    # steps 1..5: key_i = x_i * (tables at the bytes of t)  ==  key_c(x5, c_i, t);  root of unity => lookup hits;  new digit
    W = [1, 256, 65536, 16777216, 4294967296, 1099511627776]
    levels = [(1, 39, 32, "x1", "q1_prime", 7), (2, 32, 24, "x2", "q2", 15), (3, 24, 16, "x3", "q3", 23), (4, 16, 8, "x4", "q4", 31), (5, 8, 0, "x5", "q5", 39)]
    def bytes_expr(nb):
        return ["(t & 0xFF)"] + [f"((t >> {8 * k}) & 0xFF)" for k in range(1, nb)]
    for (i_, cp, c, xi, qi, sh) in levels:
        nb = i_
        bs = bytes_expr(nb)
        ws = [W[(c // 8) + k] for k in range(nb)]           # table weights g_c, g_{c+8}, ...
        es = [f"(({b}) as nat) * {w}" for b, w in zip(bs, ws)]
        tab = "" if nb == 1 else f"lemma_tab{nb}({xi}.val(), {', '.join(es)});"
        dec = " + ".join(f"{b} * {hex(256 ** k)}" for k, b in enumerate(bs)) if nb > 1 else "(t & 0xFF)"
        summ = " + ".join(es)
        subst.append(after(rf'let alpha_{i_} = [^;]*;', f"""
            {tab}
            assert({2 ** c} * (t as nat) == {summ}) by(nonlinear_arith) requires t == {dec};
            assert(alpha_{i_}.val() == key_c({X}, {c}, t as nat));
            lemma_key_root({X}, {cp}, {c}, t as nat);"""))
        subst.append(("R27", rf'(let {qi} = tabs_\.s_lookup\.index_\(&alpha_{i_}\);)', rf"\1 let ghost t_prev{i_}_ = t; proof {{ lemma_shl_digit({qi}); }}"))
        subst.append(after(rf't \+= {qi} << {sh};', f"""
            lemma_key_post({X}, {c}, t_prev{i_}_ as nat, {qi} as nat, t as nat); lemma_bytes_of(t);
            lemma_parity_(t_prev{i_}_ as int, {qi} as int, {2 ** (sh - 1)});
            assert((t as int) % 2 == (q0_prime as int) % 2);"""))
    # final: t = (T5 + 1) >> 1, res = uv * ns[q0 & 1] * g0[..] * .. * g40[..]
    bs6 = bytes_expr(6)
    es6 = [f"(({b}) as nat) * {w}" for b, w in zip(bs6, W)]
    subst.append(after(r't = \(t \+ 1\) >> 1;', "lemma_bytes_of(t);"))
    subst.insert(0, ("R27", r'(t = \(t \+ 1\) >> 1;)', r'let ghost tt_ = t; proof { lemma_half(t); } \1'))
    subst.append(after(r'let res: Fq = [^;]*;', f"""
            assert((q0_prime & 0b1) == q0_prime % 2) by(bit_vector);
            assert((tt_ as int) % 2 == (q0_prime as int) % 2);
            lemma_half2(tt_ as int, t as int);
            assert(2 * (t as int) == (if (q0_prime as int) % 2 == 1 {{ tt_ as int + 1 }} else {{ tt_ as int }}));
            let ns_ = tabs_.nonsquare_lookup@[(q0_prime as int) % 2].val();
            assert(res.val() == fmul(fmul(fmul(fmul(fmul(fmul(fmul(uv.val(), ns_), gp(((t & 0xFF) as nat) * 1)), gp((((t >> 8) & 0xFF) as nat) * 256)), gp((((t >> 16) & 0xFF) as nat) * 65536)),
                gp((((t >> 24) & 0xFF) as nat) * 16777216)), gp((((t >> 32) & 0xFF) as nat) * 4294967296)), gp((((t >> 40) & 0xFF) as nat) * 1099511627776)));
            lemma_tab6(fmul(uv.val(), ns_), {', '.join(es6)});
            assert((t as nat) == {' + '.join(es6)}) by(nonlinear_arith) requires t == {' + '.join(f'{b} * {hex(256 ** k)}' for k, b in enumerate(bs6))};
            assert(key_c({X}, 0, tt_ as nat) == fmul({X}, gp(tt_ as nat))) by {{ assert(p2(0) * (tt_ as nat) == tt_ as nat); reveal_with_fuel(mpow, 2); lemma_fmul_one_r({X}); }}
            lemma_sarkar_result(num.val(), den.val(), w.val(), {X}, tt_ as nat, t as nat, ns_, res.val(), (q0_prime as int) % 2 == 1);"""))
    subst_dummy = [
    ]
    items.append(Item(INV, "impl Fq", [Fn(
        "sqrt_ratio_zeta", props=("C09", "C12"),
        ensures="isqrt_ok(num.val(), den.val(), r.0, r.1.val())",
        preamble=bu + " let tabs_ = lazy::SQRT_LOOKUP_TABLES(); proof { lemma_p2_nat(47); }",
        subst=subst)]))
    Wn = [1, 256, 65536, 16777216, 4294967296, 1099511627776]
    loops = {0: """invariant
                forall|x: int| #[trigger] s_lookup@.contains_key(x) ==> s_lookup@[x] < 256 && fmul(x, gp((s_lookup@[x] as nat) * 549755813888)) == 1,
                forall|j: int| 0 <= j < nu ==> s_lookup@.contains_key(#[trigger] hinv(j)),"""}
    loops_begin = {0: "broadcast use fq_abs; proof { lemma_p2_nat(39); assert(p2(39) == 549755813888) by(compute_only); }"}
    loops_end = {}
    newhint = ("R27", r'(let g_inv = [^;]*;)', r"""\1 proof { let e_ = ((nu as nat) * 549755813888) as nat;
                let ge_ = gp(e_);
                assert(nu * 549755813888 < 0x1_0000_0000_0000);
                lemma_xp_nonzero(G_(), e_); m_prime_fermat_(ge_); lemma_fmul_comm_(ge_, hinv(nu as int));
                lemma_xp_range(ge_, (fq_p() - 2) as nat);
                assert(g_inv.val() == ge_);
                assert(fmul(hinv(nu as int), ge_) == 1); }""")
    for k_, w_ in enumerate(Wn):
        prev = " && ".join([f"gtab@.len() == {k_}"] + [f"tab_ok(gtab@[{i}]@, {Wn[i]})" for i in range(k_)])
        loops[k_ + 1] = f"""invariant gtab_i@.len() == nu as int, {prev}, power_of_two == {8 * k_},
                forall|j: int| 0 <= j < nu ==> (#[trigger] gtab_i@[j]).val() == gp((j * {w_}) as nat),"""
        loops_begin[k_ + 1] = f"broadcast use fq_abs; proof {{ lemma_p2_nat({8 * k_}); assert(p2({8 * k_}) == {w_}) by(compute_only); }}"
    items.append(Item(INV, "impl SquareRootTables", [Fn(
        "new", props=("C09",),
        ensures="tables_ok(r)",
        preamble=bu + " proof { lemma_g_is_zeta_m(); }",
        unroll=[1],
        loops=loops, loops_begin=loops_begin, loops_end=loops_end,
        subst=[newhint, ("R7", r'\bHashMap::new\(\)', 'FqU64Map::new()'),
               ("R3", r'\bG\.pow\(', 'lazy::G().pow('),
               ("R6", r'\b2u64\.pow\(', 'pow2_u64('),
               ("R6", r'(:\s*BigInteger(256|64)\s*=\s*)\(?((?:[^;()]|\([^;()]*\))*?)\)?\.into\(\)\s*;', r'\1BigInteger\2::from(\3);'),
               ("R6", r'(\w+)\.pop\(\)\.unwrap\(\)\.into_boxed_slice\(\)\.try_into\(\)\.unwrap\(\)', r'vec_to_boxed_array(\1.pop().unwrap())'),
               ("R6", r'\.expect\("[^"]*"\)', '.unwrap()')],
        epilogue="""
            assert forall|x: int| in_fq(x) && #[trigger] xp(x, 256) == 1 implies r_.s_lookup@.contains_key(x) by {
                m_roots8(x);
                let nu = choose|nu: int| 0 <= nu < 256 && #[trigger] fmul(x, gp((nu * 549755813888) as nat)) == 1;
                let ge_ = gp((nu * 549755813888) as nat);
                lemma_xp_nonzero(G_(), (nu * 549755813888) as nat); m_prime_fermat_(ge_); lemma_fmul_comm_(ge_, hinv(nu));
                lemma_xp_range(ge_, (fq_p() - 2) as nat);
                lemma_inv_unique(x, hinv(nu), ge_);
            }""")]))
    u = Unit(name="ark_invsqrt",
             preludes=base_preludes() + [("curve_spec.rs", None), ("ladder_lemmas.rs", None), ("pow_lemmas.rs", None), ("sarkar_lemmas.rs", fq)],
             items=items, lemmas=lem + STD, params=fq, lazy_names=("M_MINUS_ONE_DIV_TWO", "ONE", "ZETA_TO_ONE_MINUS_M_DIV_TWO"),
             global_subst=[("R17", r'\bN\b', 'SQRT_N')])       # the imported static `N` clashes with the limb count of the field prelude
    u.raw = [(INV, "struct", "SquareRootTables")]
    u.raw_subst = [("R7", r'HashMap<Fq, u64>', 'FqU64Map'), ("R17", r'^\s*struct SquareRootTables', 'pub struct SquareRootTables')]
    return u
