use vstd::prelude::*;
verus! {
pub open spec fn Q() -> int { 8444461749428370424248824938781546531375899335154063827935233455917409239041int }
pub open spec fn RR() -> nat { 2111115437357092606062206234695386632838870926408408195193685246394721360383nat }
pub struct P4 { pub x: int, pub y: int, pub z: int, pub t: int }
pub open spec fn m(a:int)->int { a % Q() }
pub open spec fn padd(p: P4, q: P4) -> P4 {
    let a = m((p.y - p.x) * (q.y - q.x));
    let b = m((p.y + p.x) * (q.y + q.x));
    let c = m(m(6042 * p.t) * q.t);
    let d = m(2 * p.z * q.z);
    let e = b - a; let f = d - c; let g = d + c; let h = b + a;
    P4 { x: m(e*f), y: m(g*h), z: m(f*g), t: m(e*h) }
}
pub open spec fn smul(k: nat, p: P4) -> P4 decreases k {
    if k == 0 { P4{x:0,y:1,z:1,t:0} } else if k % 2 == 0 { let h = smul(k/2, p); padd(h,h) } else { padd(p, smul((k-1) as nat, p)) }
}
pub open spec fn G() -> P4 {
  let x = 0x0int; // placeholder replaced below
  P4 { x: 1int, y: 1int, z: 1, t: 1 }
}
proof fn order() {
    let g = P4 { x: 4959445789346820725352484487855828915252512307947624787834978378872129235627int, y: 6060471950081851567114691557659790004756535011754163002297540472747064943288int, z: 1, t: m(4959445789346820725352484487855828915252512307947624787834978378872129235627int * 6060471950081851567114691557659790004756535011754163002297540472747064943288int) };
    assert(smul(RR(), P4 { x: 4959445789346820725352484487855828915252512307947624787834978378872129235627int, y: 6060471950081851567114691557659790004756535011754163002297540472747064943288int, z: 1, t: m(4959445789346820725352484487855828915252512307947624787834978378872129235627int * 6060471950081851567114691557659790004756535011754163002297540472747064943288int) }).x == 0) by(compute_only);
}
}
fn main(){}
