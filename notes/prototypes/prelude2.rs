use vstd::prelude::*;
use vstd::std_specs::ops::*;
use core::ops::{Add, AddAssign, Div, DivAssign, Mul, MulAssign, Neg, Sub, SubAssign};
verus! {

pub open spec fn Q() -> int { 8444461749428370424248824938781546531375899335154063827935233455917409239041int }

#[verifier::external_body]
#[derive(Copy, Clone)]
pub struct Fq { v: [u64; 4] }

pub uninterp spec fn fq_val(a: Fq) -> int;
pub uninterp spec fn fq_of(v: int) -> Fq;
pub broadcast axiom fn fq_canon(a: Fq)
    ensures #[trigger] fq_of(fq_val(a)) == a, 0 <= #[trigger] fq_val(a) < Q();
pub broadcast axiom fn fq_canon2(v: int)
    requires 0 <= v < Q()
    ensures #[trigger] fq_val(fq_of(v)) == v;

// abstract field operations on canonical ints
pub open spec fn fadd(a: int, b: int) -> int { (a + b) % Q() }
pub open spec fn fsub(a: int, b: int) -> int { (a - b) % Q() }
pub open spec fn fmul(a: int, b: int) -> int { (a * b) % Q() }
pub open spec fn fneg(a: int) -> int { (-a) % Q() }

impl Fq {
    pub open spec fn val(self) -> int { fq_val(self) }
    #[verifier::external_body]
    pub const ZERO: Fq  = Fq { v: [0;4] };
    #[verifier::external_body]
    pub const ONE: Fq  = Fq { v: [1,0,0,0] };
    #[verifier::external_body]
    pub fn square(&self) -> (r: Fq) ensures r == fq_of(fmul(self.val(), self.val())) { unimplemented!() }
}
pub broadcast axiom fn fq_consts()
    ensures #[trigger] Fq::ZERO.val() == 0, #[trigger] Fq::ONE.val() == 1;

impl AddSpecImpl<Fq> for Fq {
    open spec fn obeys_add_spec() -> bool { true }
    open spec fn add_req(self, rhs: Fq) -> bool { true }
    open spec fn add_spec(self, rhs: Fq) -> Fq { fq_of(fadd(self.val(), rhs.val())) }
}
impl Add<Fq> for Fq { type Output = Fq; #[verifier::external_body] fn add(self, o: Fq) -> Fq { unimplemented!() } }
impl SubSpecImpl<Fq> for Fq {
    open spec fn obeys_sub_spec() -> bool { true }
    open spec fn sub_req(self, rhs: Fq) -> bool { true }
    open spec fn sub_spec(self, rhs: Fq) -> Fq { fq_of(fsub(self.val(), rhs.val())) }
}
impl Sub<Fq> for Fq { type Output = Fq; #[verifier::external_body] fn sub(self, o: Fq) -> Fq { unimplemented!() } }
impl MulSpecImpl<Fq> for Fq {
    open spec fn obeys_mul_spec() -> bool { true }
    open spec fn mul_req(self, rhs: Fq) -> bool { true }
    open spec fn mul_spec(self, rhs: Fq) -> Fq { fq_of(fmul(self.val(), rhs.val())) }
}
impl Mul<Fq> for Fq { type Output = Fq; #[verifier::external_body] fn mul(self, o: Fq) -> Fq { unimplemented!() } }
impl NegSpecImpl for Fq {
    open spec fn obeys_neg_spec() -> bool { true }
    open spec fn neg_req(self) -> bool { true }
    open spec fn neg_spec(self) -> Fq { fq_of(fneg(self.val())) }
}
impl Neg for Fq { type Output = Fq; #[verifier::external_body] fn neg(self) -> Fq { unimplemented!() } }

#[verifier::external_body]
pub const COEFF_K: Fq = Fq { v: [0;4] };
pub broadcast axiom fn k_const() ensures #[trigger] COEFF_K.val() == 6042;
