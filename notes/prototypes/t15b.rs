use vstd::prelude::*;
verus! {
// abstract group of decaf elements (M-GROUP): points modulo spec_eq, written additively
pub struct P4 { pub x: int, pub y: int, pub z: int, pub t: int }
pub uninterp spec fn gadd(a: P4, b: P4) -> P4;      // te_add on representatives
pub uninterp spec fn geq(a: P4, b: P4) -> bool;     // spec_eq (decaf equality)
pub uninterp spec fn valid(a: P4) -> bool;
pub open spec fn gid() -> P4 { P4 { x: 0, y: 1, z: 1, t: 0 } }
pub open spec fn smul(k: nat, p: P4) -> P4 decreases k {
    if k == 0 { gid() } else { gadd(smul((k-1) as nat, p), p) }
}
// group axioms up to geq
pub broadcast axiom fn geq_refl(a: P4) ensures #[trigger] geq(a,a);
pub axiom fn geq_trans(a: P4, b: P4, c: P4) requires geq(a,b), geq(b,c) ensures geq(a,c);
pub axiom fn geq_sym(a: P4, b: P4) requires geq(a,b) ensures geq(b,a);
pub axiom fn gadd_cong(a: P4, b: P4, c: P4, d: P4) requires geq(a,b), geq(c,d), valid(a), valid(b), valid(c), valid(d) ensures geq(gadd(a,c), gadd(b,d));
pub axiom fn gadd_assoc(a: P4, b: P4, c: P4) requires valid(a), valid(b), valid(c) ensures geq(gadd(gadd(a,b),c), gadd(a,gadd(b,c)));
pub axiom fn gadd_id(a: P4) requires valid(a) ensures geq(gadd(a, gid()), a), geq(gadd(gid(), a), a);
pub broadcast axiom fn gadd_valid(a: P4, b: P4) requires valid(a), valid(b) ensures valid(#[trigger] gadd(a,b));
pub broadcast axiom fn gid_valid() ensures #[trigger] valid(gid());

pub proof fn smul_valid(k: nat, p: P4) requires valid(p) ensures valid(smul(k,p)) decreases k {
    broadcast use gadd_valid, gid_valid;
    if k > 0 { smul_valid((k-1) as nat, p); }
}
// smul(a+b) = smul(a) + smul(b)
pub proof fn smul_add(a: nat, b: nat, p: P4) requires valid(p) ensures geq(smul(a+b, p), gadd(smul(a,p), smul(b,p))) decreases b {
    broadcast use gadd_valid, gid_valid, geq_refl;
    smul_valid(a,p); smul_valid(b,p);
    if b == 0 {
        gadd_id(smul(a,p)); geq_sym(gadd(smul(a,p), gid()), smul(a,p));
    } else {
        let b1 = (b-1) as nat;
        smul_add(a, b1, p); smul_valid(b1,p); smul_valid(a+b1,p);
        // smul(a+b) = gadd(smul(a+b1),p) ~ gadd(gadd(sa,sb1),p) ~ gadd(sa, gadd(sb1,p)) = gadd(sa, smul(b))
        gadd_cong(smul(a+b1,p), gadd(smul(a,p),smul(b1,p)), p, p);
        gadd_assoc(smul(a,p), smul(b1,p), p);
        geq_trans(gadd(smul(a+b1,p),p), gadd(gadd(smul(a,p),smul(b1,p)),p), gadd(smul(a,p),gadd(smul(b1,p),p)));
        assert(smul((a+b) as nat, p) == gadd(smul((a+b1) as nat,p),p));
    }
}

#[derive(Clone, Copy)]
pub struct Element { pub r: Ghost<P4> }
pub struct Choice(u8);
impl Choice { pub closed spec fn b(self) -> bool { self.0 == 1 }
  #[verifier::external_body] pub fn from(x: u8) -> (r: Choice) requires x <= 1 ensures r.b() == (x == 1) { Choice(x) } }
impl Element {
    pub closed spec fn repr(self) -> P4 { self.r@ }
    #[verifier::external_body]
    pub fn identity() -> (r: Element) ensures r.repr() == gid() { unimplemented!() }
    #[verifier::external_body]
    pub fn double(self) -> (r: Element) requires valid(self.repr()) ensures valid(r.repr()), geq(r.repr(), gadd(self.repr(), self.repr())) { unimplemented!() }
    #[verifier::external_body]
    pub fn conditional_select(a: &Self, b: &Self, c: Choice) -> (r: Element) ensures r == if c.b() { *b } else { *a } { unimplemented!() }
    #[verifier::external_body]
    pub fn addp(self, o: Element) -> (r: Element) requires valid(self.repr()), valid(o.repr()) ensures valid(r.repr()), geq(r.repr(), gadd(self.repr(), o.repr())) { unimplemented!() }
}
pub open spec fn pow2(n: nat) -> nat decreases n { if n == 0 { 1 } else { 2 * pow2((n-1) as nat) } }
pub open spec fn le_value(s: Seq<u64>) -> nat decreases s.len() {
    if s.len() == 0 { 0 } else { (s[0] as nat) + pow2(64) * le_value(s.subrange(1, s.len() as int)) }
}
// value of the low `nb` bits of the little-endian limb sequence
pub open spec fn low_bits(s: Seq<u64>, nb: nat) -> nat { le_value(s) % pow2(nb) }


pub proof fn pow2_add(a: nat, b: nat) ensures pow2(a+b) == pow2(a) * pow2(b) decreases a {
    if a > 0 { pow2_add((a-1) as nat, b); assert(pow2((a-1+b) as nat) * 2 == pow2((a+b) as nat));
        assert(2 * (pow2((a-1) as nat) * pow2(b)) == (2 * pow2((a-1) as nat)) * pow2(b)) by(nonlinear_arith); }
}
pub proof fn pow2_pos(a: nat) ensures pow2(a) > 0 decreases a { if a > 0 { pow2_pos((a-1) as nat); } }

// double-and-add step, in the abstract group:
// acc ~ smul(k, p), ins ~ smul(w, p)  ==>  gadd(acc, ins) ~ smul(k + w, p);  gadd(ins,ins) ~ smul(2w, p)
pub proof fn step_add(k: nat, w: nat, p: P4, acc: P4, ins: P4, r: P4)
    requires valid(p), valid(acc), valid(ins), geq(acc, smul(k,p)), geq(ins, smul(w,p)), geq(r, gadd(acc, ins))
    ensures geq(r, smul(k+w, p))
{
    smul_valid(k,p); smul_valid(w,p);
    gadd_cong(acc, smul(k,p), ins, smul(w,p));
    smul_add(k, w, p);
    geq_sym(smul(k+w,p), gadd(smul(k,p), smul(w,p)));
    geq_trans(r, gadd(acc,ins), gadd(smul(k,p), smul(w,p)));
    geq_trans(r, gadd(smul(k,p), smul(w,p)), smul(k+w,p));
}

impl Element {
    fn scalar_mul_both<const CT: bool>(self, le_bits: &[u64]) -> (res: Self)
        requires valid(self.repr())
        ensures geq(res.repr(), smul(le_value(le_bits@), self.repr()))
    {
        broadcast use gid_valid, geq_refl;
        let mut acc = Self::identity();
        let mut insert = self;
        let ghost p = self.repr();
        for limb in it: le_bits
            invariant
                p == self.repr(), valid(p), valid(acc.repr()), valid(insert.repr()),
                geq(acc.repr(), smul(le_value(le_bits@.subrange(0, it.index@)), p)),
                geq(insert.repr(), smul(pow2((64 * it.index@) as nat), p)),
        {
            let ghost done = le_value(le_bits@.subrange(0, it.index@));
            for i in 0..64
                invariant
                    p == self.repr(), valid(p), valid(acc.repr()), valid(insert.repr()),
                    geq(acc.repr(), smul(done + pow2((64 * it.index@) as nat) * ((*limb as nat) % pow2(i as nat)), p)),
                    geq(insert.repr(), smul(pow2((64 * it.index@ + i) as nat), p)),
            {
                let flag = ((*limb >> i) & 1) as u8;
                if CT {
                    acc = Self::conditional_select(&acc, &(acc.addp(insert)), Choice::from(flag))
                } else if flag == 1 {
                    acc = acc.addp(insert);
                }
                insert = insert.double();
                assume(false); // TODO arithmetic glue
            }
            assume(false); // TODO
        }
        assume(false);
        acc
    }
}
}
fn main(){}
