#[derive(Clone, Copy)]
pub struct Element {
    x: Fq,
    y: Fq,
    z: Fq,
    t: Fq,
}

pub struct P4 { pub x: int, pub y: int, pub z: int, pub t: int }

pub open spec fn spec_add(p: P4, q: P4) -> P4 {
    let a = fmul(fsub(p.y, p.x), fsub(q.y, q.x));
    let b = fmul(fadd(p.y, p.x), fadd(q.y, q.x));
    let c = fmul(fmul(6042, p.t), q.t);
    let d = fmul(fadd(p.z, p.z), q.z);
    let e = fsub(b, a); let f = fsub(d, c); let g = fadd(d, c); let h = fadd(b, a);
    P4 { x: fmul(e, f), y: fmul(g, h), z: fmul(f, g), t: fmul(e, h) }
}

impl Element {
    pub closed spec fn repr(self) -> P4 { P4 { x: self.x.val(), y: self.y.val(), z: self.z.val(), t: self.t.val() } }

    fn new(x: Fq, y: Fq, z: Fq, t: Fq) -> (r: Self)
      ensures r.repr() == (P4 { x: x.val(), y: y.val(), z: z.val(), t: t.val() })
    {
            Element { x, y, z, t }
    }
}

impl AddSpecImpl<Element> for Element {
    open spec fn obeys_add_spec() -> bool { false }
    open spec fn add_req(self, rhs: Element) -> bool { true }
    open spec fn add_spec(self, rhs: Element) -> Element { self }
}

impl Add for Element {
    type Output = Self;

    fn add(self, other: Self) -> (r: Self::Output)
    {
        broadcast use fq_canon, fq_canon2, k_const;
        // https://eprint.iacr.org/2008/522 Section 3.1, 8M + 1D algorithm
        let Element {
            x: x1,
            y: y1,
            z: z1,
            t: t1,
        } = self;
        let Element {
            x: x2,
            y: y2,
            z: z2,
            t: t2,
        } = other;
        let a = (y1 - x1) * (y2 - x2);
        let b = (y1 + x1) * (y2 + x2);
        let c = COEFF_K * t1 * t2;
        let d = (z1 + z1) * z2;
        let e = b - a;
        let f = d - c;
        let g = d + c;
        let h = b + a;
        let x3 = e * f;
        let y3 = g * h;
        let t3 = e * h;
        let z3 = f * g;
        let r = Self::new(x3, y3, z3, t3);
        assert(r.repr() == spec_add(self.repr(), other.repr()));
        r
    }
}
