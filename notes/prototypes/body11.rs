impl Fq {
    #[verifier::external_body]
    pub fn to_le_limbs(&self) -> (r: [u64;4]) ensures r[0] as int % 2 == self.val() % 2 { unimplemented!() }
}
pub trait Sign: core::ops::Neg<Output = Self> + Sized {
    spec fn sval(&self) -> int;
    spec fn sneg(&self) -> Self;
    fn is_nonnegative(&self) -> (r: bool)
        ensures r == (self.sval() % 2 == 0);

    fn is_negative(&self) -> (r: bool)
        ensures r == (self.sval() % 2 == 1)
    {
        !self.is_nonnegative()
    }

    fn abs(self) -> (r: Self)
       requires self.sval() >= 0, self.neg_req(), Self::obeys_neg_spec()
       ensures r == if self.sval() % 2 == 0 { self } else { self.neg_spec() }
    {
        if self.is_nonnegative() {
            self
        } else {
            -self
        }
    }
}

impl Sign for Fq {
    open spec fn sval(&self) -> int { self.val() }
    open spec fn sneg(&self) -> Self { fq_of(fneg(self.val())) }
    fn is_nonnegative(&self) -> bool {
        broadcast use fq_canon;
        assert(forall|x: u64| (x & 1) == 0 <==> (x as int) % 2 == 0) by {
            assert(forall|x: u64| ((x & 1) == 0) == (x % 2 == 0)) by(bit_vector);
        }
        (self.to_le_limbs()[0] & 1) == 0
    }
}
fn t(a: Fq) -> (r: Fq) ensures r.val() == if a.val() % 2 == 0 { a.val() } else { fneg(a.val()) }
{
    broadcast use fq_canon, fq_canon2;
    a.abs()
}
