#[derive(Clone, Copy)]
pub struct Element { x: Fq, y: Fq, z: Fq, t: Fq }
pub struct Choice(u8);
impl Choice { #[verifier::external_body] pub fn from(x: u8) -> Choice { Choice(x) } }
impl Element {
    #[verifier::external_body]
    pub const IDENTITY: Element = Element { x: Fq::ZERO, y: Fq::ONE, z: Fq::ONE, t: Fq::ZERO };
    #[verifier::external_body]
    pub fn double(self) -> Element { unimplemented!() }
    #[verifier::external_body]
    pub fn conditional_select(a: &Self, b: &Self, c: Choice) -> Element { unimplemented!() }
    #[verifier::external_body]
    pub fn addp(self, o: Element) -> Element { unimplemented!() }

    fn scalar_mul_both<const CT: bool>(self, le_bits: &[u64]) -> Self {
        let mut acc = Self::IDENTITY;
        let mut insert = self;
        for limb in le_bits {
            for i in 0..64 {
                let flag = ((*limb >> i) & 1) as u8;
                if CT {
                    acc = Self::conditional_select(&acc, &(acc.addp(insert)), Choice::from(flag))
                } else if flag == 1 {
                    acc = acc.addp(insert);
                }
                insert = insert.double();
            }
        }
        acc
    }
}
