// ---- stand-ins for ark_r1cs_std in SOUNDNESS mode: witnesses arbitrary, enforce_* = assume
#[derive(Debug)]
pub struct SynthesisError;
#[derive(Clone)]
pub struct Cs;
#[verifier::external_body]
pub struct FqVar { v: u8 }
#[verifier::external_body]
pub struct Boolean { v: u8 }
pub uninterp spec fn fv(a: FqVar) -> int;
pub uninterp spec fn bv(a: Boolean) -> bool;
pub broadcast axiom fn fv_range(a: FqVar) ensures 0 <= #[trigger] fv(a) < Q();

impl Clone for FqVar { #[verifier::external_body] fn clone(&self) -> (r: Self) ensures r == *self { unimplemented!() } }
impl Clone for Boolean { #[verifier::external_body] fn clone(&self) -> (r: Self) ensures r == *self { unimplemented!() } }

pub uninterp spec fn finv(a: int) -> int;
pub broadcast axiom fn finv_ax(a: int) requires 0 < a < Q() ensures fmul(a, #[trigger] finv(a)) == 1, 0 < finv(a) < Q();

impl FqVar {
    #[verifier::external_body]
    pub fn value(&self) -> (r: Result<Fq, SynthesisError>) { unimplemented!() }
    #[verifier::external_body]
    pub fn cs(&self) -> Cs { unimplemented!() }
    #[verifier::external_body]
    pub fn new_witness<F: FnOnce() -> Result<Fq, SynthesisError>>(cs: Cs, f: F) -> (r: Result<FqVar, SynthesisError>) { unimplemented!() }
    #[verifier::external_body]
    pub fn new_constant(cs: Cs, c: Fq) -> (r: Result<FqVar, SynthesisError>) ensures r.is_ok() ==> fv(r.unwrap()) == c.val() { unimplemented!() }
    #[verifier::external_body]
    pub fn square(&self) -> (r: Result<FqVar, SynthesisError>) ensures r.is_ok() ==> fv(r.unwrap()) == fmul(fv(*self), fv(*self)) { unimplemented!() }
    #[verifier::external_body]
    pub fn zero() -> (r: FqVar) ensures fv(r) == 0 { unimplemented!() }
    #[verifier::external_body]
    pub fn one() -> (r: FqVar) ensures fv(r) == 1 { unimplemented!() }
    #[verifier::external_body]
    pub fn is_eq(&self, o: &FqVar) -> (r: Result<Boolean, SynthesisError>) ensures r.is_ok() ==> bv(r.unwrap()) == (fv(*self) == fv(*o)) { unimplemented!() }
    #[verifier::external_body]
    pub fn conditionally_select(c: &Boolean, a: &FqVar, b: &FqVar) -> (r: Result<FqVar, SynthesisError>) ensures r.is_ok() ==> fv(r.unwrap()) == if bv(*c) { fv(*a) } else { fv(*b) } { unimplemented!() }
    #[verifier::external_body]
    pub fn inverse(&self) -> (r: Result<FqVar, SynthesisError>) ensures r.is_ok() ==> fmul(fv(*self), fv(r.unwrap())) == 1 { unimplemented!() }
    #[verifier::external_body]
    pub fn conditional_enforce_equal(&self, o: &FqVar, c: &Boolean) -> (r: Result<(), SynthesisError>) ensures r.is_ok() ==> (bv(*c) ==> fv(*self) == fv(*o)) { unimplemented!() }
}
impl Boolean {
    #[verifier::external_body]
    pub fn new_witness<F: FnOnce() -> Result<bool, SynthesisError>>(cs: Cs, f: F) -> (r: Result<Boolean, SynthesisError>) { unimplemented!() }
    #[verifier::external_body]
    pub fn not(&self) -> (r: Boolean) ensures bv(r) == !bv(*self) { unimplemented!() }
    #[verifier::external_body]
    pub fn and(&self, o: &Boolean) -> (r: Result<Boolean, SynthesisError>) ensures r.is_ok() ==> bv(r.unwrap()) == (bv(*self) && bv(*o)) { unimplemented!() }
    #[verifier::external_body]
    pub fn or(&self, o: &Boolean) -> (r: Result<Boolean, SynthesisError>) ensures r.is_ok() ==> bv(r.unwrap()) == (bv(*self) || bv(*o)) { unimplemented!() }
    #[verifier::external_body]
    pub fn enforce_equal(&self, o: &Boolean) -> (r: Result<(), SynthesisError>) ensures r.is_ok() ==> bv(*self) == bv(*o) { unimplemented!() }
    #[verifier::external_body]
    pub const TRUE: Boolean = Boolean { v: 1 };
}
pub broadcast axiom fn true_ax() ensures #[trigger] bv(Boolean::TRUE) == true;

impl MulSpecImpl<FqVar> for FqVar {
    open spec fn obeys_mul_spec() -> bool { false }
    open spec fn mul_req(self, rhs: FqVar) -> bool { true }
    open spec fn mul_spec(self, rhs: FqVar) -> FqVar { self }
}
impl Mul<FqVar> for FqVar { type Output = FqVar; #[verifier::external_body] fn mul(self, o: FqVar) -> (r: FqVar) ensures fv(r) == fmul(fv(self), fv(o)) { unimplemented!() } }

#[verifier::external_body]
pub const ZETA: Fq = Fq { v: [0;4] };
pub uninterp spec fn zeta() -> int;
pub broadcast axiom fn zeta_ax() ensures #[trigger] ZETA.val() == zeta(), 0 < zeta() < Q();

impl Fq {
    #[verifier::external_body]
    pub fn sqrt_ratio_zeta(num: &Self, den: &Self) -> (r: (bool, Self)) { unimplemented!() }
}

pub assume_specification<T, E> [core::result::Result::<T, E>::unwrap_or] (r: core::result::Result<T, E>, d: T) -> (o: T)
   where E: core::marker::Destruct, T: core::marker::Destruct,
   ensures o == (match r { Ok(t) => t, Err(_) => d });
pub broadcast axiom fn fmul_assoc(a:int,b:int,c:int) ensures #[trigger] fmul(fmul(a,b),c) == fmul(a,fmul(b,c));
pub broadcast axiom fn fmul_comm(a:int,b:int) ensures #[trigger] fmul(a,b) == fmul(b,a);
pub broadcast axiom fn fmul_nozd(a:int,b:int) requires 0<=a<Q(), 0<=b<Q(), #[trigger] fmul(a,b) == 0 ensures a==0 || b==0;
pub broadcast axiom fn fmul_one(a:int) requires 0<=a<Q() ensures #[trigger] fmul(a,1) == a;
// native contract (C09) as a predicate, num = 1
pub open spec fn isqrt_ok(den: int, ws: bool, y: int) -> bool {
    if den == 0 { !ws && y == 0 }
    else if ws { fmul(fmul(y,y), den) == 1 }
    else { fmul(fmul(y,y), den) == zeta() }
}

    fn isqrt(self_: &FqVar) -> (r: Result<(Boolean, FqVar), SynthesisError>)
       ensures r.is_ok() ==> isqrt_ok(fv(*self_), bv(r.unwrap().0), fv(r.unwrap().1))
    {
        broadcast use fq_canon, fq_canon2, fq_consts, fv_range, finv_ax, true_ax, zeta_ax, fmul_assoc, fmul_comm, fmul_nozd, fmul_one;
        // During mode `SynthesisMode::Setup`, value() will not provide a field element.
        let den = self_.value().unwrap_or(Fq::ONE);

        // Out of circuit sqrt computation:
        // Note: `num = 1`
        // `y = sqrt(num/den)`
        let (was_square, y) = Fq::sqrt_ratio_zeta(&Fq::ONE, &den);

        let cs = self_.cs();
        let was_square_var = Boolean::new_witness(cs.clone(), || Ok(was_square))?;
        let y_var = FqVar::new_witness(cs.clone(), || Ok(y))?;
        // `y^2 = num/den`
        let y_squared_var = y_var.square()?;

        let den_var_is_zero = self_.is_eq(&FqVar::zero())?;
        let den_var = FqVar::conditionally_select(&den_var_is_zero, &FqVar::one(), self_)?;
        let den_var_inv = den_var.inverse()?;
        let in_case_1 = was_square_var.and(&den_var_is_zero.not())?;
        y_squared_var.conditional_enforce_equal(&den_var_inv, &in_case_1)?;

        // Case 3: `(false, 0)` if `den` is zero
        let was_not_square_var = was_square_var.not();
        let in_case_3 = was_not_square_var.and(&den_var_is_zero)?;
        // Certify the return value y is 0 when we're in case 3.
        y_squared_var.conditional_enforce_equal(&FqVar::zero(), &in_case_3)?;

        // Case 4
        let zeta_var = FqVar::new_constant(cs, ZETA)?;
        let zeta_times_one_over_den_var = zeta_var * den_var_inv;
        let in_case_4 = was_not_square_var.and(&den_var_is_zero.not())?;
        y_squared_var.conditional_enforce_equal(&zeta_times_one_over_den_var, &in_case_4)?;

        // Ensure that we are in case 1, 3, or 4.
        let in_case = in_case_1.or(&in_case_3)?.or(&in_case_4)?;
        in_case.enforce_equal(&Boolean::TRUE)?;

        Ok((was_square_var, y_var))
    }
