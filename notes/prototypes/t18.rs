use vstd::prelude::*;
verus! {
pub enum SerializationError { NotEnoughSpace, InvalidData, UnexpectedFlags, IoError }
pub trait Read { fn read_exact(&mut self, buf: &mut [u8]) -> Result<(), SerializationError>; }
pub trait Flags: Sized {
    spec fn bit_size() -> int;
    fn from_u8_remove_flags(value: &mut u8) -> Option<Self>;
}
pub struct BigInt(pub [u64;4]);
pub struct Fq { v: [u64;4] }
impl Fq {
    pub const MODULUS_BIT_SIZE: u32 = 0xfd;
    #[verifier::external_body]
    fn from_bigint(b: BigInt) -> Option<Fq> { unimplemented!() }

    fn deserialize_with_flags<R: Read, F: Flags>(
        mut reader: R,
    ) -> Result<(Self, F), SerializationError> {
        // Enough for the field element + 8 bits of flags. The last byte may or may not contain flags.
        let mut bytes = [0u8; (Self::MODULUS_BIT_SIZE as usize + 7) / 8];

        let expected_len = (Self::MODULUS_BIT_SIZE as usize + 3 + 7) / 8;
        reader.read_exact(&mut bytes[..expected_len])?;
        let flags = F::from_u8_remove_flags(&mut bytes[bytes.len() - 1])
            .ok_or(SerializationError::UnexpectedFlags)?;
        // Then, convert the bytes to limbs, to benefit from the canonical check we have for
        // bigint.
        let mut limbs = [0u64; 4];
        for (limb, chunk) in limbs.iter_mut().zip(bytes[..32].chunks_exact(8)) {
            *limb = u64::from_le_bytes(chunk.try_into().expect("chunk will have the right size"));
        }
        let out = Self::from_bigint(BigInt(limbs)).ok_or(SerializationError::InvalidData)?;
        Ok((out, flags))
    }
}
}
fn main(){}
