// ---------- prelude additions
impl Fq {
    #[verifier::external_body]
    pub fn to_le_limbs(&self) -> (r: [u64;4]) ensures r[0] as int % 2 == self.val() % 2 { unimplemented!() }
}
pub uninterp spec fn zeta() -> int;
pub open spec fn isqrt_ok(num: int, den: int, ws: bool, y: int) -> bool {
    0 <= y < Q() &&
    if num == 0 { ws && y == 0 }
    else if den == 0 { !ws && y == 0 }
    else if ws { fmul(fmul(y,y), den) == num }
    else { fmul(fmul(y,y), den) == fmul(zeta(), num) }
}
// spec-level choice of the root actually returned (sign-agnostic contracts never look inside)
pub uninterp spec fn isqrt_flag(num: int, den: int) -> bool;
pub uninterp spec fn isqrt_root(num: int, den: int) -> int;
pub broadcast axiom fn isqrt_spec_ok(num: int, den: int)
    requires 0 <= num < Q(), 0 <= den < Q()
    ensures isqrt_ok(num, den, #[trigger] isqrt_flag(num, den), #[trigger] isqrt_root(num, den));
impl Fq {
    #[verifier::external_body]
    pub fn sqrt_ratio_zeta(num: &Self, den: &Self) -> (r: (bool, Self))
        ensures r.0 == isqrt_flag(num.val(), den.val()), r.1.val() == isqrt_root(num.val(), den.val())
    { unimplemented!() }
}
pub trait TECurveConfig { const COEFF_A: Fq; const COEFF_D: Fq; }
pub struct Decaf377EdwardsConfig;
impl TECurveConfig for Decaf377EdwardsConfig {
    #[verifier::external_body]
    const COEFF_A: Fq = Fq { v: [0;4] };
    #[verifier::external_body]
    const COEFF_D: Fq = Fq { v: [0;4] };
}
pub broadcast axiom fn ad_consts()
    ensures #[trigger] <Decaf377EdwardsConfig as TECurveConfig>::COEFF_A.val() == Q() - 1, #[trigger] <Decaf377EdwardsConfig as TECurveConfig>::COEFF_D.val() == 3021;

#[derive(Clone, Copy)]
pub struct EdwardsProjective { pub x: Fq, pub y: Fq, pub t: Fq, pub z: Fq }
#[derive(Clone, Copy)]
pub struct Element { pub inner: EdwardsProjective }

// ---------- src/sign.rs, verbatim + contract
pub trait Sign: core::ops::Neg<Output = Self> + Sized {
    spec fn sval(&self) -> int;
    fn is_nonnegative(&self) -> (r: bool)
        ensures r == (self.sval() % 2 == 0);

    fn is_negative(&self) -> (r: bool)
        ensures r == (self.sval() % 2 == 1)
    {
        !self.is_nonnegative()
    }

    fn abs(self) -> (r: Self)
       requires self.neg_req(), Self::obeys_neg_spec(), self.sval() >= 0
       ensures r == if self.sval() % 2 == 0 { self } else { self.neg_spec() }
    {
        if self.is_nonnegative() {
            self
        } else {
            -self
        }
    }
}

impl Sign for Fq {
    open spec fn sval(&self) -> int { self.val() }
    fn is_nonnegative(&self) -> bool {
        broadcast use fq_canon;
        assert(forall|x: u64| (x & 1) == 0 <==> (x as int) % 2 == 0) by {
            assert(forall|x: u64| ((x & 1) == 0) == (x % 2 == 0)) by(bit_vector);
        }
        (self.to_le_limbs()[0] & 1) == 0
    }
}

// ---------- spec (decaf377 spec, "Encoding" steps 1-5)
pub struct P4 { pub x: int, pub y: int, pub z: int, pub t: int }
pub open spec fn fabs(a: int) -> int { if a % 2 == 0 { a } else { fneg(a) } }
pub open spec fn spec_encode(p: P4) -> int {
    let amd = fsub(Q() - 1, 3021);
    let u1 = fmul(fadd(p.x, p.t), fsub(p.x, p.t));
    let v = isqrt_root(1, fmul(fmul(u1, amd), fmul(p.x, p.x)));
    let u2 = fabs(fmul(v, u1));
    let u3 = fsub(fmul(u2, p.z), p.t);
    fabs(fmul(fmul(fmul(amd, v), u3), p.x))
}

impl Element {
    pub open spec fn repr(self) -> P4 { P4 { x: self.inner.x.val(), y: self.inner.y.val(), z: self.inner.z.val(), t: self.inner.t.val() } }

    // ---------- src/ark_curve/encoding.rs :: impl Element :: vartime_compress_to_field, verbatim
    pub fn vartime_compress_to_field(&self) -> (s: Fq)
        ensures s.val() == spec_encode(self.repr())
    {
        broadcast use fq_canon, fq_canon2, fq_consts, ad_consts, isqrt_spec_ok;
        // This isn't a constant, only because traits don't have const methods
        // yet and subtraction is only implemented as part of the Sub trait.
        let A_MINUS_D = Decaf377EdwardsConfig::COEFF_A - Decaf377EdwardsConfig::COEFF_D;
        let p = &self.inner;

        // 1.
        let u_1 = (p.x + p.t) * (p.x - p.t);

        // 2. division by 0 occurs on the identity point, but since
        // sqrt_ratio_zeta outputs v=0 it computes the right encoding anyway
        let (_always_square, v) = Fq::sqrt_ratio_zeta(&Fq::ONE, &(u_1 * A_MINUS_D * p.x.square()));

        // 3.
        let u_2 = (v * u_1).abs();

        // 4.
        let u_3 = u_2 * p.z - p.t;

        // 5.
        let s = (A_MINUS_D * v * u_3 * p.x).abs();

        s
    }
}
// identity encodes to 0 for BOTH representatives and any Z  (needs only isqrt_ok + field facts)
pub broadcast axiom fn fmul_zero_r(a: int) ensures #[trigger] fmul(a, 0) == 0;
proof fn identity_encodes_zero(y: int, z: int)
    requires 0 <= y < Q(), 0 <= z < Q()
    ensures spec_encode(P4 { x: 0, y, z, t: 0 }) == 0
{
    broadcast use fmul_zero_r;
    assert(fabs(0) == 0);
}
