#[path = "/repo/src/fields/fp/u32/fiat.rs"]
#[allow(dead_code, unused)]
mod fiat;
#[cfg(kani)]
mod proofs {
    use super::fiat::*;
    const N: usize = 12;
    const M: [u32; N] = [0x1, 0x8508c000, 0x30000000, 0x170b5d44, 0xba094800, 0x1ef3622f, 0xf5138f, 0x1a22d9f3, 0x6ca1493b, 0xc63b05c0, 0x17c510ea, 0x1ae3a46];
    fn lt(a: &[u32; N], b: &[u32; N]) -> bool {
        let mut i = N;
        while i > 0 { i -= 1; if a[i] < b[i] { return true; } if a[i] > b[i] { return false; } }
        false
    }
    fn ref_add(a: &[u32; N], b: &[u32; N]) -> [u32; N] {
        let mut s = [0u32; N+1]; let mut c: u64 = 0;
        for i in 0..N { let t = a[i] as u64 + b[i] as u64 + c; s[i] = t as u32; c = t >> 32; }
        s[N] = c as u32;
        let mut d = [0u32; N]; let mut br: i64 = 0;
        for i in 0..N { let t = s[i] as i64 - M[i] as i64 - br; d[i] = t as u32; br = if t < 0 { 1 } else { 0 }; }
        let ge = (s[N] as i64 - br) >= 0;
        let mut out = [0u32; N];
        for i in 0..N { out[i] = if ge { d[i] } else { s[i] }; }
        out
    }
    fn ref_sub(a: &[u32; N], b: &[u32; N]) -> [u32; N] {
        let mut d = [0u32; N]; let mut br: i64 = 0;
        for i in 0..N { let t = a[i] as i64 - b[i] as i64 - br; d[i] = t as u32; br = if t < 0 { 1 } else { 0 }; }
        let mut out = [0u32; N]; let mut c: u64 = 0;
        for i in 0..N { let t = d[i] as u64 + (if br == 1 { M[i] } else { 0 }) as u64 + c; out[i] = t as u32; c = t >> 32; }
        out
    }
    #[kani::proof]
    #[kani::unwind(14)]
    fn fp_add_matches_reference() {
        let a: [u32; N] = kani::any(); let b: [u32; N] = kani::any();
        kani::assume(lt(&a, &M)); kani::assume(lt(&b, &M));
        let mut out = FpMontgomeryDomainFieldElement([0; N]);
        fp_add(&mut out, &FpMontgomeryDomainFieldElement(a), &FpMontgomeryDomainFieldElement(b));
        let r = ref_add(&a, &b);
        for i in 0..N { assert!(out.0[i] == r[i]); }
        assert!(lt(&out.0, &M));
    }
    #[kani::proof]
    #[kani::unwind(14)]
    fn fp_sub_matches_reference() {
        let a: [u32; N] = kani::any(); let b: [u32; N] = kani::any();
        kani::assume(lt(&a, &M)); kani::assume(lt(&b, &M));
        let mut out = FpMontgomeryDomainFieldElement([0; N]);
        fp_sub(&mut out, &FpMontgomeryDomainFieldElement(a), &FpMontgomeryDomainFieldElement(b));
        let r = ref_sub(&a, &b);
        for i in 0..N { assert!(out.0[i] == r[i]); }
        assert!(lt(&out.0, &M));
    }
    #[kani::proof]
    #[kani::unwind(50)]
    fn fp_bytes_roundtrip() {
        let a: [u32; N] = kani::any();
        kani::assume(lt(&a, &M));
        let mut bytes = [0u8; 48];
        fp_to_bytes(&mut bytes, &a);
        for i in 0..48 { assert!(bytes[i] == (a[i/4] >> (8*(i%4))) as u8); }
        let mut back = [0u32; N];
        fp_from_bytes(&mut back, &bytes);
        for i in 0..N { assert!(back[i] == a[i]); }
    }
}
