use vstd::prelude::*;
use core::cmp::Ordering;
verus! {
pub assume_specification<T> [ <[T]>::reverse ] (s: &mut [T])
    ensures final(s)@.len() == old(s)@.len(), forall|i: int| 0 <= i < old(s)@.len() ==> final(s)@[i] == old(s)@[old(s)@.len() - 1 - i];

pub open spec fn le4(l: [u64;4]) -> int {
  l[0] as int + l[1] as int * 0x1_0000_0000_0000_0000int + l[2] as int * 0x1_0000_0000_0000_0000_0000_0000_0000_0000int
  + l[3] as int * 0x1_0000_0000_0000_0000_0000_0000_0000_0000_0000_0000_0000_0000int
}
fn cmp_be(l: [u64;4], r: [u64;4]) -> (o: Ordering)
   ensures o == (if le4(l) < le4(r) { Ordering::Less } else if le4(l) == le4(r) { Ordering::Equal } else { Ordering::Greater })
{
    let mut left = l;
    let mut right = r;
    left.reverse();
    right.reverse();
    left.cmp(&right)
}
}
fn main(){}
