#[derive(Clone, Copy)]
pub struct Inner { pub x: Fq, pub y: Fq, pub t: Fq, pub z: Fq }
pub uninterp spec fn te_add(a: Inner, b: Inner) -> Inner;
impl AddSpecImpl<Inner> for Inner {
    open spec fn obeys_add_spec() -> bool { true }
    open spec fn add_req(self, rhs: Inner) -> bool { true }
    open spec fn add_spec(self, rhs: Inner) -> Inner { te_add(self, rhs) }
}
impl Add<Inner> for Inner { type Output = Inner; #[verifier::external_body] fn add(self, o: Inner) -> Inner { unimplemented!() } }

#[derive(Clone, Copy)]
pub struct Element { pub inner: Inner }
#[derive(Clone, Copy)]
pub struct AffinePoint { pub inner: Inner }

impl<'a, 'b> AddSpecImpl<&'b Element> for &'a Element {
    open spec fn obeys_add_spec() -> bool { true }
    open spec fn add_req(self, rhs: &'b Element) -> bool { true }
    open spec fn add_spec(self, rhs: &'b Element) -> Element { Element { inner: te_add(self.inner, rhs.inner) } }
}
impl<'a, 'b> Add<&'b Element> for &'a Element {
    type Output = Element;

    #[verifier::exec_allows_no_decreases_clause]
    fn add(self, other: &'b Element) -> Element {
        Element {
            inner: self.inner + other.inner,
        }
    }
}
impl<'b> AddSpecImpl<&'b Element> for Element {
    open spec fn obeys_add_spec() -> bool { true }
    open spec fn add_req(self, rhs: &'b Element) -> bool { true }
    open spec fn add_spec(self, rhs: &'b Element) -> Element { Element { inner: te_add(self.inner, rhs.inner) } }
}
impl<'b> Add<&'b Element> for Element {
    type Output = Element;
    #[verifier::exec_allows_no_decreases_clause]
    fn add(self, other: &'b Element) -> Element {
        &self + other
    }
}
impl AddSpecImpl<Element> for Element {
    open spec fn obeys_add_spec() -> bool { true }
    open spec fn add_req(self, rhs: Element) -> bool { true }
    open spec fn add_spec(self, rhs: Element) -> Element { Element { inner: te_add(self.inner, rhs.inner) } }
}
impl Add<Element> for Element {
    type Output = Element;
    #[verifier::exec_allows_no_decreases_clause]
    fn add(self, other: Element) -> Element {
        &self + &other
    }
}
impl From<AffinePoint> for Element {
    fn from(point: AffinePoint) -> (r: Self) ensures r.inner == point.inner {
        Self { inner: point.inner }
    }
}
impl AddSpecImpl<AffinePoint> for AffinePoint {
    open spec fn obeys_add_spec() -> bool { true }
    open spec fn add_req(self, rhs: AffinePoint) -> bool { true }
    open spec fn add_spec(self, rhs: AffinePoint) -> Element { Element { inner: te_add(self.inner, rhs.inner) } }
}
impl Add<AffinePoint> for AffinePoint {
    type Output = Element;

    #[verifier::exec_allows_no_decreases_clause]
    fn add(self, other: AffinePoint) -> Element {
        let other_element: Element = other.into();
        let self_element: Element = other.into();
        self_element + other_element
    }
}
