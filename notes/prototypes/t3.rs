use vstd::prelude::*;
verus! {
pub open spec fn Q() -> int { 8444461749428370424248824938781546531375899335154063827935233455917409239041int }
pub open spec fn Q2() -> int { 725501752471715841int + 6461107452199829505int * 0x1_0000_0000_0000_0000int + 6968279316240510977int * 0x1_0000_0000_0000_0000int * 0x1_0000_0000_0000_0000int + 1345280370688173398int * 0x1_0000_0000_0000_0000int * 0x1_0000_0000_0000_0000int* 0x1_0000_0000_0000_0000int }
proof fn t() { assert(Q() == Q2()) by(compute_only); }
spec fn pw(b: int, e: nat, m: int) -> int decreases e {
    if e == 0 { 1 } else if e % 2 == 0 { let h = pw(b, e/2, m); (h*h) % m } else { (b * pw(b, (e-1) as nat, m)) % m }
}
proof fn fermat() {
    assert(pw(22, (Q()-1) as nat, Q()) == 1) by(compute_only);
}
proof fn notsq() {
    assert(pw(22, ((Q()-1)/2) as nat, Q()) == Q() - 1) by(compute_only);
}
}
fn main() {}
