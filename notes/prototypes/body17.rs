pub uninterp spec fn iter_seq<I: Iterator>(it: I) -> Seq<I::Item>;

pub open spec fn fold_trace<B, T, F: FnMut(B, T) -> B>(s: Seq<T>, init: B, f: F, r: B, accs: Seq<B>) -> bool {
    accs.len() == s.len() + 1 && accs[0] == init && accs[s.len() as int] == r
    && forall|i: int| 0 <= i < s.len() ==> call_ensures(f, (#[trigger] accs[i], s[i]), accs[i+1])
}

#[verifier::external_body]
pub fn std_fold<I: Iterator, B, F: FnMut(B, I::Item) -> B>(it: I, init: B, f: F) -> (r: B)
    requires forall|a: B, x: I::Item| call_requires(f, (a, x))
    ensures exists|accs: Seq<B>| fold_trace(iter_seq(it), init, f, r, accs)
{ it.fold(init, f) }

pub open spec fn sum_seq(s: Seq<Fq>) -> int decreases s.len() {
    if s.len() == 0 { 0 } else { fadd(sum_seq(s.drop_last()), s.last().val()) }
}
pub open spec fn prod_seq(s: Seq<Fq>) -> int decreases s.len() {
    if s.len() == 0 { 1 } else { fmul(prod_seq(s.drop_last()), s.last().val()) }
}

impl Fq {
    fn sum_<I: Iterator<Item = Self>>(iter: I) -> (r: Self)
        ensures r.val() == sum_seq(iter_seq(iter))
    {
        broadcast use fq_canon, fq_canon2, fq_consts;
        let r = std_fold(iter, Self::ZERO, Add::add);
        proof {
            let accs = choose|accs: Seq<Fq>| fold_trace(iter_seq(iter), Fq::ZERO, <Fq as Add>::add, r, accs);
            lemma_sum(iter_seq(iter), accs, iter_seq(iter).len() as int);
            assert(iter_seq(iter).take(iter_seq(iter).len() as int) == iter_seq(iter));
        }
        r
    }
    fn product_<I: Iterator<Item = Self>>(iter: I) -> (r: Self)
        ensures r.val() == prod_seq(iter_seq(iter))
    {
        broadcast use fq_canon, fq_canon2, fq_consts;
        let r = std_fold(iter, Self::INITP, Mul::mul);
        proof {
            let accs = choose|accs: Seq<Fq>| fold_trace(iter_seq(iter), Fq::INITP, <Fq as Mul>::mul, r, accs);
            lemma_prod(iter_seq(iter), accs, iter_seq(iter).len() as int);
            assert(iter_seq(iter).take(iter_seq(iter).len() as int) == iter_seq(iter));
        }
        r
    }
}
pub proof fn lemma_sum(s: Seq<Fq>, accs: Seq<Fq>, n: int)
    requires accs.len() == s.len() + 1, accs[0].val() == 0, 0 <= n <= s.len(),
             forall|i: int| 0 <= i < s.len() ==> call_ensures(<Fq as Add>::add, (#[trigger] accs[i], s[i]), accs[i+1])
    ensures accs[n].val() == sum_seq(s.take(n))
    decreases n
{
    broadcast use fq_canon, fq_canon2;
    if n > 0 {
        lemma_sum(s, accs, n-1);
        assert(s.take(n).drop_last() == s.take(n-1));
        assert(call_ensures(<Fq as Add>::add, (accs[n-1], s[n-1]), accs[n-1+1]));
    }
}
pub proof fn lemma_prod(s: Seq<Fq>, accs: Seq<Fq>, n: int)
    requires accs.len() == s.len() + 1, accs[0].val() == 1, 0 <= n <= s.len(),
             forall|i: int| 0 <= i < s.len() ==> call_ensures(<Fq as Mul>::mul, (#[trigger] accs[i], s[i]), accs[i+1])
    ensures accs[n].val() == prod_seq(s.take(n))
    decreases n
{
    broadcast use fq_canon, fq_canon2;
    if n > 0 {
        lemma_prod(s, accs, n-1);
        assert(s.take(n).drop_last() == s.take(n-1));
        assert(call_ensures(<Fq as Mul>::mul, (accs[n-1], s[n-1]), accs[n-1+1]));
    }
}
