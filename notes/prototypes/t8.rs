use vstd::prelude::*;
verus! {
pub struct FqMontgomeryDomainFieldElement(pub [u32; 8]);
pub struct FqNonMontgomeryDomainFieldElement(pub [u32; 8]);
pub open spec fn Q() -> int { 8444461749428370424248824938781546531375899335154063827935233455917409239041int }
pub open spec fn eval8(a: [u32;8]) -> int {
  a[0] as int + a[1] as int * 0x1_0000_0000int + a[2] as int * 0x1_0000_0000_0000_0000int
  + a[3] as int * 0x1_0000_0000_0000_0000_0000_0000int + a[4] as int * 0x1_0000_0000_0000_0000_0000_0000_0000_0000int
  + a[5] as int * 0x1_0000_0000_0000_0000_0000_0000_0000_0000_0000_0000int
  + a[6] as int * 0x1_0000_0000_0000_0000_0000_0000_0000_0000_0000_0000_0000_0000int
  + a[7] as int * 0x1_0000_0000_0000_0000_0000_0000_0000_0000_0000_0000_0000_0000_0000_0000int
}
pub uninterp spec fn from_mont(x: int) -> int;  // x * R^-1 mod Q

#[verifier::external_body]
pub fn fq_add(out1: &mut FqMontgomeryDomainFieldElement, arg1: &FqMontgomeryDomainFieldElement, arg2: &FqMontgomeryDomainFieldElement)
  requires eval8(arg1.0) < Q(), eval8(arg2.0) < Q()
  ensures eval8(final(out1).0) < Q(), from_mont(eval8(final(out1).0)) == (from_mont(eval8(arg1.0)) + from_mont(eval8(arg2.0))) % Q()
{ unimplemented!() }

#[verifier::external_body]
pub fn fq_from_montgomery(out1: &mut FqNonMontgomeryDomainFieldElement, arg1: &FqMontgomeryDomainFieldElement)
  requires eval8(arg1.0) < Q()
  ensures eval8(final(out1).0) == from_mont(eval8(arg1.0))
{ unimplemented!() }

const N: usize = 8;
const N_64: usize = 4;

#[derive(Copy, Clone)]
pub struct Fq(FqMontgomeryDomainFieldElement);
impl Copy for FqMontgomeryDomainFieldElement {}
impl Clone for FqMontgomeryDomainFieldElement { #[verifier::external_body] fn clone(&self) -> Self { *self } }

impl Fq {
    pub closed spec fn wf(self) -> bool { eval8(self.0.0) < Q() }
    pub closed spec fn val(self) -> int { from_mont(eval8(self.0.0)) }

    pub fn add(self, other: &Fq) -> (r: Fq)
      requires self.wf(), other.wf()
      ensures r.wf(), r.val() == (self.val() + other.val()) % Q()
    {
        let mut result = FqMontgomeryDomainFieldElement([0; N]);
        fq_add(&mut result, &self.0, &other.0);
        Fq(result)
    }

    pub(crate) fn to_le_limbs(&self) -> (r: [u64; N_64])
      requires self.wf()
    {
        let mut x_non_montgomery = FqNonMontgomeryDomainFieldElement([0; N]);
        fq_from_montgomery(&mut x_non_montgomery, &self.0);
        let limbs = x_non_montgomery.0;
        let mut out = [0u64; N_64];
        for i in 0..N_64 {
            out[i] = (limbs[2 * i] as u64) | ((limbs[2 * i + 1] as u64) << 32);
        }
        out
    }
}
}
fn main(){}
