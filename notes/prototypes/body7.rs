#[derive(Debug, Clone, Copy, PartialEq, Eq)]
pub enum EncodingError {
    InvalidEncoding,
    InvalidSliceLength,
}
pub struct Encoding(pub [u8; 32]);

#[derive(Clone, Copy)]
pub struct Element { x: Fq, y: Fq, z: Fq, t: Fq }

#[verifier::external_body]
pub const COEFF_D: Fq = Fq { v: [0;4] };
pub broadcast axiom fn d_const() ensures #[trigger] COEFF_D.val() == 3021;

pub uninterp spec fn bytes_val(b: [u8;32]) -> int;
pub uninterp spec fn spec_isqrt(num: int, den: int) -> (bool, int);

impl Fq {
    #[verifier::external_body]
    pub fn from_bytes_checked(bytes: &[u8; 32]) -> (r: Result<Fq, EncodingError>)
        ensures bytes_val(*bytes) < Q() ==> r.is_ok() && r.unwrap().val() == bytes_val(*bytes),
                bytes_val(*bytes) >= Q() ==> r == Err::<Fq, EncodingError>(EncodingError::InvalidEncoding)
    { unimplemented!() }
    #[verifier::external_body]
    pub fn non_arkworks_sqrt_ratio_zeta(num: &Self, den: &Self) -> (r: (bool, Self))
        ensures (r.0, r.1.val()) == spec_isqrt(num.val(), den.val())
    { unimplemented!() }
    #[verifier::external_body]
    pub fn is_negative(&self) -> (r: bool) ensures r == (self.val() % 2 == 1) { unimplemented!() }
    #[verifier::external_body]
    pub fn from_u32(x: u32) -> (r: Fq) ensures r.val() == x as int { unimplemented!() }
}

pub struct P4 { pub x: int, pub y: int, pub z: int, pub t: int }
pub open spec fn spec_decode(s: int) -> Option<P4> {
    if s % 2 == 1 { None } else {
    let ss = fmul(s, s);
    let u1 = fsub(1, ss);
    let u2 = fsub(fmul(u1,u1), fmul(fmul(4,3021), ss));
    let (sq, v0) = spec_isqrt(1, fmul(u2, fmul(u1,u1)));
    if !sq { None } else {
      let tsu = fmul(fmul(fadd(1,1), s), u1);
      let v = if fmul(tsu, v0) % 2 == 1 { fneg(v0) } else { v0 };
      let x = fmul(fmul(tsu, fmul(v,v)), u2);
      let y = fmul(fmul(fadd(1, ss), v), u1);
      Some(P4 { x, y, z: 1, t: fmul(x,y) })
    } }
}

impl Element {
    pub closed spec fn repr(self) -> P4 { P4 { x: self.x.val(), y: self.y.val(), z: self.z.val(), t: self.t.val() } }
    fn new(x: Fq, y: Fq, z: Fq, t: Fq) -> (r: Self)
      ensures r.repr() == (P4 { x: x.val(), y: y.val(), z: z.val(), t: t.val() })
    {
        if cfg!(debug_assertions) { Element { x, y, z, t } } else {
            Element { x, y, z, t } }
    }
}

impl Encoding {
    pub fn vartime_decompress(&self) -> (r: Result<Element, EncodingError>)
      ensures
        match r {
          Ok(e) => self.0[31] >> 5 == 0 && bytes_val(self.0) < Q() && spec_decode(bytes_val(self.0)) == Some(e.repr()),
          Err(e) => e == EncodingError::InvalidEncoding && (self.0[31] >> 5 != 0 || bytes_val(self.0) >= Q() || spec_decode(bytes_val(self.0)).is_none()),
        }
    {
        broadcast use fq_canon, fq_canon2, d_const, fq_consts;
        // Top three bits of last byte must be zero
        if self.0[31] >> 5 != 0u8 {
            return Err(EncodingError::InvalidEncoding);
        }

        // 1/2. Reject unless s is canonically encoded and nonnegative.
        // Check bytes correspond to valid field element (i.e. less than field modulus)
        let s = Fq::from_bytes_checked(&self.0)?;
        if s.is_negative() {
            return Err(EncodingError::InvalidEncoding);
        }

        // 3. u_1 <- 1 - s^2
        let ss = s.square();
        let u_1 = Fq::ONE - ss;

        // 4. u_2 <- u_1^2 - 4d s^2
        let u_2 = u_1.square() - (Fq::from_u32(4u32) * COEFF_D) * ss;

        // 5. sqrt
        let (was_square, mut v) = Fq::non_arkworks_sqrt_ratio_zeta(&Fq::ONE, &(u_2 * u_1.square()));
        if !was_square {
            return Err(EncodingError::InvalidEncoding);
        }

        // 6. sign check
        let two_s_u_1 = (Fq::ONE + Fq::ONE) * s * u_1;
        let check = two_s_u_1 * v;
        if check.is_negative() {
            v = -v;
        }

        // 7. coordinates
        let x = two_s_u_1 * v.square() * u_2;
        let y = (Fq::ONE + ss) * v * u_1;
        let z = Fq::ONE;
        let t = x * y;

        Ok(Element::new(x, y, z, t))
    }
}
