use vstd::prelude::*;
verus! {
pub open spec fn Q() -> int { 8444461749428370424248824938781546531375899335154063827935233455917409239041int }
pub open spec fn RMONT() -> int { 0x1_0000_0000_0000_0000_0000_0000_0000_0000_0000_0000_0000_0000_0000_0000_0000_0000int }
pub open spec fn limbs4(l: [u64;4]) -> int {
  l[0] as int + l[1] as int * 0x1_0000_0000_0000_0000int + l[2] as int * 0x1_0000_0000_0000_0000_0000_0000_0000_0000int
  + l[3] as int * 0x1_0000_0000_0000_0000_0000_0000_0000_0000_0000_0000_0000_0000int
}
// ---- stand-ins for ark_ff (A-ARK-1)
#[derive(Copy, Clone)]
pub struct BigInt(pub [u64; 4]);
impl BigInt { pub fn new(l: [u64;4]) -> (r: BigInt) ensures r.0 == l { BigInt(l) } }
#[derive(Copy, Clone)]
pub struct ArkworksFq(pub BigInt);   // .0 = Montgomery limbs, as in ark_ff::Fp
pub open spec fn ark_wf(a: ArkworksFq) -> bool { limbs4(a.0.0) < Q() }
pub uninterp spec fn from_mont(x: int) -> int; // x * R^-1 mod q
pub uninterp spec fn to_mont(x: int) -> int;   // x * R mod q
pub broadcast axiom fn mont_inv(x: int) requires 0 <= x < Q()
   ensures #[trigger] from_mont(to_mont(x)) == x, #[trigger] to_mont(from_mont(x)) == x, 0 <= to_mont(x) < Q(), 0 <= from_mont(x) < Q();
pub open spec fn ark_val(a: ArkworksFq) -> int { from_mont(limbs4(a.0.0)) }
impl ArkworksFq {
    #[verifier::external_body]
    pub fn new(b: BigInt) -> (r: ArkworksFq)
       requires limbs4(b.0) < Q()
       ensures ark_wf(r), ark_val(r) == limbs4(b.0)   // `new` converts INTO Montgomery form
    { unimplemented!() }
    pub fn new_unchecked(b: BigInt) -> (r: ArkworksFq) ensures r.0 == b { ArkworksFq(b) }
}
pub struct Choice(u8);
impl Choice { pub closed spec fn b(self) -> bool { self.0 == 1 } }
#[verifier::external_body]
pub fn u64_conditional_select(a: &u64, b: &u64, c: &Choice) -> (r: u64) ensures r == if c.b() { *b } else { *a } { unimplemented!() }

#[derive(Copy, Clone)]
pub struct Fq(ArkworksFq);
impl Fq {
    pub closed spec fn wf(self) -> bool { ark_wf(self.0) }
    pub closed spec fn val(self) -> int { ark_val(self.0) }

    fn conditional_select(a: &Self, b: &Self, choice: Choice) -> (r: Self)
        requires a.wf(), b.wf()
        ensures r.wf(), r.val() == if choice.b() { b.val() } else { a.val() }
    {
        broadcast use mont_inv;
        let mut out = [0u64; 4];
        let a_limbs = a.0 .0 .0;
        let b_limbs = b.0 .0 .0;
        for i in 0..4
            invariant forall|j: int| 0 <= j < i ==> out[j] == if choice.b() { b_limbs[j] } else { a_limbs[j] }
        {
            out[i] = u64_conditional_select(&a_limbs[i], &b_limbs[i], &choice);
        }
        let bigint = BigInt::new(out);
        assert(out == if choice.b() { b_limbs } else { a_limbs });
        Self(ArkworksFq::NEWFN(bigint))
    }
}
}
fn main(){}
