"""Regenerate MANIFEST.json from units/props.py (claimed properties) and the not-applicable table."""
import json, os, sys
ROOT = os.path.dirname(os.path.dirname(os.path.abspath(__file__)))
sys.path.insert(0, ROOT)
from units import props as P

def main():
    allp = [json.loads(l) for l in open(os.path.join(ROOT, "properties.jsonl"))]
    checks = []
    for pid, s in sorted(P.PROPS.items()):
        if s.get("unclaimed"):
            continue
        checks.append(dict(
            property_id=pid,
            quick_cmd=f"./check {pid} --tier quick",
            thorough_cmd=f"./check {pid} --tier thorough",
            evidence_file=f"/verif/evidence/{pid}.json",
            replay_cmd_template="cat {path}",
            engine="vx",
            level_claimed=dict(category="proof", text=s.get("level_text", s.get("explanation", "")), design_ref="DESIGN.md section 5 / " + pid),
            level_note="; ".join(s.get("assumptions", []))[:3000],
            technique=s.get("technique", "contract-based deductive verification: Verus contracts spliced into functions extracted verbatim from /repo each run"),
        ))
    na = []
    for p in allp:
        if p["id"] not in P.PROPS or P.PROPS[p["id"]].get("unclaimed"):
            na.append(dict(property_id=p["id"], reason=P.NOT_APPLICABLE.get(p["id"], "check not built yet (see DESIGN.md section 6)")))
    m = dict(version=1,
             setup_cmd="tools/setup.sh",
             hooks=dict(guard="decaf377_verif", enable='RUSTFLAGS="--cfg decaf377_verif" (hint-override hook in FqVarExtension::isqrt; used only by the replay runner built with features r1cs; the Verus units always see the guard-off text)',
                        baseline_off_cmd="cd /repo && cargo test --workspace --no-fail-fast --offline", source_commits=['1217a89'], add_only=True),
             engines=[dict(name="vx", path="/verif/vx", serves_properties=[c["property_id"] for c in checks],
                           kind_free_text="extractor (python) + Verus 0.2026.09.13 single-file units + Kani harnesses on verbatim fiat files")],
             checks=checks,
             notes="fix: commits in /repo (genuine defects, see known_findings.txt): " + P.FIX_NOTE,
             not_applicable=na)
    json.dump(m, open(os.path.join(ROOT, "MANIFEST.json"), "w"), indent=1)

if __name__ == "__main__":
    main()
