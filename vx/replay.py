"""Replay stage: search a concrete failing input for a failed obligation against the REAL crate.
Runs only after the verifier has failed (or run out of resources on) an obligation; never decides a property."""
import json
import os
import subprocess

ROOT = os.path.dirname(os.path.dirname(os.path.abspath(__file__)))
RUNNER = os.path.join(ROOT, "replay_runner")


def search(pid, unit, mm, fm, seed):
    """returns dict(input=..., got=..., want=..., cmd=...) or dict() when nothing was found / no probe exists"""
    if not os.path.isdir(RUNNER):
        return {}
    probe = probe_for(unit, mm, fm)
    if probe is None:
        return {}
    feats, name = probe
    cmd = ["cargo", "run", "--offline", "--quiet", "--release", "--manifest-path", os.path.join(RUNNER, "Cargo.toml")] + feats + \
          ["--", name, str(seed)]
    try:
        p = subprocess.run(cmd, capture_output=True, text=True, timeout=900,
                           env=dict(os.environ, CARGO_TARGET_DIR=os.path.join(ROOT, "build", "replay_target"), CARGO_NET_OFFLINE="true"))
    except subprocess.TimeoutExpired:
        return {}
    for line in p.stdout.splitlines():
        if line.startswith("CEX "):
            d = json.loads(line[4:])
            d["cmd"] = " ".join(cmd)
            return d
    return {}


def probe_for(unit, mm, fm):
    try:
        table = json.load(open(os.path.join(RUNNER, "probes.json")))
    except Exception:
        return None
    key = f"{mm.get('file')}::{mm.get('header')}::{fm.get('display', fm['fn'])}"
    e = table.get(key) or table.get(f"{mm.get('file')}::*::{fm.get('display', fm['fn'])}")
    if not e:
        return None
    return e.get("cargo_args", []), e["probe"]
