"""Replay stage: search a concrete failing input for a failed / undecided obligation against the REAL crate
(replay_runner: path dependency on /repo, rebuilt from the working tree). Runs only after the verifier has failed (or could
not decide) an obligation, or as a labelled *bounded* stand-in in the thorough tier; it never proves anything."""
import json
import os
import re
import subprocess

ROOT = os.path.dirname(os.path.dirname(os.path.abspath(__file__)))
RUNNER = os.path.join(ROOT, "replay_runner")
_BUILT = {}


def build(features):
    """features: 'ark' | 'min' | 'r1cs' ; returns path of the runner binary or None"""
    if features in _BUILT:
        return _BUILT[features]
    tgt = os.path.join(ROOT, "build", "replay_target_" + features)
    cmd = ["cargo", "build", "--offline", "--release", "--quiet", "--manifest-path", os.path.join(RUNNER, "Cargo.toml")]
    if features == "min":
        cmd += ["--no-default-features"]
    elif features == "r1cs":
        cmd += ["--features", "r1cs"]
    env = dict(os.environ, CARGO_TARGET_DIR=tgt, CARGO_NET_OFFLINE="true",
               RUSTFLAGS="-Awarnings" + (" --cfg decaf377_verif" if features == "r1cs" else ""))
    try:
        p = subprocess.run(cmd, capture_output=True, text=True, timeout=1500, env=env)
    except subprocess.TimeoutExpired:
        _BUILT[features] = None
        return None
    exe = os.path.join(tgt, "release", "replay_runner")
    _BUILT[features] = exe if p.returncode == 0 and os.path.exists(exe) else None
    if _BUILT[features] is None:
        _BUILT[features + "_err"] = p.stderr[-2000:]
    return _BUILT[features]


def run_probe(features, probe, seed, iters=None, timeout=900):
    exe = build(features)
    if exe is None:
        return dict(status="norun", detail="runner does not build for this tree: " + _BUILT.get(features + "_err", "")[:600])
    env = dict(os.environ)
    if iters:
        env["REPLAY_ITERS"] = str(iters)
    try:
        p = subprocess.run([exe, probe, str(seed)], capture_output=True, text=True, timeout=timeout, env=env)
    except subprocess.TimeoutExpired:
        return dict(status="norun", detail="timeout")
    for line in p.stdout.splitlines():
        if line.startswith("CEX "):
            try:
                d = json.loads(line[4:])
            except Exception:
                d = dict(check="unparsed", input=line[4:300], got="", want="")
            d["status"] = "cex"
            d["cmd"] = f"cd /verif/replay_runner && cargo run --offline --release{' --no-default-features' if features == 'min' else ''}{' --features r1cs' if features == 'r1cs' else ''} -- {probe} {seed}"
            return d
        if line.startswith("OK "):
            return dict(status="ok", checks=int(line[3:].strip() or 0))
    return dict(status="norun", detail=(p.stdout + p.stderr)[-600:])


def probes_for(file, header, fn, pid=None):
    """which (features, probe) pairs exercise the function `file :: header :: fn`"""
    f = file or ""
    h = header or ""
    m = re.match(r'src/fields/(fq|fr|fp)', f)
    if m:
        fld = m.group(1)
        if "/u32/" in f:
            return [("min", f"field.{fld}")]
        if "/u64/" in f or f.endswith("arkworks.rs"):
            return [("ark", f"field.{fld}")]
        return [("ark", f"field.{fld}"), ("min", f"field.{fld}")]
    if f.startswith("src/sign.rs"):
        return [("ark", "curve.decode"), ("ark", "curve.encode"), ("min", "min.all")]
    if f.startswith("src/min_curve"):
        return [("min", "min.all")]
    if f.startswith("src/ark_curve/r1cs"):
        # C14 is about adversarial hints only; C13 about the honest prover
        if pid == "C14":
            return [("r1cs", "r1cs.hints"), ("r1cs", "r1cs.alloc"), ("r1cs", "r1cs.unforced")]
        if pid == "C13":
            return [("r1cs", "r1cs.d6"), ("r1cs", "r1cs.unforced"), ("r1cs", "r1cs.lazy")]
        return [("r1cs", "r1cs.d6"), ("r1cs", "r1cs.hints"), ("r1cs", "r1cs.unforced"), ("r1cs", "r1cs.lazy"), ("r1cs", "r1cs.alloc")]
    if (f.endswith("ark_curve/encoding.rs") or f.endswith("ark_curve/serialize.rs")) and not fn:
        return [("ark", "curve.decode"), ("ark", "curve.encode"), ("ark", "curve.ctor")]      # file-level watch
    if f.endswith("ark_curve/encoding.rs") or f.endswith("ark_curve/serialize.rs"):
        if re.search(r'decompress|try_from|deserialize', fn) or "TryFrom" in h or "Deserialize" in h:
            return [("ark", "curve.decode"), ("ark", "curve.ctor")]
        if fn == "negate":
            return [("ark", "curve.ops")]
        return [("ark", "curve.encode")]
    if "ark_curve/ops/" in f:
        return [("ark", "curve.mul")] if "Mul" in h else [("ark", "curve.ops")]
    if f.endswith("ark_curve/elligator.rs"):
        return [("ark", "curve.elligator")]
    if f.endswith("ark_curve/invsqrt.rs"):
        return [("ark", "curve.sqrt")]
    if f.endswith("ark_curve/bls12_377.rs"):
        return [("ark", "bls")]
    if ("ark_curve/element" in f or f.endswith("ark_curve/rand.rs")) and not fn:
        return [("ark", "curve.ctor"), ("ark", "curve.ops"), ("ark", "curve.eqhash"), ("ark", "curve.mul")]   # file-level watch
    if "ark_curve/element" in f or f.endswith("ark_curve/rand.rs"):
        if re.search(r'^(eq|hash|is_zero|is_identity)$', fn):
            return [("ark", "curve.eqhash")]
        if re.search(r'mul_bigint|multiscalar', fn):
            return [("ark", "curve.mul")]
        if fn == "sum" or "Sum" in h:
            return [("ark", "curve.ops")]
        return [("ark", "curve.ctor"), ("ark", "curve.ops"), ("ark", "curve.eqhash")]
    return []


def search(pid, unit, mm, fm, seed, iters=96, seeds=1):
    """first failing input found for the function of a failed obligation; otherwise a dict without `input` that says how
    much was searched: ran = number of bounded checks that passed, probes = [(build, probe)], norun = probes that did not run"""
    if not os.path.isdir(RUNNER):
        return {}
    file = mm.get("file")
    if not file or file.startswith("("):      # generated lemma: the source file its literals were read from
        file = fm.get("file") or file
    ran, probes, norun = 0, [], []
    for (feat, probe) in probes_for(file, mm.get("header"), fm.get("display", fm.get("fn", "")), pid):
        for k in range(seeds):
            r = run_probe(feat, probe, (seed or 1) + 7919 * k, iters=iters)
            if r.get("status") == "cex":
                return dict(input=r.get("input"), check=r.get("check"), got=r.get("got"), want=r.get("want"), cmd=r.get("cmd"), probe=probe, build=feat)
            if r.get("status") == "ok":
                ran += r.get("checks", 0)
                probes.append((feat, probe))
            else:
                norun.append((feat, probe, r.get("detail", "")[:200]))
                break
    return dict(ran=ran, probes=probes, norun=norun)


def known_finding_reproduces(spec):
    """spec = '<features>:<probe>' whose stdout must contain 'reproduces' (and not 'does not reproduce')"""
    feat, probe = spec.split(":", 1)
    exe = build(feat)
    if exe is None:
        return None
    try:
        p = subprocess.run([exe, probe, "1"], capture_output=True, text=True, timeout=600)
    except subprocess.TimeoutExpired:
        return None
    out = p.stdout
    if "does not reproduce" in out:
        return False
    return "reproduces" in out
