"""R21: rewrite binary `+ - *` (and `+= -= *=`) on non-primitive operands into the trait calls they desugar to
(`a + b` == `core::ops::Add::add(a, b)`, `a += b` == `core::ops::AddAssign::add_assign(&mut a, b)`).

Why: Verus erases `&` from types, so `impl Add<&T> for &T` and `impl Add<&T> for T` collide when it looks up the
*impl-level* contract of an operator expression; a path call is resolved by rustc's DefId and is not affected.
Only used for units that set `ufcs=True` (curve-level operator forwarding), never for integer arithmetic.
"""
import re
from .rsscan import Src, OPEN

TOK = re.compile(r"""
    (?P<ws>(?:\s+|//[^\n]*|/\*.*?\*/)+)
  | (?P<id>[A-Za-z_]\w*)
  | (?P<lt>'[A-Za-z_]\w*(?!'))
  | (?P<num>\d[\w.]*?(?=\.\.|[^\w.]|$)|\d[\w]*)
  | (?P<str>b?"(?:\\.|[^"\\])*"|'(?:\\.|[^'\\])')
  | (?P<op><<=|>>=|\.\.=|\.\.\.|::|->|=>|==|!=|<=|>=|&&|\|\||\+=|-=|\*=|/=|%=|\^=|&=|\|=|<<|>>|\.\.|[-+*/%^!&|=<>@.,;:#$?~\[\](){}])
""", re.X | re.S)

KEYWORDS = {"if", "else", "match", "for", "in", "while", "loop", "return", "let", "unsafe", "move", "break", "continue", "as",
            "proof", "assert", "invariant", "ensures", "requires", "decreases", "broadcast", "use", "forall", "exists", "by"}
BIN = {"*": ("Mul::mul", 12), "/": (None, 12), "%": (None, 12), "+": ("Add::add", 11), "-": ("Sub::sub", 11),
       "<<": (None, 10), ">>": (None, 10), "&": (None, 9), "^": (None, 8), "|": (None, 7),
       "==": (None, 6), "!=": (None, 6), "<": (None, 6), ">": (None, 6), "<=": (None, 6), ">=": (None, 6),
       "&&": (None, 5), "||": (None, 4), "..": (None, 3), "..=": (None, 3)}
ASSIGN = {"+=": "AddAssign::add_assign", "-=": "SubAssign::sub_assign", "*=": "MulAssign::mul_assign"}


class Bail(Exception):
    pass


def tokenize(text):
    toks = []
    i = 0
    while i < len(text):
        m = TOK.match(text, i)
        if not m:
            raise Bail(f"cannot tokenize at {text[i:i+20]!r}")
        kind = m.lastgroup
        toks.append((kind, m.group(0)))
        i = m.end()
    return toks


class Group:
    def __init__(self, open_, inner, close):
        self.open, self.inner, self.close = open_, inner, close

    def text(self):
        return self.open + self.inner + self.close


def nest(toks):
    """token list -> list of items, bracket groups rewritten recursively into Group objects"""
    out = []
    stack = [out]
    opens = []
    for kind, t in toks:
        if kind == "op" and t in "([{":
            stack.append([])
            opens.append(t)
        elif kind == "op" and t in ")]}":
            inner = stack.pop()
            o = opens.pop()
            stack[-1].append(("grp", (o, inner, t)))
        else:
            stack[-1].append((kind, t))
    if len(stack) != 1:
        raise Bail("unbalanced")
    return out


def render_items(items):
    return "".join(render_item(it) for it in items)


def render_item(it):
    kind, v = it
    if kind == "grp":
        o, inner, c = v
        return o + rewrite_seq(inner) + c
    return v


def sig(items):
    return [it for it in items if it[0] != "ws"]


def rewrite_seq(items):
    """a bracket group's content: split at depth-0 `;` and `,`, rewrite each segment"""
    out = []
    seg = []
    for it in items:
        if it[0] == "op" and it[1] in (";", ","):
            out.append(rewrite_segment(seg))
            out.append(it[1])
            seg = []
        else:
            seg.append(it)
    out.append(rewrite_segment(seg))
    return "".join(out)


def rewrite_segment(items):
    """one statement / field / argument"""
    if not sig(items):
        return render_items(items)
    sg = sig(items)
    if len(sg) >= 2 and sg[0][0] == "id" and sg[0][1] not in KEYWORDS and sg[1] == ("op", ":"):
        # struct-literal field `name: expr`
        k = items.index(sg[1])
        return "".join(render_raw(x) for x in items[:k + 1]) + rewrite_segment(items[k + 1:])
    # split at keywords and block groups that follow control keywords; rewrite expression runs in between
    out = []
    run = []
    expect_block = False
    i = 0
    n = len(items)

    def flush():
        nonlocal run
        if run:
            out.append(rewrite_expr_run(run))
            run = []
    while i < n:
        kind, v = items[i]
        if kind == "id" and v in KEYWORDS:
            flush()
            out.append(v)
            if v in ("if", "while", "match", "in"):
                expect_block = True
            if v in ("proof", "assert", "invariant", "ensures", "requires", "decreases", "broadcast", "forall", "exists", "by"):
                # ghost code: leave the rest of the segment untouched
                out.append("".join(render_raw(x) for x in items[i + 1:]))
                return "".join(out)
        elif kind == "grp" and v[0] == "{":
            prev = sig(run)
            is_struct_lit = (not expect_block) and prev and prev[-1][0] == "id" and prev[-1][1][0].isupper()
            if is_struct_lit:
                run.append(items[i])
            else:
                flush()
                out.append(render_item(items[i]))
                expect_block = False
        elif kind == "op" and v == "=>":
            flush()
            out.append(v)
        elif kind == "op" and v == "=":
            # let / assignment: left side verbatim
            lhs = "".join(render_raw(x) for x in run)
            run = []
            out.append(lhs + "=")
        elif kind == "op" and v in ASSIGN:
            lhs_items = run
            run = []
            rhs = items[i + 1:]
            lhs_t = "".join(render_raw(x) for x in lhs_items).strip()
            lead = re.match(r'\s*', "".join(render_raw(x) for x in lhs_items)).group(0)
            out.append(f"{lead}{{ let rhs_ = {rewrite_segment(rhs).strip()}; core::ops::{ASSIGN[v]}(&mut {lhs_t}, rhs_) }}")
            return "".join(out)
        else:
            run.append(items[i])
        i += 1
    flush()
    return "".join(out)


def render_raw(it):
    kind, v = it
    if kind == "grp":
        o, inner, c = v
        return o + "".join(render_raw(x) for x in inner) + c
    return v


def rewrite_expr_run(items):
    """Pratt-parse a keyword-free token run; rewrite + - * into trait calls"""
    lead = ""
    k = 0
    while k < len(items) and items[k][0] == "ws":
        lead += items[k][1]
        k += 1
    trail = ""
    e = len(items)
    while e > k and items[e - 1][0] == "ws":
        trail = items[e - 1][1] + trail
        e -= 1
    core = [it for it in items[k:e] if it[0] != "ws"]
    if not core:
        return lead + trail
    try:
        p = Parser(core)
        node = p.expr(0)
        if p.i != len(core):
            raise Bail("trailing tokens")
        return lead + emit(node) + trail
    except Bail:
        return render_items(items)


class Parser:
    def __init__(self, toks):
        self.t = toks
        self.i = 0

    def peek(self):
        return self.t[self.i] if self.i < len(self.t) else (None, None)

    def expr(self, minp):
        left = self.unary()
        while True:
            kind, v = self.peek()
            if kind != "op" or v not in BIN:
                break
            fn, prec = BIN[v]
            if prec < minp:
                break
            if v in ("<", ">"):
                raise Bail("angle brackets")
            self.i += 1
            right = self.expr(prec + 1)
            left = ("bin", v, left, right)
        return left

    def unary(self):
        kind, v = self.peek()
        if kind == "op" and v in ("&", "*", "-", "!", "&&"):
            self.i += 1
            pre = v
            k2, v2 = self.peek()
            if v in ("&", "&&") and k2 == "id" and v2 == "mut":
                self.i += 1
                pre = v + "mut "
            return ("un", pre, self.unary())
        return self.postfix()

    def postfix(self):
        kind, v = self.peek()
        if kind is None:
            raise Bail("unexpected end")
        parts = []
        if kind in ("id", "num", "str", "lt"):
            parts.append(v)
            self.i += 1
        elif kind == "grp":
            parts.append(render_item((kind, v)))
            self.i += 1
        elif kind == "op" and v == "|":
            raise Bail("closure")
        else:
            raise Bail(f"unexpected token {v!r}")
        while True:
            kind, v = self.peek()
            if kind == "op" and v in (".", "::", "?"):
                parts.append(v)
                self.i += 1
                if v != "?":
                    k2, v2 = self.peek()
                    if k2 in ("id", "num"):
                        parts.append(v2)
                        self.i += 1
                    elif k2 == "op" and v2 == "<":
                        raise Bail("turbofish")
                    else:
                        raise Bail("postfix")
            elif kind == "grp" and v[0] in "([":
                parts.append(render_item((kind, v)))
                self.i += 1
            elif kind == "grp" and v[0] == "{" and parts and re.match(r'[A-Z]', parts[-1] or ""):
                parts.append(" " + render_item((kind, v)))
                self.i += 1
            elif kind == "id" and v == "as":
                raise Bail("cast")
            else:
                break
        return ("atom", "".join(parts))


def emit(node):
    if node[0] == "atom":
        return node[1]
    if node[0] == "un":
        return node[1] + emit(node[2])
    _, op, l, r = node
    fn = BIN[op][0]
    if fn:
        return f"core::ops::{fn}({emit(l)}, {emit(r)})"
    return f"{emit(l)} {op} {emit(r)}"


def rewrite_body(body):
    """body = '{ ... }' text of a function; returns (new_body, n_rewrites)"""
    toks = tokenize(body)
    items = nest(toks)
    new = render_items(items)
    n = new.count("core::ops::") - body.count("core::ops::")
    return new, n
