"""Run Verus on a generated unit and map its verdicts back to the items under contract."""
import json
import os
import re
import subprocess
import time
import hashlib

from .extract import build_unit, Unsupported
from .rsscan import LostAnchor, ScanError

ROOT = os.path.dirname(os.path.dirname(os.path.abspath(__file__)))
BUILD = os.path.join(ROOT, "build")

VERIF_FAIL = re.compile(
    r"postcondition not satisfied|precondition not satisfied|precondition not met|assertion failed|invariant not satisfied|"
    r"possible arithmetic (under|over)flow|possible division by zero|possible bit shift|"
    r"loop invariant|decreases not satisfied|could not prove termination|index out of bounds|"
    r"unreachable|failed to (prove|satisfy)|assert_by_compute|constructor of a datatype|"
    r"by\(compute.*\) failed|expression simplifies to false|not simplify to true|cannot show invariant holds|"
    r"recursive function|possible (usize|isize|u\d+|i\d+)|proof block failed|failed to simplify|compute", re.I)
RLIMIT = re.compile(r"resource limit|rlimit|timed? ?out|exceeded", re.I)


def split_errors(stderr):
    """split rustc-style diagnostics into blocks: (level, title, text)"""
    blocks = []
    cur = None
    for line in stderr.splitlines():
        m = re.match(r'^(error|warning|note)(\[[A-Z0-9]+\])?: (.*)$', line)
        if m:
            if cur:
                blocks.append(cur)
            cur = [m.group(1), m.group(3), line + "\n"]
        elif cur:
            cur[2] += line + "\n"
    if cur:
        blocks.append(cur)
    return blocks


def block_lines(text, fname):
    """line numbers of `fname` mentioned by a diagnostic: spans (--> / :::) and gutter numbers below them"""
    base = os.path.basename(fname)
    out = []
    ours = False
    for line in text.splitlines():
        m = re.match(r'\s*(-->|:::)\s+(\S+?):(\d+):\d+', line)
        if m:
            ours = os.path.basename(m.group(2)) == base
            if ours:
                out.append(int(m.group(3)))
            continue
        g = re.match(r'\s*(\d+)\s*\|', line)
        if g and ours:
            out.append(int(g.group(1)))
    return out


class UnitResult:
    def __init__(self, name):
        self.name = name
        self.status = "ok"           # ok | undecided
        self.reason = ""
        self.fns = {}                # (module, fn) -> dict(status, time_us, rlimit, errors[])
        self.meta = None
        self.wall = 0.0
        self.stderr = ""
        self.path = ""
        self.verus_total_ms = 0
        self.smt_ms = 0


def run_unit(unit, cover=False, threads=4, rlimit=None, keep=True, skip=()):
    res = UnitResult(unit.name + ("__cover" if cover else ""))
    t0 = time.time()
    try:
        text, meta = build_unit(unit, cover=cover, skip=skip)
    except (LostAnchor, Unsupported, ScanError) as e:
        res.status = "undecided"
        res.reason = f"{type(e).__name__}: {e}"
        res.wall = time.time() - t0
        return res
    os.makedirs(BUILD, exist_ok=True)
    path = os.path.join(BUILD, res.name + ".rs")
    with open(path, "w") as f:
        f.write(text)
    res.path = path
    res.meta = meta
    meta["generated_sha256"] = hashlib.sha256(text.encode()).hexdigest()
    cmd = ["verus", path, "--output-json", "--time-expanded", "--triggers-mode", "silent", "--num-threads", str(threads),
           "--multiple-errors", "4"]
    rl = rlimit or unit.rlimit
    if rl:
        cmd += ["--rlimit", str(rl)]
    meta["cmd"] = " ".join(cmd)
    compute_failed = {}
    for _round in range(16):
        try:
            p = subprocess.run(cmd, capture_output=True, text=True, cwd=ROOT, timeout=3600)
        except subprocess.TimeoutExpired:
            res.status = "undecided"
            res.reason = "verus timeout"
            return res
        # a failing by(compute_only) aborts Verus at the first such lemma: record it as failed, blank it, run again
        cf = [b for b in split_errors(p.stderr) if b[0] == "error" and re.search(r"simplifies to false|failed to simplify|which evaluates to false", b[1])]
        if not cf or not getattr(unit, "proof_obls", None):
            break
        lines_now = text.split("\n")
        progressed = False
        for (lvl, title, btxt) in cf:
            for ln in block_lines(btxt, path):
                # find the owning lemma
                k = ln - 1
                while k >= 0 and not re.match(r'\s*(?:pub )?proof fn (\w+)', lines_now[k]):
                    k -= 1
                if k >= 0:
                    nm = re.match(r'\s*(?:pub )?proof fn (\w+)', lines_now[k]).group(1)
                    if nm not in compute_failed:
                        compute_failed[nm] = dict(kind="verif", title=title, text=btxt[:3000], lines=[ln], cover=False)
                        lines_now[ln - 1] = "    // (obligation failed by exact evaluation; blanked to evaluate the remaining lemmas)"
                        progressed = True
                    break
        if not progressed:
            break
        text = "\n".join(lines_now)
        with open(path, "w") as f:
            f.write(text)
    res.wall = time.time() - t0
    res.stderr = p.stderr
    try:
        js = json.loads(p.stdout)
    except Exception:
        res.status = "undecided"
        res.reason = "verus produced no JSON (crash or front-end error)"
        return res
    vr = js.get("verification-results", {})
    tm = js.get("times-ms", {})
    res.verus_total_ms = tm.get("total", 0)
    res.smt_ms = tm.get("smt", {}).get("smt-run", 0)
    blocks = split_errors(p.stderr)
    # front-end / unsupported-construct errors: anything that is an error but not a verification failure
    lines_text = text.split("\n")
    cover_lines = {i + 1 for i, l in enumerate(lines_text) if l.rstrip().endswith("// COVER")}
    mod_of_line = {}
    for mod, mm in meta["modules"].items():
        lo, hi = mm["lines"]
        for ln in range(lo, hi + 1):
            mod_of_line[ln] = mod
    # per-function verdicts from the SMT breakdown
    verdict = {}
    for mt in tm.get("smt", {}).get("smt-run-module-times", []):
        mod = mt.get("module", "")
        for fb in mt.get("function-breakdown", []):
            fn = fb["function"].split("::")[-1]
            key = (mod, fn)
            d = verdict.setdefault(key, dict(success=True, time_us=0, rlimit=0))
            d["success"] = d["success"] and bool(fb.get("success"))
            d["time_us"] += fb.get("time-micros", 0)
            d["rlimit"] += fb.get("rlimit", 0)
    hard = []
    errs_by_mod = {}
    for (lvl, title, btxt) in blocks:
        if lvl != "error":
            continue
        if title.startswith("aborting due to"):
            continue
        lns = block_lines(btxt, path)
        mods = {mod_of_line[l] for l in lns if l in mod_of_line}
        kind = "verif" if VERIF_FAIL.search(title) else ("rlimit" if RLIMIT.search(title) else "other")
        if kind == "other":
            hard.append(title + "\n" + btxt[:1500])
        for mod in mods:
            errs_by_mod.setdefault(mod, []).append(dict(kind=kind, title=title, text=btxt[:3000], lines=lns,
                                                        cover=bool(cover_lines & set(lns))))
        if not mods and kind != "other":
            errs_by_mod.setdefault("", []).append(dict(kind=kind, title=title, text=btxt[:3000], lines=lns, cover=False))
    if hard or vr.get("encountered-vir-error") or not tm.get("smt"):
        # isolate: if every front-end error sits inside item modules, rerun without them so that the
        # remaining obligations are still decided; the skipped ones stay undecided
        bad_mods = set()
        all_located = bool(hard)
        for (lvl, title, btxt) in blocks:
            if lvl != "error" or title.startswith("aborting due to") or VERIF_FAIL.search(title) or RLIMIT.search(title):
                continue
            ms = {mod_of_line[l] for l in block_lines(btxt, path) if l in mod_of_line}
            if not ms:
                all_located = False
            bad_mods |= ms
        if all_located and bad_mods and not skip and len(bad_mods) <= 6:
            r2 = run_unit(unit, cover=cover, threads=threads, rlimit=rlimit, keep=keep, skip=tuple(sorted(bad_mods)))
            for mod in bad_mods:
                mm = meta["modules"][mod]
                for fm in mm["fns"]:
                    r2.fns[(mod, fm["fn"])] = dict(status="undecided", time_us=0, rlimit=0, cover_hit=False,
                                                   errors=[dict(kind="other", title="front-end error: " + hard[0].split("\n")[0][:200],
                                                                text=hard[0][:1500], lines=[], cover=False)])
                mm2 = dict(mm)
                r2.meta["modules"][mod] = mm2
            r2.isolated = sorted(bad_mods)
            return r2
        res.status = "undecided"
        res.reason = "front-end error (construct outside the subset / prelude gap): " + (hard[0][:600] if hard else "vir error")
    for mod, mm in meta["modules"].items():
        if mm["mode"] != "verify":
            continue
        for fm in mm["fns"]:
            if fm.get("mode") == "decl":
                continue
            key = (mod, fm["fn"])
            v = verdict.get(key)
            errs = errs_by_mod.get(mod, [])
            # attribute errors to this fn if the module has several fns: by line containment is not available
            # per fn, so all errors of the module are attached (modules hold one impl).
            if v is None:
                st = "verified-trivially" if res.status == "ok" and not errs else "undecided"
                d = dict(status=st, time_us=0, rlimit=0, errors=errs)
            elif v["success"] and not any(e["kind"] == "verif" for e in errs):
                d = dict(status="verified", time_us=v["time_us"], rlimit=v["rlimit"], errors=[])
            else:
                kinds = {e["kind"] for e in errs}
                if "verif" in kinds:
                    st = "failed"
                elif "rlimit" in kinds:
                    st = "undecided"
                else:
                    st = "failed" if not v["success"] and res.status == "ok" else "undecided"
                d = dict(status=st, time_us=v["time_us"], rlimit=v["rlimit"], errors=errs)
            if res.status == "undecided" and d["status"] != "failed":
                d["status"] = "undecided"
            d["cover_hit"] = any(e["cover"] for e in errs)
            res.fns[key] = d
    # named proof obligations of the unit (generated lemmas, e.g. one per constant)
    obls = getattr(unit, "proof_obls", [])
    if obls and not cover:
        starts = [(i + 1, m_.group(1)) for i, l in enumerate(lines_text) for m_ in [re.match(r'\s*(?:pub )?(?:broadcast )?proof fn (\w+)', l)] if m_]
        def owner(ln):
            best = None
            for (st, nm) in starts:
                if st <= ln:
                    best = nm
            return best
        err_by_lemma = {}
        for e in errs_by_mod.get("", []):
            for ln in e["lines"]:
                nm = owner(ln)
                if nm:
                    err_by_lemma.setdefault(nm, []).append(e)
                    break
        pm = dict(file="(generated lemma)", header=None, mode="verify", fns=[], lines=[0, -1], label="proof obligations")
        for ob in obls:
            v = verdict.get(("", ob["name"]))
            errs = err_by_lemma.get(ob["name"], [])
            if ob["name"] in compute_failed:
                errs = [compute_failed[ob["name"]]]
                v = dict(success=False, time_us=0, rlimit=0)
            if v is None:
                st = "undecided" if res.status != "ok" or errs else "verified-trivially"
            elif v["success"] and not errs:
                st = "verified"
            elif any(e["kind"] == "verif" for e in errs) or (not v["success"] and res.status == "ok" and not any(e["kind"] == "rlimit" for e in errs)):
                st = "failed"
            else:
                st = "undecided"
            fm = dict(fn=ob["name"], mode="verify", file=ob.get("file", ""), header=None, lines=ob.get("lines"), sha256=ob.get("sha256", ""),
                      rules=[], props=list(ob.get("props", ())), tag=ob.get("descr", ""))
            pm["fns"].append(fm)
            res.fns[("lemmas", ob["name"])] = dict(status=st, time_us=(v or {}).get("time_us", 0), rlimit=(v or {}).get("rlimit", 0),
                                                   errors=errs, cover_hit=True)
        meta["modules"]["lemmas"] = pm
        # errors already attributed to named obligations are not counted against the prelude
        errs_by_mod[""] = [e for e in errs_by_mod.get("", []) if not any(owner(ln) in {o["name"] for o in obls} for ln in e["lines"])]
        for ob in obls:
            verdict.pop(("", ob["name"]), None)
    # unit lemmas / prelude proof fns (module ""): any failure there poisons the unit
    for e in errs_by_mod.get("", []):
        if e["kind"] == "verif":
            res.fns[("", "prelude/lemmas")] = dict(status="failed", time_us=0, rlimit=0, errors=[e], cover_hit=False)
    for (mod, fn), v in verdict.items():
        if mod == "" and not v["success"] and ("", "prelude/lemmas") not in res.fns:
            res.fns[("", "prelude/lemmas")] = dict(status="undecided", time_us=0, rlimit=0, errors=[], cover_hit=False)
    res.n_verified = vr.get("verified", 0)
    res.n_errors = vr.get("errors", 0)
    return res


ASSUME_PAT = re.compile(r'(external_body|assume_specification|\baxiom\b|\bassume\s*\(|\badmit\s*\()')


def scan_assumptions(text):
    """every trusted construct in a generated file, with the item it is attached to"""
    out = []
    lines = text.split("\n")
    for i, l in enumerate(lines):
        if l.lstrip().startswith("//"):
            continue
        m = ASSUME_PAT.search(l)
        if not m:
            continue
        ctx = l.strip()
        if "external_body" in l and i + 1 < len(lines):
            j = i + 1
            while j < len(lines) and (lines[j].strip().startswith("#[") or not lines[j].strip()):
                j += 1
            if j < len(lines):
                ctx = lines[j].strip()
        out.append((m.group(1).strip().rstrip("("), ctx[:160]))
    return out
