"""Kani back end for src/ark_curve/r1cs/lazy.rs: the VERBATIM file (`#[path]`-included, nothing extracted) is compiled
against stand-ins for its two collaborators (`FqVar`, inner `ElementVar`) and the stand-in crate `ark_relations`.
RefCell is the real core::cell::RefCell, so double borrows (BorrowMutError) and `unreachable!()` are checked too.

What is proved (all symbolic constructor arguments, all histories of forcing operations up to length 4, which visits
every state of the three-state cache and applies both operations to each): forcing returns exactly what the inner
gadget returns on the constructor argument, always the same value; the inner gadget -- i.e. constraint emission -- is
invoked at most once per direction; clones behave like the original; nothing panics."""
import os
import subprocess
import time
from concurrent.futures import ThreadPoolExecutor

from .extract import REPO

ROOT = os.path.dirname(os.path.dirname(os.path.abspath(__file__)))
CRATE = os.path.join(ROOT, "build", "kani_lazy")

LIB = r'''#![allow(unused, dead_code, static_mut_refs)]
// stand-ins for the collaborators of lazy.rs: values are abstract 16-bit names; the inner gadgets are arbitrary
// (symbolically parameterised) functions that COUNT their invocations (= constraint emissions)
pub mod standin {
    use ark_relations::r1cs::SynthesisError;
    pub static mut K: [u16; 4] = [0; 4];
    pub static mut DEC: u32 = 0;
    pub static mut ENC: u32 = 0;
    #[derive(Clone, Debug, PartialEq, Eq)]
    pub struct FqVar { pub v: u16 }
    #[derive(Clone, Debug, PartialEq, Eq)]
    pub struct ElementVar { pub p: u16 }
    pub fn dec(v: u16) -> u16 { unsafe { v.wrapping_mul(K[0] | 1) ^ K[1] } }
    pub fn enc(p: u16) -> u16 { unsafe { p.wrapping_mul(K[2] | 1) ^ K[3] } }
    pub fn invalid(v: u16) -> bool { unsafe { (v ^ K[1]) & 7 == 5 } }
    impl ElementVar {
        pub fn decompress_from_field(s: FqVar) -> Result<ElementVar, SynthesisError> {
            unsafe { DEC += 1; }
            if invalid(s.v) { Err(SynthesisError::Unsatisfiable) } else { Ok(ElementVar { p: dec(s.v) }) }
        }
        pub fn compress_to_field(&self) -> Result<FqVar, SynthesisError> {
            unsafe { ENC += 1; }
            Ok(FqVar { v: enc(self.p) })
        }
    }
}
pub mod ark_curve {
    pub mod r1cs {
        pub use crate::standin::FqVar;
        pub mod inner { pub use crate::standin::ElementVar; }
        #[path = "@REPO@/src/ark_curve/r1cs/lazy.rs"]
        pub mod lazy;
    }
}

#[cfg(kani)]
mod proofs {
    use crate::ark_curve::r1cs::lazy::LazyElementVar;
    use crate::standin::*;
    const STEPS: usize = 4;
    fn setup() { unsafe { K = kani::any(); DEC = 0; ENC = 0; } }

    #[kani::proof]
    #[kani::unwind(6)]
    fn h_lazy_from_encoding() {
        setup();
        let s: u16 = kani::any();
        let mut l = LazyElementVar::new_from_encoding(FqVar { v: s });
        let mut forced_ok = false;
        for _ in 0..STEPS {
            let op: u8 = kani::any();
            kani::assume(op < 3);
            if op == 0 {
                let d0 = unsafe { DEC };
                let r = l.element();
                if invalid(s) { assert!(r.is_err()); }
                else {
                    assert!(r == Ok(ElementVar { p: dec(s) }));
                    // the decode gadget runs on the first successful forcing only
                    assert!(unsafe { DEC } == if forced_ok { d0 } else { d0 + 1 });
                    forced_ok = true;
                }
            } else if op == 1 {
                let d0 = unsafe { DEC };
                assert!(l.encoding() == Ok(FqVar { v: s }));
                assert!(unsafe { DEC } == d0);
            } else {
                l = l.clone();
            }
            assert!(unsafe { ENC } == 0);      // an encoding-built variable never runs the encode gadget
        }
        if !invalid(s) { assert!(unsafe { DEC } <= 1); }
    }

    #[kani::proof]
    #[kani::unwind(6)]
    fn h_lazy_from_element() {
        setup();
        let e: u16 = kani::any();
        let mut l = LazyElementVar::new_from_element(ElementVar { p: e });
        let mut forced = false;
        for _ in 0..STEPS {
            let op: u8 = kani::any();
            kani::assume(op < 3);
            if op == 0 {
                let e0 = unsafe { ENC };
                assert!(l.element() == Ok(ElementVar { p: e }));
                assert!(unsafe { ENC } == e0);
            } else if op == 1 {
                let e0 = unsafe { ENC };
                assert!(l.encoding() == Ok(FqVar { v: enc(e) }));
                assert!(unsafe { ENC } == if forced { e0 } else { e0 + 1 });
                forced = true;
            } else {
                l = l.clone();
            }
            assert!(unsafe { DEC } == 0);      // an element-built variable never runs the decode gadget
        }
        assert!(unsafe { ENC } <= 1);
    }
}
'''

ARK_REL = '''pub mod r1cs {
    #[derive(Clone, Copy, Debug, PartialEq, Eq)]
    pub enum SynthesisError { MissingCS, AssignmentMissing, Unsatisfiable, UnexpectedIdentity }
}
'''

HARNESSES = ["h_lazy_from_encoding", "h_lazy_from_element"]


def generate():
    os.makedirs(os.path.join(CRATE, "src"), exist_ok=True)
    os.makedirs(os.path.join(CRATE, "ark_relations", "src"), exist_ok=True)
    if not os.path.exists(os.path.join(REPO, "src/ark_curve/r1cs/lazy.rs")):
        from .rsscan import LostAnchor
        raise LostAnchor("src/ark_curve/r1cs/lazy.rs not found")
    open(os.path.join(CRATE, "src", "lib.rs"), "w").write(LIB.replace("@REPO@", REPO))
    open(os.path.join(CRATE, "ark_relations", "src", "lib.rs"), "w").write(ARK_REL)
    open(os.path.join(CRATE, "ark_relations", "Cargo.toml"), "w").write('[package]\nname = "ark-relations"\nversion = "0.0.0"\nedition = "2021"\n[lib]\nname = "ark_relations"\n')
    open(os.path.join(CRATE, "Cargo.toml"), "w").write("""[package]
name = "kani_lazy"
version = "0.1.0"
edition = "2021"
[workspace]
[dependencies]
ark-relations = { path = "ark_relations" }
[lints.rust]
unexpected_cfgs = { level = "allow", check-cfg = ['cfg(kani)'] }
""")
    os.makedirs(os.path.join(CRATE, ".cargo"), exist_ok=True)
    open(os.path.join(CRATE, ".cargo", "config.toml"), "w").write("[net]\noffline = true\n")


def run_one(h, timeout=1200):
    t0 = time.time()
    env = dict(os.environ, CARGO_NET_OFFLINE="true", CARGO_TARGET_DIR=os.path.join(ROOT, "build", "kani_lazy_target"))
    cmd = ["cargo", "kani", "--harness", h, "--output-format", "terse"]
    try:
        p = subprocess.run(cmd, capture_output=True, text=True, cwd=CRATE, timeout=timeout, env=env)
    except subprocess.TimeoutExpired:
        return dict(name=h, status="undecided", detail="kani timeout", time_s=round(time.time() - t0, 1))
    out = p.stdout + p.stderr
    if "VERIFICATION:- SUCCESSFUL" in out:
        st = "verified"
    elif "VERIFICATION:- FAILED" in out:
        st = "failed"
    else:
        st = "undecided"
    fails = "\n".join(l for l in out.splitlines() if "FAILURE" in l or "Failed Checks" in l or "unwinding assertion" in l or l.startswith("error"))[:1500]
    return dict(name=h, status=st, detail=fails if st != "verified" else "", time_s=round(time.time() - t0, 1), cmd=" ".join(cmd),
                tail=out[-1500:] if st == "undecided" else "")


def engine():
    def run(tier="quick", seed=0):
        try:
            generate()
        except Exception as e:
            return dict(obligations=[dict(unit="kani_lazy", name="generate", status="undecided", detail=str(e), backend="kani/cbmc")])
        first = run_one("proofs::" + HARNESSES[0])
        res = [first] + [run_one("proofs::" + h) for h in HARNESSES[1:]]
        obls = []
        for r in res:
            obls.append(dict(unit="kani_lazy", name="kani:" + r["name"] + " (verbatim lazy.rs; all constructor arguments, all forcing/clone histories of length 4)",
                             status=r["status"], detail=r["detail"] or r.get("tail", ""), backend="kani 0.68 / cbmc 6.11", time_s=r["time_s"],
                             file="src/ark_curve/r1cs/lazy.rs"))
        return dict(obligations=obls, assumptions=[
            "lazy.rs is verified against stand-ins of its collaborators: the inner decode/encode gadgets are arbitrary deterministic functions of their argument that count their invocations (their own contracts are the r1cs_compl / r1cs_sound units)",
            "histories of forcing / cloning operations are explored exhaustively up to length 4 (every state of the three-state cache is reached within 2 steps and both operations are applied to each); longer histories are covered by the absorbing-state argument of DESIGN.md, not by the model checker"])
    return run


if __name__ == "__main__":
    generate()
    for h in HARNESSES:
        print(run_one("proofs::" + h))
