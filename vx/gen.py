import sys, importlib, os, json
sys.path.insert(0, os.path.dirname(os.path.dirname(os.path.abspath(__file__))))
from vx.extract import build_unit
def load(name):
    mod, _, arg = name.partition(":")
    m = importlib.import_module("units." + mod)
    return m.unit(arg) if arg else m.unit()
if __name__ == "__main__":
    u = load(sys.argv[1])
    cover = len(sys.argv) > 2 and sys.argv[2] == "cover"
    t, meta = build_unit(u, cover=cover)
    os.makedirs("build", exist_ok=True)
    p = f"build/{u.name}{'__cover' if cover else ''}.rs"
    open(p, "w").write(t)
    json.dump(meta, open(p + ".meta.json", "w"), indent=1)
    print(p)
