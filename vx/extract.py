"""Extractor: builds one Verus file per unit from /repo's *current* text.

A unit (see units/*.py) lists items by path (file :: impl header :: fn).  The
function text is copied verbatim from the working tree, the contract held in
/verif is spliced between signature and body, and a closed list of rewrite
rules (R1..R14, see DESIGN.md 2.1) is applied mechanically; every application
is recorded (rule id, count, before/after) in the unit's meta for the evidence.
"""
import os
import re
import hashlib
import dataclasses
from dataclasses import dataclass, field
from typing import Optional

from . import rsscan
from .rsscan import Src, LostAnchor, norm

REPO = os.environ.get("VERIF_REPO", "/repo")


class Unsupported(Exception):
    """construct outside the extractor's subset -> UNDECIDED (exit 2), never a violation"""


@dataclass
class Fn:
    name: str
    requires: Optional[str] = None
    ensures: Optional[str] = None
    decreases: Optional[str] = None
    ret: str = "r"                      # name given to the return value (R13)
    preamble: str = ""                  # proof text inserted as first statement(s)
    epilogue: str = ""                  # R10: proof text after the body value is computed
    before_tail: str = ""               # R10: proof text placed just before the tail expression
    no_ufcs: bool = False
    variant: str = ""                   # distinguishes several obligations on the same function (e.g. "#strict")
    unroll: object = None               # R18: "all" or list of loop ordinals with constant bounds to unroll
    unroll_ty: object = "usize"         # type of the unrolled loop variable (or {ordinal: type})
    loops: dict = field(default_factory=dict)   # ordinal -> "invariant ..., decreases ..."
    loops_begin: dict = field(default_factory=dict)   # ordinal -> ghost/proof text placed first in the loop body
    loops_end: dict = field(default_factory=dict)     # ordinal -> proof text placed last in the loop body
    ghost_iter: dict = field(default_factory=dict)    # R22: ordinal -> name of the ghost iterator (`for x in NAME: e`)
    subst: list = field(default_factory=list)   # [(rule, regex, repl)] applied to sig+body text
    props: tuple = ()
    attrs: str = ""                     # extra verus attributes, e.g. #[verifier::exec_allows_no_decreases_clause]
    cover: bool = True                  # emit assert(false) twin
    as_const: bool = False              # item is a `const`/`static` (R14)
    tag: str = ""                       # free text shown in evidence
    rlimit: Optional[int] = None
    nonlinear: bool = False
    spinoff: bool = False


@dataclass
class Item:
    file: str
    header: Optional[str]               # impl/trait header text, None for free items
    fns: list
    pre: str = ""                       # text emitted before the impl (SpecImpl blocks etc.)
    mode: str = "verify"                # 'verify' | 'stub'
    header_out: Optional[str] = None    # replacement header (R7), default = original
    keep_assoc: tuple = ()              # names of assoc `type`/`const` items copied verbatim
    extra_assoc: str = ""               # text placed inside the impl (e.g. spec fns required by stand-in traits)
    proved_in: str = ""                 # for stubs: unit that proves this contract
    label: str = ""
    raw_top: bool = False


@dataclass
class Unit:
    name: str
    preludes: list                      # list of (template file, params dict)
    items: list
    lemmas: str = ""                    # unit-level proof text (after preludes)
    uses: str = ""                      # extra `use` lines
    params: dict = field(default_factory=dict)
    lazy_names: tuple = ()              # R3: once_cell::Lazy statics dereferenced in this unit
    global_subst: list = field(default_factory=list)   # substitutions applied to every fn of the unit
    rlimit: Optional[int] = None


_SRC_CACHE = {}


def src(relpath):
    p = os.path.join(REPO, relpath)
    key = (p, os.path.getmtime(p))
    if key not in _SRC_CACHE:
        _SRC_CACHE[key] = Src(p)
    return _SRC_CACHE[key]


# ----------------------------------------------------------------------------- rewrite rules

DROP_ATTR = re.compile(r'#\s*\[\s*(inline|must_use|deprecated|allow|doc|cold|track_caller)\b')


def _strip_attrs(attrs_text, applied):
    out = []
    s = Src("<attrs>", attrs_text)
    i = 0
    t = attrs_text
    while i < len(t):
        if t[i] == '#' and s.mask[i]:
            j = t.index('[', i)
            e = s.match_close(j) + 1
            a = t[i:e]
            if DROP_ATTR.match(a):
                applied.append(("R2", a, ""))
            else:
                out.append(a)
            i = e
        else:
            i += 1
    return "\n".join(out)


def _remove_macro_stmts(body, names, applied, rule="R2"):
    """remove `name!(...);` statements (code positions only)"""
    s = Src("<body>", body)
    pat = re.compile(r'\b(' + '|'.join(names) + r')\s*!\s*')
    out = []
    i = 0
    for m in pat.finditer(body):
        if m.start() < i or not s.mask[m.start()]:
            continue
        j = m.end()
        if j >= len(body) or body[j] not in rsscan.OPEN:
            continue
        e = s.match_close(j) + 1
        k = e
        while k < len(body) and body[k].isspace():
            k += 1
        if k < len(body) and body[k] == ';':
            e = k + 1
        out.append(body[i:m.start()])
        applied.append((rule, body[m.start():e], ""))
        i = e
    out.append(body[i:])
    return "".join(out)


def _code_sub(text, regex, repl, count=0):
    """re.sub restricted to matches that start at a code position"""
    s = Src("<t>", text)
    n = 0
    out = []
    i = 0
    for m in re.finditer(regex, text):
        if m.start() < i or not s.mask[m.start()]:
            continue
        out.append(text[i:m.start()])
        out.append(m.expand(repl) if isinstance(repl, str) else repl(m))
        i = m.end()
        n += 1
        if count and n >= count:
            break
    out.append(text[i:])
    return "".join(out), n


def _split_sig_ret(sig):
    """returns (before_arrow, ret_type, after) for the fn signature text; ret_type None if no '->'"""
    s = Src("<sig>", sig)
    # find the parameter list: first '(' after 'fn name<generics>'
    m = re.search(r'\bfn\s+\w+', sig)
    i = m.end()
    # skip generics
    depth = 0
    while i < len(sig):
        c = sig[i]
        if c == '<':
            depth += 1
        elif c == '>' and sig[i - 1] != '-':
            depth -= 1
        elif c == '(' and depth == 0:
            break
        i += 1
    close = s.match_close(i)
    rest = sig[close + 1:]
    m2 = re.match(r'\s*->\s*', rest)
    if not m2:
        # no return type
        w = re.search(r'\bwhere\b', rest)
        return sig[:close + 1], None, rest
    after_arrow = rest[m2.end():]
    w = None
    # the return type ends at a top-level `where`
    d = 0
    k = 0
    while k < len(after_arrow):
        c = after_arrow[k]
        if c in '(<[':
            d += 1
        elif c in ')]' or (c == '>' and after_arrow[k - 1] != '-'):
            d -= 1
        elif d == 0 and after_arrow.startswith('where', k) and not rsscan._identch(after_arrow, k - 1) \
                and not rsscan._identch(after_arrow, k + 5):
            w = k
            break
        k += 1
    if w is None:
        return sig[:close + 1], after_arrow.strip(), ""
    return sig[:close + 1], after_arrow[:w].strip(), " " + after_arrow[w:]


def _find_loops(body):
    """offsets of the '{' that opens the body of each loop statement, in source order"""
    s = Src("<b>", body)
    res = []
    for m in re.finditer(r'\b(for|while|loop)\b', body):
        if not s.mask[m.start()]:
            continue
        # `for` in `impl ... for` / HRTB cannot occur in a fn body we handle; closures `for<'a>` neither
        j = m.end()
        while j < len(body):
            if s.mask[j]:
                c = body[j]
                if c in '([':
                    j = s.match_close(j)
                elif c == '{':
                    break
            j += 1
        res.append(j)
    return res


def _const_int(unit, tok):
    tok = tok.strip()
    if re.fullmatch(r'\d[\d_]*(usize|u8|u16|u32|u64|u128|i32|i64)?', tok):
        return int(re.sub(r'[a-z_]\w*$', '', tok.replace('_', '')) or 0)
    consts = getattr(unit, "consts", {})
    if tok in consts:
        return int(consts[tok])
    return None


def _unroll(unit, item, spec, body, applied):
    """`for v in A..B { S }` with constant A, B  ->  { let v: T = A; S } ... { let v: T = B-1; S }   (innermost first)"""
    which = spec.unroll
    while True:
        s = Src("<b>", body)
        offs = _find_loops(body)
        # loop keyword positions, in order
        kws = [m for m in re.finditer(r'\b(for|while|loop)\b', body) if s.mask[m.start()]]
        done = True
        for ordn in range(len(offs) - 1, -1, -1):
            if which != "all" and ordn not in which:
                continue
            kw = kws[ordn]
            if kw.group(1) != "for":
                continue
            hdr = body[kw.end():offs[ordn]]
            m = re.fullmatch(r'\s*(\w+)\s+in\s+(.+?)\s*\.\.(=?)\s*(.+?)\s*', hdr, re.S)
            if not m:
                # R18b: `for v in NAME` over a local array of integer literals `let NAME = [l0, l1, ..];`
                ma = re.fullmatch(r'\s*(\w+)\s+in\s+(\w+)\s*', hdr)
                if ma:
                    arr = re.search(r'\blet\s+' + re.escape(ma.group(2)) + r'\s*(?::[^=;]*)?=\s*\[([\s\d_,xa-fA-F]*)\]\s*;', body[:kw.start()])
                    if arr:
                        lits = [t_.strip() for t_ in arr.group(1).split(',') if t_.strip()]
                        close = s.match_close(offs[ordn])
                        inner = body[offs[ordn] + 1:close]
                        si = Src("<i>", inner)
                        for bm in re.finditer(r'\b(break|continue|return)\b', inner):
                            if si.mask[bm.start()]:
                                raise Unsupported(f"{spec.name}: loop #{ordn} contains {bm.group(1)}; cannot unroll")
                        ty = spec.unroll_ty.get(ordn) if isinstance(spec.unroll_ty, dict) else None
                        tys = f": {ty}" if ty else ""
                        copies = "".join(f"{{ let {ma.group(1)}{tys} = {l_}; {inner} }}\n" for l_ in lits)
                        body = body[:kw.start()] + copies + body[close + 1:]
                        applied.append(("R18b", f"for {ma.group(1)} in {ma.group(2)} (array of {len(lits)} literals)", f"unrolled x{len(lits)}"))
                        done = False
                        if which != "all":
                            which = [w for w in which if w != ordn]
                        break
                continue
            var, lo_t, incl, hi_t = m.groups()
            lo, hi = _const_int(unit, lo_t), _const_int(unit, hi_t)
            if lo is None or hi is None:
                continue
            if incl:
                hi += 1
            if hi - lo > 64:
                raise Unsupported(f"{spec.name}: loop #{ordn} has {hi - lo} iterations (> 64), not unrolled")
            close = s.match_close(offs[ordn])
            inner = body[offs[ordn] + 1:close]
            si = Src("<i>", inner)
            for bm in re.finditer(r'\b(break|continue|return)\b', inner):
                if si.mask[bm.start()]:
                    raise Unsupported(f"{spec.name}: loop #{ordn} contains {bm.group(1)}; cannot unroll")
            ty = spec.unroll_ty.get(ordn, "usize") if isinstance(spec.unroll_ty, dict) else spec.unroll_ty
            copies = "".join(f"{{ let {var}: {ty} = {k}; {inner} }}\n" for k in range(lo, hi))
            body = body[:kw.start()] + copies + body[close + 1:]
            applied.append(("R18", f"for {var} in {lo_t}..{incl}{hi_t}", f"unrolled x{hi - lo}"))
            done = False
            if which != "all":
                which = [w for w in which if w != ordn]
            break
        if done:
            return body


def _rewrite_continue(body, applied):
    """R23: `if C { continue; } REST`  (a direct statement of a loop body)  ->  `if C { } else { REST }`.
    Verus' for-loops do not support `continue`; the two forms are equivalent in Rust."""
    for _ in range(8):
        sb = Src("<b>", body)
        m = None
        for mm in re.finditer(r'\bcontinue\s*;', body):
            if sb.mask[mm.start()]:
                m = mm
                break
        if not m:
            return body
        # enclosing block must be `{ continue; }` of an `if` without else
        k = m.start() - 1
        while k >= 0 and body[k].isspace():
            k -= 1
        if body[k] != '{':
            raise Unsupported("`continue` not in the form `if C { continue; }`")
        blk_open = k
        blk_close = sb.match_close(blk_open)
        if body[m.end():blk_close].strip():
            raise Unsupported("`continue` is not the only statement of its block")
        # find the `if` that owns this block: scan back to the keyword at the same depth
        j = blk_open - 1
        depth = 0
        if_pos = None
        while j >= 0:
            if sb.mask[j]:
                c = body[j]
                if c in ')]}':
                    depth += 1
                elif c in '([{':
                    if depth == 0:
                        break
                    depth -= 1
                elif depth == 0 and body.startswith('if', j) and not rsscan._identch(body, j - 1) and not rsscan._identch(body, j + 2):
                    if_pos = j
                    break
                elif depth == 0 and c == ';':
                    break
            j -= 1
        if if_pos is None:
            raise Unsupported("`continue` without a directly enclosing `if`")
        after = blk_close + 1
        rest_m = re.match(r'\s*else\b', body[after:])
        if rest_m:
            raise Unsupported("`if C { continue; } else ..` not handled")
        # the enclosing loop body: the innermost '{' that contains if_pos
        st = []
        encl = None
        for idx in range(if_pos):
            if sb.mask[idx]:
                if body[idx] in '([{':
                    st.append(idx)
                elif body[idx] in ')]}':
                    st.pop()
        if not st or body[st[-1]] != '{':
            raise Unsupported("`continue`: enclosing block not found")
        encl_close = sb.match_close(st[-1])
        rest = body[after:encl_close]
        body = body[:blk_open] + "{ } else {" + rest + "}\n" + body[encl_close:]
        applied.append(("R23", "if C { continue; } REST", "if C { } else { REST }"))
    return body


def _rewrite_early_return(body, applied):
    """R24: `if C { A; return X; } REST-with-tail` at the top level of a fn body  ==  `if C { A; X } else { REST }`.
    Verus checks the postcondition of a body with early returns after a control-flow join over a merged result
    variable and loses the context of the straight-line path (met on FqVarExtension::isqrt once the constant fast path
    was added); the structured form is checked branch by branch.  Applied from the last such `if` to the first."""
    for _ in range(16):
        sb = Src("<b>", body)
        # top-level statements of the body: find `if` keywords at depth 1
        depth = 0
        cands = []
        idx = 0
        while idx < len(body):
            if sb.mask[idx]:
                c = body[idx]
                if c in '([{':
                    depth += 1
                elif c in ')]}':
                    depth -= 1
                elif depth == 1 and body.startswith('if', idx) and not rsscan._identch(body, idx - 1) and not rsscan._identch(body, idx + 2):
                    # statement start?  previous significant char must be ';' or '}' or '{'
                    k = idx - 1
                    while k >= 0 and (body[k].isspace() or not sb.mask[k]):
                        k -= 1
                    if k >= 0 and body[k] in ';{}':
                        cands.append(idx)
            idx += 1
        done = True
        for if_pos in reversed(cands):
            # find the block of this if
            k = if_pos + 2
            d2 = 0
            blk_open = None
            while k < len(body):
                if sb.mask[k]:
                    if body[k] in '([':
                        k = sb.match_close(k)
                    elif body[k] == '{':
                        blk_open = k
                        break
                k += 1
            if blk_open is None:
                continue
            blk_close = sb.match_close(blk_open)
            if re.match(r'\s*else\b', body[blk_close + 1:]):
                continue
            inner = body[blk_open + 1:blk_close]
            m = re.search(r'\breturn\b\s*([^;]*?)\s*;\s*$', inner, re.S)
            if not m or not sb.mask[blk_open + 1 + m.start()] or not m.group(1).strip():
                continue
            # `return` must be a direct statement of this block (depth 0 inside inner)
            sub = Src("<i>", "{" + inner + "}")
            dd = 0
            ok = True
            for t in range(1, 1 + m.start()):
                if sub.mask[t]:
                    if sub.text[t] in '([{':
                        dd += 1
                    elif sub.text[t] in ')]}':
                        dd -= 1
            if dd != 0:
                continue
            rest = body[blk_close + 1:len(body) - 1]
            kt = _tail_start("{" + rest + "}")
            tail = ("{" + rest + "}")[kt:-1].strip()
            if not tail or tail.endswith(";"):
                continue
            new_inner = inner[:m.start()] + m.group(1).strip() + "\n        "
            body = body[:blk_open] + "{" + new_inner + "} else {" + rest + "}\n}"
            applied.append(("R24", "if C { A; return X; } REST", "if C { A; X } else { REST }"))
            done = False
            break
        if done:
            break
    return body


def _rewrite_chunk_fold(body, applied):
    """R25: a tail expression `E.chunks(N).map(|x| B1).rev().fold(INIT, |acc, y| B2)` is desugared to the reverse index
    loop it denotes (std semantics of chunks / map / rev / fold: A-STD, stand-ins `chunks_len`, `chunk_at`):
        let chunk_n_ = N; let src_ = E; let mut acc_ = INIT; let mut k_ = chunks_len(src_, chunk_n_);
        while k_ > 0 { k_ = k_ - 1; let ck_ = chunk_at(src_, chunk_n_, k_); let xm_ = { let x = ck_; B1 };
                       let ghost acc0_ = acc_; acc_ = { let acc = acc_; let y = xm_; B2 }; }
        acc_
    Proof text refers to the generated names only.  Returns the body unchanged when the tail has another shape."""
    k = _tail_start(body)
    tail = body[k:-1]
    ts = Src("<t>", tail)
    clean = "".join(c if ts.mask[i] else " " for i, c in enumerate(tail))
    m = re.match(r'\s*([\w:.]+?)\s*\.\s*chunks\s*\(', clean)
    if not m or '.fold' not in clean:
        return body

    def args_at(open_idx):
        close = ts.match_close(open_idx)
        return tail[open_idx + 1:close], close

    recv = m.group(1)
    n_expr, c1 = args_at(m.end() - 1)
    m2 = re.compile(r'\s*\.\s*map\s*\(').match(clean, c1 + 1)
    if not m2:
        raise Unsupported("R25: `.chunks(..)` not followed by `.map(..)`")
    map_arg, c2 = args_at(m2.end() - 1)
    m3 = re.compile(r'\s*\.\s*rev\s*\(\s*\)\s*\.\s*fold\s*\(').match(clean, c2 + 1)
    if not m3:
        raise Unsupported("R25: `.map(..)` not followed by `.rev().fold(..)`")
    fold_arg, c3 = args_at(m3.end() - 1)
    if clean[c3 + 1:].strip():
        raise Unsupported("R25: text after `.fold(..)`")
    mc = re.match(r'\s*\|\s*(\w+)\s*\|\s*(.*)$', map_arg, re.S)
    if not mc:
        raise Unsupported("R25: map closure is not `|x| ..`")
    # fold args: INIT , |acc, y| BODY   (split at the first top-level comma)
    fs = Src("<f>", fold_arg)
    depth = 0
    cut = None
    for i, ch in enumerate(fold_arg):
        if fs.mask[i]:
            if ch in '([{':
                depth += 1
            elif ch in ')]}':
                depth -= 1
            elif ch == ',' and depth == 0:
                cut = i
                break
    if cut is None:
        raise Unsupported("R25: fold needs two arguments")
    init = fold_arg[:cut].strip()
    fc = re.match(r'\s*\|\s*(\w+)\s*,\s*(\w+)\s*\|\s*(.*)$', fold_arg[cut + 1:], re.S)
    if not fc:
        raise Unsupported("R25: fold closure is not `|acc, x| ..`")
    x1, b1 = mc.group(1), mc.group(2).strip()
    a2, x2, b2 = fc.group(1), fc.group(2), fc.group(3).strip()
    new_tail = f"""
        let chunk_n_: usize = {n_expr.strip()};
        let src_ = {recv};
        let mut acc_ = {init};
        let mut k_: usize = chunks_len(src_, chunk_n_);
        while k_ > 0
        {{
            k_ = k_ - 1;
            let ck_ = chunk_at(src_, chunk_n_, k_);
            let xm_ = {{ let {x1} = ck_; {b1} }};
            let ghost acc0_ = acc_;
            acc_ = {{ let {a2} = acc_; let {x2} = xm_; {b2} }};
        }}
        acc_
    """
    applied.append(("R25", "E.chunks(N).map(|x| B1).rev().fold(INIT, |acc, y| B2)", "reverse index loop over chunks_len / chunk_at (A-STD)"))
    return body[:k] + new_tail + "}"


def _rewrite_rev_range(body, applied):
    """R29: `for v in (A..=B).rev() { S }`  ->  `let mut v_: T = B; while v_ >= A { let v = v_; S  v_ = v_ - 1; }`
    (vstd has no specification for Rev<RangeInclusive>; equal to the for loop whenever A >= 1, and for A = 0 the final
    decrement fails Verus' underflow check, so the rewrite can never hide a difference)."""
    for _ in range(8):
        sb = Src("<b>", body)
        m = None
        for mm in re.finditer(r'\bfor\s+(\w+)\s+in\s+\(\s*([^()]+?)\s*\.\.=\s*([^()]+?)\s*\)\s*\.rev\(\)\s*\{', body):
            if sb.mask[mm.start()]:
                m = mm
                break
        if not m:
            return body
        var, lo, hi = m.group(1), m.group(2), m.group(3)
        o = m.end() - 1
        c = sb.match_close(o)
        inner = body[o + 1:c]
        si = Src("<i>", inner)
        for bm in re.finditer(r'\b(break|continue)\b', inner):
            if si.mask[bm.start()]:
                raise Unsupported("R29: reversed range loop contains " + bm.group(1))
        new = f"let mut {var}_ = {hi};\n        while {var}_ >= {lo} {{\n            let {var} = {var}_;{inner}\n            {var}_ = {var}_ - 1;\n        }}"
        body = body[:m.start()] + new + body[c + 1:]
        applied.append(("R29", f"for {var} in ({lo}..={hi}).rev()", f"while {var}_ >= {lo} with {var}_ counting down from {hi}"))
    return body


def _rewrite_map_collect(body, applied):
    """R28: `E.iter().map(|x| B).collect::<Vec<_>>()` and `E.into_iter().map(|x| B).collect::<Vec<_>>()` are desugared to
    the index loop they denote (std semantics of slice::iter / Vec::into_iter, map and collect into a Vec: A-STD):
        { let src_ = E; let mut out_ = Vec::new(); let mut i_: usize = 0;
          while i_ < src_.len() { let x = &src_[i_] (iter) | src_[i_] (into_iter, element types here are Copy); out_.push(B); i_ = i_ + 1; } out_ }
    `src_`, `out_`, `i_` are generated names the loop invariants may use."""
    for _ in range(8):
        sb = Src("<b>", body)
        clean = "".join(c if sb.mask[i] else " " for i, c in enumerate(body))
        m = re.search(r'([\w.]+?)\s*\.\s*(iter|into_iter)\s*\(\s*\)\s*\.\s*map\s*\(', clean)
        if not m:
            return body
        recv, kind = m.group(1), m.group(2)
        o = m.end() - 1
        c = sb.match_close(o)
        arg = body[o + 1:c]
        mc = re.match(r'\s*\|\s*(\w+)\s*\|\s*(.*)$', arg, re.S)
        m2 = re.compile(r'\s*\.\s*collect\s*::\s*<\s*Vec\s*<\s*_\s*>\s*>\s*\(\s*\)').match(clean, c + 1)
        if not mc or not m2:
            raise Unsupported("R28: `.iter().map(..)` not of the form `.map(|x| ..).collect::<Vec<_>>()`")
        x, b = mc.group(1), mc.group(2).strip()
        elem = f"&src_[i_]" if kind == "iter" else "src_[i_]"
        new = f"""{{ let src_ = {recv}; let mut out_ = Vec::new(); let mut i_: usize = 0;
            while i_ < src_.len()
            {{
                let {x} = {elem};
                out_.push({b});
                i_ = i_ + 1;
            }}
            out_ }}"""
        body = body[:m.start()] + new + body[m2.end():]
        applied.append(("R28", f"E.{kind}().map(|{x}| B).collect::<Vec<_>>()", "index loop pushing B into a fresh Vec (A-STD)"))
    return body


def _rewrite_zip_chunks(body, applied):
    """R30: `for (a, c) in X.iter_mut().zip(Y[..K].chunks_exact(C)) { *a = u64_from_{le,be}_bytes(c.try_into().expect("..")); }`
    is desugared to the index loop it denotes (std semantics of iter_mut / zip / chunks_exact: A-STD):
        { let src_ = &Y[..K]; let n_ = zip_len(X.len(), src_.len() / C); let mut i_: usize = 0;
          while i_ < n_ { X[i_] = u64_from_{le,be}_chunk(src_, i_, C); i_ = i_ + 1; } }
    The slicing `Y[..K]` keeps its bounds check, `/ C` the non-zero check of chunks_exact, and the stand-in requires C == 8
    (what `try_into().expect(..)` demands). `src_`, `n_`, `i_` are generated names the loop invariant may use."""
    rx = re.compile(r'\bfor\s*\(\s*(\w+)\s*,\s*(\w+)\s*\)\s+in\s+(\w+)\s*\.\s*iter_mut\(\)\s*\.\s*zip\(\s*(\w+)\[\s*\.\.\s*([^\]]+?)\s*\]\s*\.\s*chunks_exact\(\s*([^()]+?)\s*\)\s*\)\s*\{'
                    r'\s*\*\1\s*=\s*u64(?:_|::)from_(le|be)_bytes\(\s*\2\s*\.\s*try_into\(\)\s*\.\s*expect\(\s*"[^"]*"\s*\)\s*\)\s*;\s*\}')
    m = rx.search(body)
    if not m:
        raise Unsupported("R30: `.iter_mut().zip(..)` loop not of the form `for (a, c) in X.iter_mut().zip(Y[..K].chunks_exact(C)) { *a = u64::from_le_bytes(c.try_into().expect(..)); }`")
    a, c, X, Y, K, C, end = m.groups()
    new = f"""{{ let src_ = &{Y}[..{K}]; let n_ = zip_len({X}.len(), src_.len() / {C}); let mut i_: usize = 0;
            while i_ < n_
            {{
                {X}[i_] = u64_from_{end}_chunk(src_, i_, {C});
                i_ = i_ + 1;
            }}
        }}"""
    applied.append(("R30", f"for ({a}, {c}) in {X}.iter_mut().zip({Y}[..{K}].chunks_exact({C}))", "index loop over zip_len / u64_from_%s_chunk (A-STD)" % end))
    return body[:m.start()] + new + body[m.end():]


def _rewrite_zip_fold(body, applied):
    """R32: `A.zip(B).fold(INIT, |acc, (x, y)| BODY)` (A, B local iterators) is desugared to the loop it denotes (std semantics of
    Zip::next -- `let x = a.next()?; let y = b.next()?;`, the left iterator first -- and of Iterator::fold: A-STD):
        { let mut a_ = A; let mut b_ = B; let mut acc_ = INIT; let ghost a0_ = iter_seq(a_); let ghost b0_ = iter_seq(b_);
          loop { let x_ = match std_next(&mut a_) { Some(v_) => v_, None => { break; } };
                 let y_ = match std_next(&mut b_) { Some(v_) => v_, None => { break; } };
                 let ghost acc0_ = acc_;
                 acc_ = { let acc = acc_; let (x, y) = (x_, y_); BODY }; }
          acc_ }
    `a_`, `b_`, `acc_`, `a0_`, `b0_`, `x_`, `y_`, `acc0_` are generated names the loop invariant may use."""
    sb = Src("<b>", body)
    clean = "".join(c if sb.mask[i] else " " for i, c in enumerate(body))
    m = re.search(r'\b(\w+)\s*\.\s*zip\s*\(\s*(\w+)\s*\)\s*\.\s*fold\s*\(', clean)
    if not m:
        raise Unsupported("R32: `.zip(..).fold(..)` not of the form `A.zip(B).fold(INIT, |acc, (x, y)| BODY)`")
    A, B = m.group(1), m.group(2)
    o = m.end() - 1
    c = sb.match_close(o)
    arg = body[o + 1:c]
    parts = _split_top_commas(arg)
    mc = re.match(r'\s*\|\s*(\w+)\s*,\s*\(\s*(\w+)\s*,\s*(\w+)\s*\)\s*\|\s*(.*)$', ",".join(parts[1:]), re.S) if len(parts) >= 2 else None
    if not mc:
        raise Unsupported("R32: fold closure not of the form `|acc, (x, y)| BODY`")
    init = parts[0].strip()
    acc, x, y, b = mc.group(1), mc.group(2), mc.group(3), mc.group(4).strip()
    new = f"""{{ let mut a_ = {A}; let mut b_ = {B}; let mut acc_ = {init}; let ghost a0_ = iter_seq(a_); let ghost b0_ = iter_seq(b_);
            loop
            {{
                let x_ = match std_next(&mut a_) {{ Some(v_) => v_, None => {{ break; }} }};
                let y_ = match std_next(&mut b_) {{ Some(v_) => v_, None => {{ break; }} }};
                let ghost acc0_ = acc_;
                acc_ = {{ let {acc} = acc_; let ({x}, {y}) = (x_, y_); {b} }};
            }}
            acc_ }}"""
    applied.append(("R32", f"{A}.zip({B}).fold(INIT, |{acc}, ({x}, {y})| BODY)", "loop over std_next of both iterators, left first (A-STD)"))
    return body[:m.start()] + new + body[c + 1:]


def _rewrite_chars_loop(body, applied):
    """R33: `for c in E.chars() { S }`  ->  `{ let cs_ = str_chars(E); let mut i_: usize = 0; while i_ < cs_.len() { let c = cs_[i_]; S  i_ = i_ + 1; } }`
    (A-STD: `str::chars` yields the characters of the string in order; `str_chars` is its stand-in with `r@ == E@`).
    An early `return` inside S stays a return; `break` / `continue` are refused."""
    sb = Src("<b>", body)
    m = None
    for mm in re.finditer(r'\bfor\s+(\w+)\s+in\s+(\w+)\s*\.\s*chars\(\)\s*\{', body):
        if sb.mask[mm.start()]:
            m = mm
            break
    if not m:
        raise Unsupported("R33: `.chars()` not of the form `for c in E.chars() { .. }`")
    var, e = m.group(1), m.group(2)
    o = m.end() - 1
    c = sb.match_close(o)
    inner = body[o + 1:c]
    si = Src("<i>", inner)
    for bm in re.finditer(r'\b(break|continue)\b', inner):
        if si.mask[bm.start()]:
            raise Unsupported("R33: chars loop contains " + bm.group(1))
    new = f"""{{ let cs_ = str_chars({e}); let mut i_: usize = 0;
        while i_ < cs_.len()
        {{
            let {var} = cs_[i_];{inner}
            i_ = i_ + 1;
        }} }}"""
    applied.append(("R33", f"for {var} in {e}.chars()", "index loop over str_chars (A-STD)"))
    return body[:m.start()] + new + body[c + 1:]


def _tail_start(body):
    """offset in `body` ('{...}') where the tail expression starts (after the last top-level statement)"""
    s = Src("<b>", body)
    i = 1
    end = len(body) - 1
    last = 1
    while i < end:
        if not s.mask[i] or body[i].isspace():
            i += 1
            continue
        # at the start of a statement / expression
        m = re.compile(r'(for|while|loop|proof)\b').match(body, i)
        j = i
        is_loop = bool(m) or body[i] == '{'
        if body[i] == '{':
            # a block statement (e.g. an unrolled loop iteration) ends at its closing brace -- unless it is the tail
            jj = s.match_close(i)
            rest = body[jj + 1:end].strip()
            if not rest:
                return i
            last = jj + 1
            i = jj + 1
            continue
        while j < end:
            if s.mask[j]:
                c = body[j]
                if c in '([':
                    j = s.match_close(j)
                elif c == '{':
                    j = s.match_close(j)
                    if is_loop:
                        # loop statement ends at its closing brace
                        break
                elif c == ';':
                    break
            j += 1
        if j >= end:
            return i          # no terminator: this is the tail expression
        last = j + 1
        i = j + 1
    return last


def _split_top_commas(text):
    """split a requires/ensures list at its top-level commas (not inside brackets or quantifier binders |..|)"""
    out, depth, cur, i, in_binder = [], 0, "", 0, False
    while i < len(text):
        c = text[i]
        if in_binder:
            cur += c
            if c == '|':
                in_binder = False
            i += 1
            continue
        if c == '|' and text[i:i + 2] != '||' and (i == 0 or text[i - 1] != '|') and re.search(r'(forall|exists|choose)\s*$', cur):
            in_binder = True
            cur += c
        elif c in '([{':
            depth += 1
            cur += c
        elif c in ')]}':
            depth -= 1
            cur += c
        elif c == ',' and depth == 0:
            if cur.strip():
                out.append(cur.strip())
            cur = ""
        else:
            cur += c
        i += 1
    if cur.strip():
        out.append(cur.strip())
    return out


def build_fn(unit, item, imp, fnitem, spec: Fn, cover=False):
    """returns (text, meta) for one function"""
    applied = []
    srcobj = fnitem.src
    attrs = _strip_attrs(fnitem.attrs_text, applied)
    sig = fnitem.sig_text.rstrip()
    body = fnitem.body_text
    if body is None and not (imp is not None and imp.kind == 'trait'):
        raise Unsupported(f"{item.file} :: {item.header} :: {spec.name}: no body")
    stub = item.mode == "stub"
    # R13: name the return value
    head, ret, after = _split_sig_ret(sig)
    if ret is not None and (spec.ensures or stub):
        if not ret.startswith("("):
            sig = f"{head} -> ({spec.ret}: {ret}){after}"
            applied.append(("R13", f"-> {ret}", f"-> ({spec.ret}: {ret})"))
        elif re.match(r'\(\s*\w+\s*:', ret) is None:
            # tuple return type
            sig = f"{head} -> ({spec.ret}: {ret}){after}"
            applied.append(("R13", f"-> {ret}", f"-> ({spec.ret}: {ret})"))
    # R17: items live in sibling modules, so private inherent/free fns are widened to pub(crate)
    _h = item.header_out or item.header
    if (_h is None or not re.search(r'\bfor\b', _h)) and not (imp is not None and imp.kind == 'trait' and not item.header_out) \
            and not re.match(r'\s*pub\b', sig):
        sig = "pub(crate) " + sig.lstrip()
        applied.append(("R17", "private fn", "pub(crate) fn"))
    contract = ""
    if spec.requires:
        contract += f"\n        requires {spec.requires.strip().rstrip(',')},"
    if spec.ensures:
        contract += f"\n        ensures {spec.ensures.strip().rstrip(',')},"
    if spec.decreases:
        contract += f"\n        decreases {spec.decreases.strip().rstrip(',')},"
    if body is None:
        # trait method declaration: signature + contract only
        lo, hi = fnitem.line_span()
        return f"{attrs}\n{sig}{contract};\n", dict(fn=spec.name, mode="decl", file=item.file, header=item.header, lines=[lo, hi],
                                                      sha256=fnitem.sha256(), rules=[], props=[], tag="trait method declaration")
    if stub:
        # R1 on the signature only
        sig2, n = re.subn(r'\(\s*mut\s+self\b', '(self', sig)
        sig2 = re.sub(r'\bmut\s+(\w+\s*:)', r'\1', sig2)
        # type renames declared for the importing unit apply to the imported signature too
        for (rule, rx, rp) in list(unit.global_subst) + list(spec.subst):
            if rule == "R7":
                sig2, _n = _code_sub(sig2, rx, rp)
        text = f"#[verifier::external_body]\n{attrs}\n{spec.attrs}\n{sig2}{contract}\n{{ unimplemented!() }}\n"
        meta = dict(fn=spec.name, mode="stub", proved_in=item.proved_in)
        return text, meta
    # R1: mut self
    if re.search(r'\(\s*mut\s+self\b', sig):
        sig = re.sub(r'\(\s*mut\s+self\b', '(self', sig, count=1)
        inner, n = _code_sub(body[1:-1], r'(?<![\w.])self\b(?!\s*::)', 'self_')
        body = "{\n        let mut self_ = self;" + inner + "}"
        applied.append(("R1", "mut self", f"let mut self_ = self; ({n} uses renamed)"))
    # R2: debug assertions
    body = _remove_macro_stmts(body, ["debug_assert", "debug_assert_eq", "debug_assert_ne"], applied)
    # R2c: statements guarded by the verification hook cfg are not part of the shipped (guard off) code
    body, n2c = _code_sub(body, r'#\[cfg\(decaf377_verif\)\]\s*let[^;]*;', '')
    if n2c:
        applied.append(("R2", "#[cfg(decaf377_verif)] let ..;", f"removed x{n2c} (hook, off by default)"))
    # R14b: a `const` item local to a fn body becomes a `let` (same value; Verus consts cannot read exec consts)
    body, n14 = _code_sub(body, r'\bconst\s+([A-Z_]\w*)\s*:', r'let \1:')
    if n14:
        applied.append(("R14b", "local const X: T = E;", f"let X: T = E; x{n14}"))
    # R3: Lazy statics
    if unit.lazy_names:
        names = '|'.join(unit.lazy_names)
        body, n1 = _code_sub(body, r'(?<![\w>])\(\s*\*\s*(' + names + r')\s*\)', r'lazy::\1()')
        body, n2 = _code_sub(body, r'\*\s*(' + names + r')\b(?!\s*\()', r'lazy::\1()')
        body, n3 = _code_sub(body, r'&\s*(' + names + r')\b(?!\s*[\(:])', r'&lazy::\1()')
        if n1 + n2 + n3:
            applied.append(("R3", "*NAME / &NAME on once_cell::Lazy statics", f"lazy::NAME() x{n1 + n2 + n3}"))
    # R19: `E.map_err(|_| X)?`  ==  `match E { Ok(v) => v, Err(_) => return Err(X) }`   (Rust desugaring; X constant)
    body, n19 = _code_sub(body, r'(=\s*)([^;=]+?)\s*\.map_err\(\|_\|\s*([\w:]+)\s*\)\s*\?',
                          r'\1match \2 { Ok(v_) => v_, Err(_) => return Err(\3) }')
    body, n19b = _code_sub(body, r'(?<![\w.)])((?:\w+)(?:\s*\.\s*\w+\([^()]*\))+?)\s*\.map_err\(\|_\|\s*([\w:]+)\s*\)(?!\s*\?)',
                           r'match \1 { Ok(v_) => Ok(v_), Err(_) => Err(\2) }')
    if n19 + n19b:
        applied.append(("R19", "E.map_err(|_| X)[?]", f"match E {{ Ok(v) => .., Err(_) => .. }} x{n19 + n19b}"))
    # declared substitutions (+ the std renames every unit gets)
    STD_SUBST = [("R6", r'\bu64::from_le_bytes\(', 'u64_from_le_bytes('),
                 ("R6", r'\b(\w+(?:\[\w+\])?)\.to_le_bytes\(\)', r'u64_to_le_bytes(\1)')]
    for (rule, rx, rp) in STD_SUBST + list(unit.global_subst) + list(spec.subst):
        whole = sig + "\x00" + body
        whole2, n = _code_sub(whole, rx, rp)
        if n:
            applied.append((rule, rx, f"{rp} x{n}"))
        sig, body = whole2.split("\x00")
    # R21: operators on non-primitive operands -> the trait calls they desugar to
    _uf = getattr(unit, "ufcs", False) and (not getattr(unit, "ufcs_only", None) or item.file in unit.ufcs_only)
    if (_uf or spec.name in getattr(unit, "ufcs_fns", ())) and not spec.no_ufcs:
        from . import ufcs as _ufcs
        try:
            body, n21 = _ufcs.rewrite_body(body)
        except _ufcs.Bail as e:
            raise Unsupported(f"{spec.name}: R21 cannot parse body: {e}")
        if n21:
            applied.append(("R21", "a + b / a - b / a * b / a op= b", f"core::ops::<Trait>::<method>(a, b) x{n21}"))
    body = _rewrite_continue(body, applied)
    assist_ = spec.name in getattr(unit, "assist", ())
    if assist_ and not getattr(unit, "tail_assert", False):
        body = _rewrite_early_return(body, applied)
    if re.search(r'\.\s*map\s*\(', body) and re.search(r'\.\s*collect\s*::', body):
        body = _rewrite_map_collect(body, applied)
    if re.search(r'\)\s*\.rev\(\)\s*\{', body):
        body = _rewrite_rev_range(body, applied)
    if re.search(r'\.\s*chunks\s*\(', body):
        body = _rewrite_chunk_fold(body, applied)
    if re.search(r'\.\s*iter_mut\(\)\s*\.\s*zip\(', body):
        body = _rewrite_zip_chunks(body, applied)
    elif re.search(r'\.\s*zip\s*\(', body) and re.search(r'\.\s*fold\s*\(', body):
        body = _rewrite_zip_fold(body, applied)
    if re.search(r'\.\s*chars\(\)\s*\{', body):
        body = _rewrite_chars_loop(body, applied)
    if getattr(unit, "tail_assert", False):
        body = _rewrite_early_return(body, applied)
    # R18: unroll constant-bound `for` loops (no invariant needed, so no reference to the body's locals)
    if spec.unroll:
        body = _unroll(unit, item, spec, body, applied)
    # R22 / loop-body proof text (addressed by loop ordinal, never by the text of a statement)
    if spec.ghost_iter or spec.loops_begin or spec.loops_end:
        sb = Src("<b>", body)
        offs = _find_loops(body)
        kws = [m_ for m_ in re.finditer(r'\b(for|while|loop)\b', body) if sb.mask[m_.start()]]
        edits = []
        for ordn in set(spec.ghost_iter) | set(spec.loops_begin) | set(spec.loops_end):
            if ordn >= len(offs):
                raise LostAnchor(f"{item.file} :: {item.header} :: {spec.name}: loop #{ordn} not found ({len(offs)} loops)")
            o = offs[ordn]
            c = sb.match_close(o)
            if ordn in spec.loops_end:
                edits.append((c, c, "\n            proof { " + spec.loops_end[ordn].strip() + " }\n        "))
            if ordn in spec.loops_begin:
                edits.append((o + 1, o + 1, "\n            " + spec.loops_begin[ordn].strip() + "\n"))
            if ordn in spec.ghost_iter:
                hm = re.compile(r'\s+in\s+').search(body, kws[ordn].end(), o)
                if not hm:
                    raise Unsupported(f"{spec.name}: loop #{ordn} is not a for-in loop")
                edits.append((hm.end(), hm.end(), spec.ghost_iter[ordn] + ": "))
                applied.append(("R22", "for x in e", f"for x in {spec.ghost_iter[ordn]}: e"))
        for (a_, b_, t_) in sorted(edits, key=lambda e: -e[0]):
            body = body[:a_] + t_ + body[b_:]
    # loop invariants
    if spec.loops:
        offs = _find_loops(body)
        for ordn in sorted(spec.loops.keys(), reverse=True):
            if ordn >= len(offs):
                raise LostAnchor(f"{item.file} :: {item.header} :: {spec.name}: loop #{ordn} not found ({len(offs)} loops)")
            o = offs[ordn]
            body = body[:o] + "\n            " + spec.loops[ordn].strip() + "\n        " + body[o:]
    elif _find_loops(body) and not getattr(spec, "loops_ok", False):
        pass
    pre = ""
    if spec.preamble:
        pre += "\n        " + spec.preamble.strip()
    if assist_ and any(pf == "common.rs" for (pf, _pp) in unit.preludes):
        pre += "\n        broadcast use comm_ops;"
        applied.append(("assist", "second attempt", "R24 + comm_ops + 8x resource limit"))
    if cover and spec.cover:
        pre += "\n        proof { assert(false); } // COVER"
    # insert the preamble right after '{' (after R1's let if present)
    if body.startswith("{\n        let mut self_ = self;"):
        k = len("{\n        let mut self_ = self;")
    else:
        k = 1
    body = body[:k] + pre + body[k:]
    if spec.epilogue or spec.before_tail:
        k = _tail_start(body)
        tail_end = len(body) - 1          # offset of the closing brace of the block that holds the tail
        # after R24 the fn tail is `if C { .. } else { REST }`: the proof text belongs to the tail of REST
        n24 = len([1 for a_ in applied if a_[0] == "R24"])
        for _d in range(n24):
            sb_ = Src("<b>", body)
            t0 = body[k:tail_end]
            if not re.match(r'\s*if\b', t0):
                break
            # last top-level '{' ... '}' of the tail is the else block
            j = tail_end - 1
            while j > k and (body[j].isspace() or not sb_.mask[j]):
                j -= 1
            if body[j] != '}':
                break
            # find its opening brace
            d_ = 0
            o = j
            while o > k:
                if sb_.mask[o]:
                    if body[o] == '}':
                        d_ += 1
                    elif body[o] == '{':
                        d_ -= 1
                        if d_ == 0:
                            break
                o -= 1
            if not re.search(r'\belse\s*$', body[k:o]):
                break
            inner_k = _tail_start(body[o:j + 1])
            k, tail_end = o + inner_k, j
        tail = body[k:tail_end].strip()
        body_after = body[tail_end:]
        if not tail:
            raise Unsupported(f"{spec.name}: R10 needs a tail expression")
        new_tail = ""
        if spec.before_tail:
            new_tail += "\n        proof { " + spec.before_tail.strip() + " }"
        if spec.epilogue:
            new_tail += "\n        let r_ = " + tail + ";\n        proof { " + spec.epilogue.strip() + " }\n        r_\n    "
        else:
            new_tail += "\n        " + tail + "\n    "
        body = body[:k] + new_tail + body_after
        applied.append(("R10", "tail expression E", "let r_ = E; proof {..}; r_"))
    fn_out = spec.name
    if spec.variant:
        fn_out = spec.name + "__" + re.sub(r'\W', '', spec.variant)
        sig = re.sub(r'\bfn\s+' + re.escape(spec.name) + r'\b', 'fn ' + fn_out, sig, count=1)
        applied.append(("R13b", f"fn {spec.name}", f"fn {fn_out} (second obligation on the same function text)"))
    extra = spec.attrs
    if assist_:
        extra += f"\n#[verifier::rlimit({8 * (spec.rlimit or unit.rlimit or 10)})]"
    elif spec.rlimit:
        extra += f"\n#[verifier::rlimit({spec.rlimit})]"
    if spec.nonlinear:
        extra += "\n#[verifier::nonlinear]"
    if spec.spinoff:
        extra += "\n#[verifier::spinoff_prover]"
    text = f"{attrs}\n{extra}\n{sig}{contract}\n{body}\n"
    lo, hi = fnitem.line_span()
    meta = dict(fn=fn_out, display=spec.name, mode="verify", file=item.file, header=item.header, lines=[lo, hi],
                sha256=fnitem.sha256(), rules=[dict(rule=r, before=b[:200], after=a[:200]) for (r, b, a) in applied],
                props=list(spec.props), tag=spec.tag, variant=spec.variant)
    return text, meta


def build_const(unit, item, cst, spec: Fn, cover=False):
    """R14: `pub const NAME: T = EXPR;` -> `pub exec const NAME: T ensures .. { EXPR }`"""
    t = cst.text
    m = re.match(r'(?s)(.*?)\b(const|static)\s+(\w+)\s*:\s*(.*?)\s*=\s*(.*);\s*$', t[cst.sig_start - cst.start:])
    if not m:
        raise Unsupported(f"cannot parse const {spec.name}")
    vis, kw, name, ty, expr = m.groups()
    if not vis.strip():
        vis = "pub "          # R17: consts of trait impls / private consts are read from sibling modules
    applied = [("R14", f"{kw} {name}: {ty} = ..;", "exec const with ensures")]
    for (rule, rx, rp) in list(unit.global_subst) + list(spec.subst):
        expr2, n = _code_sub(expr, rx, rp)
        ty2, n2 = _code_sub(ty, rx, rp)
        if n + n2:
            applied.append((rule, rx, f"{rp} x{n + n2}"))
        expr, ty = expr2, ty2
    if item.mode == "stub":
        text = f"#[verifier::external_body]\n{vis}exec const {name}: {ty}\n    ensures {spec.ensures}\n{{ unimplemented!() }}\n"
        return text, dict(fn=spec.name, mode="stub", proved_in=item.proved_in)
    pre = spec.preamble
    if cover and spec.cover:
        pre += "\n proof { assert(false); } // COVER"
    ens = f"\n    ensures {spec.ensures}" if spec.ensures else ""
    text = f"{vis}exec const {name}: {ty}{ens}\n{{ {pre}\n {expr} }}\n"
    lo, hi = cst.line_span()
    meta = dict(fn=spec.name, mode="verify", file=item.file, header=item.header, lines=[lo, hi], sha256=cst.sha256(),
                rules=[dict(rule=r, before=b[:200], after=a[:200]) for (r, b, a) in applied], props=list(spec.props),
                tag=spec.tag)
    return text, meta


def widen_fields(text):
    """R17 for struct definitions: every field becomes `pub` (items are spread over sibling modules);
    R2: `Debug` is dropped from derive lists (formatting glue, needs Debug on stand-in types)"""
    text = re.sub(r'(#\[derive\([^)]*?)\bDebug\s*,\s*', r'\1', text)
    text = re.sub(r'(#\[derive\([^)]*?),\s*Debug\b', r'\1', text)
    m = re.search(r'\bstruct\s+\w+\s*(<[^>]*>)?\s*([({])', text)
    if not m:
        return text
    o = m.end(2) - 1
    s = Src("<s>", text)
    c = s.match_close(o)
    inner = text[o + 1:c]
    # split fields at top-level commas (code positions only)
    fields = []
    d = 0
    cur = ""
    si = Src("<f>", inner)
    for k_, ch in enumerate(inner):
        if si.mask[k_]:
            if ch in "(<[{":
                d += 1
            elif ch in ")>]}":
                d -= 1
            if ch == "," and d == 0:
                fields.append(cur)
                cur = ""
                continue
        cur += ch
    if cur.strip():
        fields.append(cur)
    out = []
    for f_ in fields:
        # keep leading comments/attrs, add pub before the field if missing
        m2 = re.match(r'(?s)((?:\s*(?://[^\n]*(?:\n|$)|#\[[^\]]*\]))*\s*)(.*)', f_)
        lead, rest = m2.group(1), m2.group(2)
        rest = re.sub(r'^pub\s*\([^)]*\)\s*', '', rest)
        if rest.strip() and not re.match(r'pub\b', rest):
            rest = "pub " + rest
        out.append(lead + rest)
    return text[:o + 1] + ",".join(out) + text[c:]


def fill(text, params):
    if "//#if " in text:
        out, stack = [], [True]
        for line in text.split("\n"):
            t = line.strip()
            if t.startswith("//#if "):
                stack.append(stack[-1] and bool(params.get(t[6:].strip())))
            elif t == "//#else":
                prev = stack.pop()
                stack.append(stack[-1] and not prev)
            elif t == "//#endif":
                stack.pop()
            elif stack[-1]:
                out.append(line)
        text = "\n".join(out)
    for k, v in params.items():
        text = text.replace("@" + k + "@", str(v))
    return text


HEADER = """// GENERATED by /verif/vx/extract.py from the working tree of /repo -- do not edit.
#![allow(unused_imports, dead_code, unused_variables, non_snake_case, unused_mut, non_camel_case_types, unused_parens, unused_braces, non_upper_case_globals)]
use vstd::prelude::*;
use vstd::std_specs::ops::*;
use vstd::std_specs::cmp::*;
use vstd::std_specs::convert::*;
use core::ops::{Add, AddAssign, Div, DivAssign, Mul, MulAssign, Neg, Sub, SubAssign};
use core::cmp::Ordering;
use core::convert::{TryFrom, TryInto};
"""


def build_unit(unit: Unit, cover=False, prelude_dir=None, skip=()):
    """returns (text, meta) ; meta['modules'] maps module name -> item/fn metadata and line range"""
    prelude_dir = prelude_dir or os.path.join(os.path.dirname(os.path.dirname(__file__)), "preludes")
    parts = [HEADER, unit.uses, "\nverus! {\n"]
    meta = dict(unit=unit.name, cover=cover, modules={}, preludes=[])
    for (fname, params) in unit.preludes:
        p = dict(unit.params)
        p.update(params or {})
        t = open(os.path.join(prelude_dir, fname)).read()
        t = fill(t, p)
        parts.append(f"\n// ===== prelude {fname} {params or ''}\n" + t + "\n")
        meta["preludes"].append(dict(file=fname, params=params, sha256=hashlib.sha256(t.encode()).hexdigest()))
    for (rf, rkind, rname) in getattr(unit, "raw", []):
        found = [it for it in src(rf).all_items() if it.kind == rkind and it.name == rname]
        if len(found) != 1:
            raise LostAnchor(f"{rf} :: {rkind} {rname}: {len(found)} matches")
        rt = widen_fields(found[0].text)
        for dname in getattr(unit, "raw_strip", ()):
            rt = re.sub(r'(#\[derive\([^)]*?)\b' + dname + r'\s*,\s*', r'\1', rt)
            rt = re.sub(r'(#\[derive\([^)]*?),\s*' + dname + r'\b', r'\1', rt)
            rt = re.sub(r'#\[derive\(\s*' + dname + r'\s*\)\]', '', rt)
        for (rule_, rx_, rp_) in getattr(unit, "raw_subst", ()):
            rt, _n = _code_sub(rt, rx_, rp_)
        parts.append(f"\n// ===== verbatim {rf} :: {rkind} {rname} (R17: field visibility widened)\n" + rt + "\n")
    if unit.lemmas:
        parts.append("\n// ===== unit lemmas\n" + fill(unit.lemmas, unit.params) + "\n")
    k = 0
    for item in unit.items:
        s = src(item.file)
        modname = f"i{k}"
        k += 1
        if modname in skip:
            # isolation: the item does not pass the front end; it is replaced by a contract-carrying stub so that
            # its callers are still checked against its contract; the item itself stays undecided
            item = dataclasses.replace(item, mode="stub", proved_in="")
        fn_texts = []
        fn_metas = []
        imp = None
        if item.header is not None:
            imps = s.find_impls(item.header)
            if not imps:
                if item.mode == "stub":
                    raise LostAnchor(f"{item.file} :: {item.header}: impl not found")
                meta["modules"][modname] = dict(file=item.file, header=item.header, mode="lost", error="LostAnchor: impl not found",
                                                fns=[dict(fn=f_.name, mode="lost", props=list(f_.props)) for f_ in item.fns],
                                                lines=[0, -1], label=item.label)
                continue
        # R7b: a trait impl checked as an inherent impl -> its associated types are substituted textually
        if item.header is not None and item.header_out and item.header_out != item.header:
            extra = []
            for imp_ in s.find_impls(item.header):
                for ch in imp_.children():
                    if ch.kind == "type":
                        mt = re.match(r'(?s)\s*type\s+(\w+)\s*=\s*(.*?);', ch.text[ch.sig_start - ch.start:])
                        if mt:
                            extra.append(("R7b", r'\bSelf::' + mt.group(1) + r'\b', mt.group(2).strip()))
            if extra:
                item = dataclasses.replace(item, fns=[dataclasses.replace(f_, subst=list(f_.subst) + extra) for f_ in item.fns])
        try:
            for spec in item.fns:
                if spec.as_const:
                    cst = s.find_const(item.header, spec.name)
                    t, m = build_const(unit, item, cst, spec, cover)
                else:
                    imp, fnitem = s.find_fn(item.header, spec.name)
                    t, m = build_fn(unit, item, imp, fnitem, spec, cover)
                fn_texts.append(t)
                fn_metas.append(m)
        except (LostAnchor, Unsupported) as e:
            if item.mode == "stub":
                raise
            # the item cannot be extracted: it stays undecided, the rest of the unit is still checked
            meta["modules"][modname] = dict(file=item.file, header=item.header, mode="lost", error=f"{type(e).__name__}: {e}",
                                            fns=[dict(fn=f_.name, mode="lost", props=list(f_.props)) for f_ in item.fns],
                                            lines=[0, -1], label=item.label)
            continue
        assoc = ""
        if item.header is not None and item.keep_assoc:
            for imp_ in s.find_impls(item.header):
                for ch in imp_.children():
                    if ch.kind in ("type", "const") and ch.name in item.keep_assoc:
                        at_ = ch.text
                        for fn_ in item.fns:
                            for (rule, rx, rp) in fn_.subst:
                                if rule == "R7":
                                    at_, _n = _code_sub(at_, rx, rp)
                        assoc += "    " + at_ + "\n"
        body = "\n".join(fn_texts)
        # R34: file-level constants of primitive type that the verified text mentions are copied into its module (verbatim), unless
        # the unit already defines the name
        imported_consts = ""
        if item.mode == "verify":
            defined_here = "".join(parts) + unit.lemmas
            for nm in sorted(set(re.findall(r'\b[A-Z][A-Z0-9_]{2,}\b', body))):
                if nm in getattr(unit, "consts", {}) or re.search(r'\b(const|static|fn)\s+' + nm + r'\b', defined_here):
                    continue
                cands = [it_ for it_ in s.all_items() if it_.kind == 'const' and it_.name == nm]
                if len(cands) == 1 and re.match(r'\s*(pub(\([^)]*\))?\s+)?const\s+' + nm + r'\s*:\s*(usize|isize|bool|[ui](8|16|32|64|128))\s*=', cands[0].text):
                    imported_consts += "    " + cands[0].text.strip() + "\n"
        if item.header is not None:
            hdr = item.header_out or item.header
            inner = f"{hdr} {{\n{assoc}{fill(item.extra_assoc, unit.params)}\n{body}\n}}\n"
        else:
            inner = body
        modtext = f"\nmod {modname} {{ use super::*;\n// ---- {item.file} :: {item.header} [{item.mode}]\n{imported_consts}{fill(item.pre, unit.params)}\n{inner}}}\n"
        if item.header is not None and re.match(r'\s*(pub(\([^)]*\))?\s+)?trait\b', item.header):
            modtext += f"pub use {modname}::*;\n"
        modtext = fill(modtext, unit.params)
        start_line = "".join(parts).count("\n") + 1
        parts.append(modtext)
        end_line = "".join(parts).count("\n") + 1
        meta["modules"][modname] = dict(file=item.file, header=item.header, mode=item.mode, fns=fn_metas,
                                        lines=[start_line, end_line], label=item.label)
    parts.append("\n} // verus!\nfn main() {}\n")
    return "".join(parts), meta
