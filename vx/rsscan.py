"""Minimal, comment/string-aware Rust item scanner.

Only what the extractor needs: locate items (impl blocks, fns, consts, statics,
traits) by *path* (file :: impl header :: fn name), never by line number, and
return byte-exact substrings of the source.  No macro expansion, no name
resolution.  Anything it cannot classify is reported as kind 'other' and never
silently dropped.
"""
import re
import hashlib


class ScanError(Exception):
    pass


def code_mask(text):
    """mask[i] == 1 iff text[i] is code (not inside comment / string / char literal)."""
    n = len(text)
    mask = bytearray(b"\x01") * n
    i = 0
    while i < n:
        c = text[i]
        if c == '/' and i + 1 < n and text[i + 1] == '/':
            j = text.find('\n', i)
            if j < 0:
                j = n
            for k in range(i, j):
                mask[k] = 0
            i = j
        elif c == '/' and i + 1 < n and text[i + 1] == '*':
            depth = 1
            j = i + 2
            while j < n and depth > 0:
                if text.startswith('/*', j):
                    depth += 1
                    j += 2
                elif text.startswith('*/', j):
                    depth -= 1
                    j += 2
                else:
                    j += 1
            for k in range(i, j):
                mask[k] = 0
            i = j
        elif c == '"' or (c == 'b' and i + 1 < n and text[i + 1] == '"' and not _identch(text, i - 1)):
            j = i + (2 if c == 'b' else 1)
            while j < n and text[j] != '"':
                if text[j] == '\\':
                    j += 1
                j += 1
            j += 1
            for k in range(i, min(j, n)):
                mask[k] = 0
            i = j
        elif c == 'r' and not _identch(text, i - 1) and re.match(r'r#*"', text[i:i + 8]):
            m = re.match(r'r(#*)"', text[i:])
            hashes = m.group(1)
            end = text.find('"' + hashes, i + len(m.group(0)))
            if end < 0:
                raise ScanError("unterminated raw string")
            j = end + 1 + len(hashes)
            for k in range(i, j):
                mask[k] = 0
            i = j
        elif c == "'":
            # char literal or lifetime
            m = re.match(r"'(\\.[^']*|[^'\\])'", text[i:i + 12])
            if m:
                j = i + len(m.group(0))
                for k in range(i, j):
                    mask[k] = 0
                i = j
            else:
                i += 1  # lifetime
        else:
            i += 1
    return mask


def _identch(text, i):
    return i >= 0 and (text[i].isalnum() or text[i] == '_')


OPEN = {'(': ')', '[': ']', '{': '}'}
CLOSE = {')': '(', ']': '[', '}': '{'}


class Item:
    __slots__ = ("kind", "name", "header", "start", "sig_start", "body_open", "end", "src")

    def __init__(self, **kw):
        for k, v in kw.items():
            setattr(self, k, v)

    @property
    def text(self):
        return self.src.text[self.start:self.end]

    @property
    def attrs_text(self):
        return self.src.text[self.start:self.sig_start]

    @property
    def sig_text(self):
        """signature / header text without attributes, up to (excluding) the body's '{' or the ';'"""
        e = self.body_open if self.body_open is not None else self.end - 1
        return self.src.text[self.sig_start:e]

    @property
    def body_text(self):
        """text of the body including the braces"""
        if self.body_open is None:
            return None
        return self.src.text[self.body_open:self.end]

    def line_span(self):
        t = self.src.text
        return (t.count('\n', 0, self.start) + 1, t.count('\n', 0, self.end) + 1)

    def sha256(self):
        return hashlib.sha256(self.text.encode()).hexdigest()

    def children(self):
        if self.body_open is None:
            return []
        return self.src.items(self.body_open + 1, self.end - 1)


def norm(s):
    """whitespace-insensitive normal form used to compare headers"""
    s = re.sub(r'\s+', ' ', s.strip())
    s = re.sub(r'\s*([<>,:&()\[\]{};=+\-*])\s*', r'\1', s)
    return s


class Src:
    def __init__(self, path, text=None):
        self.path = path
        self.text = open(path).read() if text is None else text
        self.mask = code_mask(self.text)

    # ---- bracket matching on code characters only
    def match_close(self, i):
        t, m = self.text, self.mask
        assert t[i] in OPEN, (i, t[i])
        stack = [t[i]]
        j = i + 1
        n = len(t)
        while j < n:
            if m[j]:
                c = t[j]
                if c in OPEN:
                    stack.append(c)
                elif c in CLOSE:
                    if not stack or stack[-1] != CLOSE[c]:
                        raise ScanError(f"{self.path}: unbalanced {c!r} at {j}")
                    stack.pop()
                    if not stack:
                        return j
            j += 1
        raise ScanError(f"{self.path}: unterminated {t[i]!r} at {i}")

    def _skip_ws(self, i, hi):
        t, m = self.text, self.mask
        while i < hi and (not m[i] or t[i].isspace()):
            i += 1
        return i

    def items(self, lo=0, hi=None):
        """parse the item sequence in text[lo:hi] (depth 0 relative to that region)"""
        t, m = self.text, self.mask
        hi = len(t) if hi is None else hi
        out = []
        i = lo
        while True:
            # start of item (including leading doc comments is not needed; start at first code char)
            i = self._skip_ws(i, hi)
            if i >= hi:
                break
            start = i
            # attributes
            while i < hi and t[i] == '#' and m[i]:
                j = i + 1
                if j < hi and t[j] == '!':
                    j += 1
                j = self._skip_ws(j, hi)
                if j < hi and t[j] == '[':
                    i = self.match_close(j) + 1
                    i = self._skip_ws(i, hi)
                else:
                    break
            sig_start = i
            # classify by leading keywords
            mm = re.compile(r'(?:pub(?:\s*\([^)]*\))?\s+)?(?:default\s+)?(?:unsafe\s+)?(?:async\s+)?(?:const\s+(?=fn|unsafe))?(?:unsafe\s+)?(?:extern\s+"[^"]*"\s+)?(\w+)').match(t, i, hi)
            if not mm:
                raise ScanError(f"{self.path}: cannot parse item at offset {i}: {t[i:i+40]!r}")
            kw = mm.group(1)
            name = None
            if kw in ('fn', 'struct', 'enum', 'union', 'trait', 'mod', 'type', 'const', 'static', 'macro_rules'):
                nm = re.compile(r'\s*(?:mut\s+)?!?\s*([A-Za-z_]\w*)').match(t, mm.end(1), hi)
                name = nm.group(1) if nm else None
            # macro invocation:  path ! (...) / [...] / {...}
            mac = re.compile(r'([A-Za-z_][\w:]*)\s*!\s*').match(t, i, hi)
            if mac and kw not in ('macro_rules',):
                j = mac.end()
                # optional ident for macro_rules-like
                if j < hi and t[j] in OPEN:
                    e = self.match_close(j) + 1
                    e2 = self._skip_ws(e, hi)
                    if e2 < hi and t[e2] == ';':
                        e = e2 + 1
                    out.append(Item(kind='macro', name=mac.group(1), header=mac.group(1) + '!', start=start,
                                    sig_start=sig_start, body_open=j, end=e, src=self))
                    i = e
                    continue
            if kw in ('const', 'static', 'type', 'use', 'let', 'extern') and not (kw == 'extern' and False):
                # ends at ';' at depth 0 of all brackets
                j = mm.end(1)
                while j < hi:
                    if m[j]:
                        c = t[j]
                        if c in OPEN:
                            j = self.match_close(j)
                        elif c == ';':
                            break
                    j += 1
                if j >= hi:
                    raise ScanError(f"{self.path}: unterminated {kw} item at {i}")
                out.append(Item(kind=kw, name=name, header=t[sig_start:j], start=start, sig_start=sig_start,
                                body_open=None, end=j + 1, src=self))
                i = j + 1
                continue
            if kw in ('fn', 'impl', 'trait', 'mod', 'struct', 'enum', 'union', 'macro_rules'):
                j = mm.end(1)
                body_open = None
                while j < hi:
                    if m[j]:
                        c = t[j]
                        if c in '([':
                            j = self.match_close(j)
                        elif c == '{':
                            body_open = j
                            break
                        elif c == ';':
                            break
                    j += 1
                if j >= hi:
                    raise ScanError(f"{self.path}: unterminated {kw} item at {i}")
                if body_open is None:
                    end = j + 1
                else:
                    end = self.match_close(body_open) + 1
                    if kw in ('struct',):
                        pass
                header = t[sig_start:(body_open if body_open is not None else j)]
                out.append(Item(kind=kw, name=name, header=header, start=start, sig_start=sig_start,
                                body_open=body_open, end=end, src=self))
                i = end
                continue
            raise ScanError(f"{self.path}: unknown item keyword {kw!r} at offset {i}: {t[i:i+60]!r}")
        return out

    # ---- lookups by path
    def find_impls(self, header):
        want = norm(header)
        res = []
        for it in self.all_items():
            if it.kind in ('impl', 'trait') and norm(it.header) == want:
                res.append(it)
        return res

    def all_items(self):
        """top-level items, descending into cfg_if!-style macro bodies and non-test inline mods"""
        res = []

        def rec(items):
            for it in items:
                res.append(it)
                if it.kind == 'macro' and it.name in ('cfg_if', 'cfg_if::cfg_if'):
                    pass
                if it.kind == 'mod' and it.body_open is not None and 'cfg(test)' not in it.attrs_text \
                        and 'cfg(all(test' not in it.attrs_text:
                    rec(it.children())
        rec(self.items())
        return res

    def find_fn(self, header, fn):
        """the unique fn `fn` inside an impl/trait whose header is `header` (None: free fn)"""
        cands = []
        if header is None:
            for it in self.all_items():
                if it.kind == 'fn' and it.name == fn:
                    cands.append((None, it))
        else:
            for imp in self.find_impls(header):
                for ch in imp.children():
                    if ch.kind == 'fn' and ch.name == fn:
                        cands.append((imp, ch))
        if len(cands) != 1:
            raise LostAnchor(f"{self.path} :: {header} :: {fn}: {len(cands)} matches")
        return cands[0]

    def find_const(self, header, name):
        cands = []
        if header is None:
            for it in self.all_items():
                if it.kind in ('const', 'static') and it.name == name:
                    cands.append(it)
        else:
            for imp in self.find_impls(header):
                for ch in imp.children():
                    if ch.kind in ('const', 'static') and ch.name == name:
                        cands.append(ch)
        if len(cands) != 1:
            raise LostAnchor(f"{self.path} :: {header} :: const {name}: {len(cands)} matches")
        return cands[0]


class LostAnchor(Exception):
    pass


if __name__ == '__main__':
    import sys
    s = Src(sys.argv[1])
    for it in s.all_items():
        print(it.kind, it.name, repr(norm(it.header))[:90], it.line_span())
        if it.kind in ('impl', 'trait'):
            for ch in it.children():
                print('    ', ch.kind, ch.name, ch.line_span())
