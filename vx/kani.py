"""Kani back end: bit-precise, full-domain harnesses over the VERBATIM fiat files of /repo (`#[path]`-included,
no extraction).  Every loop has a fixed trip count (limb count) and runs with unwinding assertions on, so a passing
harness is a complete proof of its statement, not a bounded one.

The harness crate is regenerated on every run (modulus limbs are re-read from src/fields/<f>.rs)."""
import os
import re
import subprocess
import time
from concurrent.futures import ThreadPoolExecutor

from .extract import REPO, src
from .rsscan import LostAnchor

ROOT = os.path.dirname(os.path.dirname(os.path.abspath(__file__)))
CRATE = os.path.join(ROOT, "build", "kani_fiat")

FIELDS = {"fq": "Fq", "fr": "Fr", "fp": "Fp"}

COMMON = r"""
    fn lt(a: &[u32; N], b: &[u32; N]) -> bool {
        let mut i = N;
        while i > 0 { i -= 1; if a[i] < b[i] { return true; } if a[i] > b[i] { return false; } }
        false
    }
    // reference multi-limb arithmetic (schoolbook, u64/i64 carries)
    fn ref_add(a: &[u32; N], b: &[u32; N]) -> [u32; N] {
        let mut s = [0u32; N + 1]; let mut c: u64 = 0;
        for i in 0..N { let t = a[i] as u64 + b[i] as u64 + c; s[i] = t as u32; c = t >> 32; }
        s[N] = c as u32;
        let mut d = [0u32; N]; let mut br: i64 = 0;
        for i in 0..N { let t = s[i] as i64 - M[i] as i64 - br; d[i] = t as u32; br = if t < 0 { 1 } else { 0 }; }
        let ge = (s[N] as i64 - br) >= 0;
        let mut out = [0u32; N];
        for i in 0..N { out[i] = if ge { d[i] } else { s[i] }; }
        out
    }
    fn ref_sub(a: &[u32; N], b: &[u32; N]) -> [u32; N] {
        let mut d = [0u32; N]; let mut br: i64 = 0;
        for i in 0..N { let t = a[i] as i64 - b[i] as i64 - br; d[i] = t as u32; br = if t < 0 { 1 } else { 0 }; }
        let mut out = [0u32; N]; let mut c: u64 = 0;
        for i in 0..N { let t = d[i] as u64 + (if br == 1 { M[i] } else { 0 }) as u64 + c; out[i] = t as u32; c = t >> 32; }
        out
    }
"""


def harness_text(f, limbs32):
    F = FIELDS[f]
    n = len(limbs32)
    m = ", ".join(hex(x) for x in limbs32)
    nb = 4 * n
    return f"""
#[path = "{REPO}/src/fields/{f}/u32/fiat.rs"]
#[allow(dead_code, unused, non_camel_case_types)]
mod fiat_{f};
#[cfg(kani)]
mod proofs_{f} {{
    use super::fiat_{f}::*;
    const N: usize = {n};
    const M: [u32; N] = [{m}];
{COMMON}
    #[kani::proof]
    #[kani::unwind({n + 3})]
    fn h_{f}_add() {{
        let a: [u32; N] = kani::any(); let b: [u32; N] = kani::any();
        kani::assume(lt(&a, &M)); kani::assume(lt(&b, &M));
        let mut out = {F}MontgomeryDomainFieldElement([0; N]);
        {f}_add(&mut out, &{F}MontgomeryDomainFieldElement(a), &{F}MontgomeryDomainFieldElement(b));
        let r = ref_add(&a, &b);
        for i in 0..N {{ assert!(out.0[i] == r[i]); }}
        assert!(lt(&out.0, &M));
    }}
    #[kani::proof]
    #[kani::unwind({n + 3})]
    fn h_{f}_sub() {{
        let a: [u32; N] = kani::any(); let b: [u32; N] = kani::any();
        kani::assume(lt(&a, &M)); kani::assume(lt(&b, &M));
        let mut out = {F}MontgomeryDomainFieldElement([0; N]);
        {f}_sub(&mut out, &{F}MontgomeryDomainFieldElement(a), &{F}MontgomeryDomainFieldElement(b));
        let r = ref_sub(&a, &b);
        for i in 0..N {{ assert!(out.0[i] == r[i]); }}
        assert!(lt(&out.0, &M));
    }}
    #[kani::proof]
    #[kani::unwind({n + 3})]
    fn h_{f}_opp() {{
        let a: [u32; N] = kani::any();
        kani::assume(lt(&a, &M));
        let mut out = {F}MontgomeryDomainFieldElement([0; N]);
        {f}_opp(&mut out, &{F}MontgomeryDomainFieldElement(a));
        let r = ref_sub(&[0u32; N], &a);
        for i in 0..N {{ assert!(out.0[i] == r[i]); }}
        assert!(lt(&out.0, &M));
    }}
    #[kani::proof]
    #[kani::unwind({n + 3})]
    fn h_{f}_nonzero() {{
        let a: [u32; N] = kani::any();
        let mut w: u32 = 0;
        {f}_nonzero(&mut w, &a);
        let mut all_zero = true;
        for i in 0..N {{ if a[i] != 0 {{ all_zero = false; }} }}
        assert!((w == 0) == all_zero);
    }}
    #[kani::proof]
    #[kani::unwind({n + 3})]
    fn h_{f}_selectznz() {{
        let a: [u32; N] = kani::any(); let b: [u32; N] = kani::any(); let c: u8 = kani::any();
        kani::assume(c <= 1);
        let mut out = [0u32; N];
        {f}_selectznz(&mut out, c, &a, &b);
        for i in 0..N {{ assert!(out[i] == if c == 0 {{ a[i] }} else {{ b[i] }}); }}
    }}
    #[kani::proof]
    #[kani::unwind({nb + 3})]
    fn h_{f}_to_bytes() {{
        let a: [u32; N] = kani::any();
        kani::assume(lt(&a, &M));
        let mut bytes = [0u8; {nb}];
        {f}_to_bytes(&mut bytes, &a);
        for i in 0..{nb} {{ assert!(bytes[i] == (a[i / 4] >> (8 * (i % 4))) as u8); }}
    }}
    #[kani::proof]
    #[kani::unwind({nb + 3})]
    fn h_{f}_from_bytes() {{
        // NOTE: no precondition "value < m": the wrappers feed unreduced strings
        let bytes: [u8; {nb}] = kani::any();
        let mut out = [0u32; N];
        {f}_from_bytes(&mut out, &bytes);
        for i in 0..N {{
            let w = (bytes[4 * i] as u32) | ((bytes[4 * i + 1] as u32) << 8) | ((bytes[4 * i + 2] as u32) << 16) | ((bytes[4 * i + 3] as u32) << 24);
            assert!(out[i] == w);
        }}
    }}
    #[kani::proof]
    #[kani::unwind({n + 4})]
    fn h_{f}_msat() {{
        let mut out = [0u32; N + 1];
        {f}_msat(&mut out);
        for i in 0..N {{ assert!(out[i] == M[i]); }}
        assert!(out[N] == 0);
    }}
    #[kani::proof]
    fn h_{f}_primitives() {{
        let c: u8 = kani::any(); let x: u32 = kani::any(); let y: u32 = kani::any();
        kani::assume(c <= 1);
        let mut o1: u32 = 0; let mut o2: u8 = 0;
        {f}_addcarryx_u32(&mut o1, &mut o2, c, x, y);
        let t = c as u64 + x as u64 + y as u64;
        assert!(o1 == t as u32 && o2 as u64 == t >> 32);
        {f}_subborrowx_u32(&mut o1, &mut o2, c, x, y);
        let t = x as i64 - c as i64 - y as i64;
        assert!(o1 == t as u32 && (o2 == 1) == (t < 0) && o2 <= 1);
        let mut lo: u32 = 0; let mut hi: u32 = 0;
        {f}_mulx_u32(&mut lo, &mut hi, x, y);
        let p = (x as u64) * (y as u64);
        assert!(lo == p as u32 && hi as u64 == p >> 32);
        {f}_cmovznz_u32(&mut o1, c, x, y);
        assert!(o1 == if c == 0 {{ x }} else {{ y }});
    }}
}}
"""


HARNESSES = ["add", "sub", "opp", "nonzero", "selectznz", "to_bytes", "from_bytes", "msat", "primitives"]


def generate():
    from units.fieldc import field_params
    os.makedirs(os.path.join(CRATE, "src"), exist_ok=True)
    text = "#![allow(unused, dead_code)]\n"
    for f in FIELDS:
        fp = field_params(f)
        P = fp["P"]
        limbs = [(P >> (32 * i)) & 0xffffffff for i in range(fp["N32"])]
        text += harness_text(f, limbs)
    open(os.path.join(CRATE, "src", "lib.rs"), "w").write(text)
    open(os.path.join(CRATE, "Cargo.toml"), "w").write("""[package]
name = "kani_fiat"
version = "0.1.0"
edition = "2021"
[workspace]
[lints.rust]
unexpected_cfgs = { level = "allow", check-cfg = ['cfg(kani)'] }
""")
    os.makedirs(os.path.join(CRATE, ".cargo"), exist_ok=True)
    open(os.path.join(CRATE, ".cargo", "config.toml"), "w").write("[net]\noffline = true\n")


def run_one(h, timeout=1500):
    t0 = time.time()
    env = dict(os.environ, CARGO_NET_OFFLINE="true", CARGO_TARGET_DIR=os.path.join(ROOT, "build", "kani_target"))
    cmd = ["cargo", "kani", "--harness", h, "--output-format", "terse"]
    try:
        p = subprocess.run(cmd, capture_output=True, text=True, cwd=CRATE, timeout=timeout, env=env)
    except subprocess.TimeoutExpired:
        return dict(name=h, status="undecided", detail="kani timeout", time_s=round(time.time() - t0, 1))
    out = p.stdout + p.stderr
    if "VERIFICATION:- SUCCESSFUL" in out:
        st = "verified"
    elif "VERIFICATION:- FAILED" in out:
        st = "failed"
    else:
        st = "undecided"
    fails = "\n".join(l for l in out.splitlines() if "FAILURE" in l or "Failed Checks" in l or "unwinding assertion" in l)[:1500]
    return dict(name=h, status=st, detail=fails if st != "verified" else "", time_s=round(time.time() - t0, 1), cmd=" ".join(cmd))


def counterexample(h):
    """concrete values Kani found for a failed harness (the sequence of kani::any() results, as u32 words)"""
    env = dict(os.environ, CARGO_NET_OFFLINE="true", CARGO_TARGET_DIR=os.path.join(ROOT, "build", "kani_target"))
    cmd = ["cargo", "kani", "-Z", "concrete-playback", "--concrete-playback=print", "--harness", h, "--output-format", "terse"]
    try:
        p = subprocess.run(cmd, capture_output=True, text=True, cwd=CRATE, timeout=1500, env=env)
    except subprocess.TimeoutExpired:
        return None
    out = p.stdout + p.stderr
    words = []
    for m in re.finditer(r'vec!\[(\d+), (\d+), (\d+), (\d+)\],', out):
        b = [int(x) for x in m.groups()]
        words.append(b[0] | (b[1] << 8) | (b[2] << 16) | (b[3] << 24))
    return words or None


def replay_cex(h, words):
    """replay a Kani counterexample of an add / sub / opp harness on the real crate (minimal build)"""
    m = re.match(r'proofs_(\w+)::h_\w+?_(add|sub|opp)$', h)
    if not m or not words:
        return None
    f, op = m.group(1), m.group(2)
    from units.fieldc import field_params
    n = field_params(f)["N32"]
    a = sum(w << (32 * i) for i, w in enumerate(words[:n]))
    b = sum(w << (32 * i) for i, w in enumerate(words[n:2 * n])) if op != "opp" else 0
    from . import replay as vreplay
    r = vreplay.run_probe("min", f"fiat:{f}:{op}:{a:x}:{b:x}", 1, timeout=600)
    if r.get("status") == "cex":
        return dict(input=r.get("input"), check=r.get("check"), got=r.get("got"), want=r.get("want"), cmd=r.get("cmd"), kani_words=words[:2 * n])
    return dict(kani_words=words[:2 * n], note="Kani's counterexample did not reproduce through the public operators: " + str(r)[:200])


def engine(fields=("fq", "fr", "fp"), which_quick=("add", "sub", "opp", "nonzero", "selectznz", "primitives"), jobs=8):
    def run(tier="quick", seed=0):
        try:
            generate()
        except LostAnchor as e:
            return dict(obligations=[dict(unit="kani_fiat", name="generate", status="undecided", detail=str(e), backend="kani/cbmc")])
        hs = []
        for f in fields:
            for h in (HARNESSES if tier == "thorough" else which_quick):
                hs.append(f"proofs_{f}::h_{f}_{h}")
        # build once (first harness) to avoid parallel cargo lock contention, then fan out
        first = run_one(hs[0])
        res = [first]
        with ThreadPoolExecutor(max_workers=jobs) as ex:
            res += list(ex.map(run_one, hs[1:]))
        obls = []
        for r in res:
            o = dict(unit="kani_fiat", name="kani:" + r["name"] + " (verbatim fiat.rs, all inputs, unwinding assertions on)",
                     status=r["status"], detail=r["detail"], backend="kani 0.68 / cbmc 6.11", time_s=r["time_s"],
                     file="src/fields/*/u32/fiat.rs")
            if r["status"] == "failed":
                try:
                    o["cex"] = replay_cex(r["name"], counterexample(r["name"]))
                except Exception as e:      # best effort
                    o["cex"] = dict(error=str(e))
            obls.append(o)
        return dict(obligations=obls, assumptions=["the multi-limb reference arithmetic of the Kani harness (schoolbook add/sub with u64/i64 carries) is integer arithmetic on the limb vectors"])
    return run
