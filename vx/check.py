"""Property-level driver:  python3 -m vx.check <PID> [--tier quick|thorough]

exit 0  every obligation of the property discharged (KNOWN-FINDING lines possible)
exit 1  an obligation failed            -> VIOLATION property=<id> replay=<path>
exit 2  undecided (lost anchor, construct outside the subset, rlimit, vacuity guard) -> UNDECIDED ...
"""
import sys
import os
import json
import time
import argparse
import hashlib
import subprocess
import re as re_
from concurrent.futures import ThreadPoolExecutor

ROOT = os.path.dirname(os.path.dirname(os.path.abspath(__file__)))
sys.path.insert(0, ROOT)

from vx import verus as vverus           # noqa: E402
from vx.extract import REPO              # noqa: E402
import units                              # noqa: E402
from units import props as P              # noqa: E402

# VERIF_EVIDENCE_DIR: used by the mutation self-tests so that runs against deliberately broken trees do not
# overwrite the evidence of the registered checks
EVID = os.environ.get("VERIF_EVIDENCE_DIR") or os.path.join(ROOT, "evidence")
REPLAY = os.path.join(EVID, "replay")


def closure(unit_names):
    """units needed: the property's own units plus every unit that proves an imported (stub) contract"""
    todo = list(unit_names)
    seen = {}
    while todo:
        n = todo.pop()
        if n in seen:
            continue
        u = units.load(n)
        seen[n] = u
        for it in u.items:
            if it.mode == "stub" and it.proved_in:
                for d in ([it.proved_in] if isinstance(it.proved_in, str) else it.proved_in):
                    if d not in seen:
                        todo.append(d)
    return seen


def imported_keys(u):
    """(proving unit, file, header, fn) for each stub of unit u"""
    res = []
    for it in u.items:
        if it.mode == "stub" and it.proved_in:
            for d in ([it.proved_in] if isinstance(it.proved_in, str) else it.proved_in):
                for fn in it.fns:
                    res.append((d, it.header, fn.name))
    return res


def known_findings(pid):
    path = os.path.join(ROOT, "known_findings.txt")
    out = []
    if os.path.exists(path):
        for line in open(path):
            line = line.strip()
            if line.startswith("finding:") and f"property={pid} " in line:
                d = {}
                body = line[len("finding:"):].strip()
                for tok in body.split(" "):
                    if "=" in tok and not d.get("_text_started"):
                        k, v = tok.split("=", 1)
                        if k in ("property", "obligation", "twin", "replay"):
                            d[k] = v
                            continue
                    d["_text_started"] = True
                    d["text"] = (d.get("text", "") + " " + tok).strip()
                out.append(d)
    return out


def main():
    ap = argparse.ArgumentParser()
    ap.add_argument("pid")
    ap.add_argument("--tier", default=os.environ.get("VERIF_TIER", "quick"))
    ap.add_argument("--jobs", type=int, default=6)
    ap.add_argument("--no-cover", action="store_true")
    a = ap.parse_args()
    pid = a.pid
    seed = int(os.environ.get("VERIF_SEED", "0") or 0)
    t0 = time.time()
    P.ensure_auto_watch()
    spec = P.PROPS[pid]
    tier = "thorough" if a.tier == "thorough" else "quick"
    os.makedirs(EVID, exist_ok=True)
    os.makedirs(REPLAY, exist_ok=True)

    unit_names = list(spec["units"]) + (list(spec.get("units_thorough", [])) if tier == "thorough" else [])
    try:
        us = closure(unit_names)
    except Exception as e:  # lost anchor while *building the unit description* (params read from /repo)
        return undecided(pid, tier, seed, t0, f"{type(e).__name__}: {e}")

    jobs = []
    for n, u in us.items():
        jobs.append((n, u, False))
        if not a.no_cover:
            jobs.append((n, u, True))
    results = {}
    with ThreadPoolExecutor(max_workers=a.jobs) as ex:
        futs = {ex.submit(vverus.run_unit, u, cov, 3): (n, cov) for (n, u, cov) in jobs}
        for f, key in futs.items():
            results[key] = f.result()

    # ---- assist pass: an obligation of a function whose text CHANGED and that is not discharged (failed, or resource
    # limit) gets a second attempt with proof assistance that cannot make a false statement provable: early returns
    # restructured (R24), commutativity of the modular operations broadcast, eight times the resource limit.  A verdict
    # "verified" from either attempt is a proof.  (Front-end errors and lost anchors are not retried.)
    if not os.environ.get("VERIF_NO_ASSIST"):
        base_a = load_baseline()
        for n, u in us.items():
            r = results[(n, False)]
            if r.meta is None:
                continue
            bad = {}
            for mod, mm in r.meta["modules"].items():
                if mm.get("mode") != "verify" or mod == "lemmas":
                    continue
                for fm in mm["fns"]:
                    v = r.fns.get((mod, fm["fn"]))
                    if not v or v["status"] not in ("failed", "undecided") or fm.get("variant"):
                        continue
                    if any(e.get("kind") == "other" for e in v.get("errors", [])):
                        continue
                    b = base_a.get(obl_key(n, mm, fm))
                    if b is not None and fm.get("sha256") and b.get("sha256") != fm.get("sha256"):
                        bad[(mod, fm["fn"])] = fm.get("display", fm["fn"])
            if not bad:
                continue
            u.assist = set(bad.values())
            name0 = u.name
            try:
                u.name = name0 + "__assist"
                r2 = vverus.run_unit(u, False, 3)
            finally:
                u.name = name0
                u.assist = set()
            if r2.meta is None:
                continue
            for (mod, fn), disp in bad.items():
                for mod2, mm2 in r2.meta["modules"].items():
                    if mm2.get("mode") != "verify":
                        continue
                    for fm2 in mm2["fns"]:
                        if fm2["fn"] == fn and mm2.get("header") == r.meta["modules"][mod].get("header") and mm2.get("file") == r.meta["modules"][mod].get("file"):
                            v2 = r2.fns.get((mod2, fn))
                            if v2 and v2["status"] == "verified":
                                v2 = dict(v2)
                                v2["assisted"] = True
                                r.fns[(mod, fn)] = v2

    # extra engines (kani harnesses, compute lemma files ...) registered for the property
    extra_obls = []
    extra_assumptions = []
    for eng in spec.get("engines", []):
        r = eng(tier=tier, seed=seed)
        extra_obls += r["obligations"]
        extra_assumptions += r.get("assumptions", [])

    # ---- bounded stand-ins (thorough tier): structured + seeded random inputs against the real crate, labelled bounded
    bounded = list(spec.get("bounded", []))
    bounded_cex = []
    if tier == "thorough":
        from vx import replay as vreplay
        for (feat, probe) in spec.get("probes", []):
            r = vreplay.run_probe(feat, probe, seed or 1, iters=256, timeout=3000)
            bounded.append(dict(kind="bounded", build=feat, probe=probe, status=r.get("status"), checks=r.get("checks", 0),
                                bound="boundary values of the property's quantifier text + 256 seeded random inputs per family",
                                detail=r.get("detail", "")))
            if r.get("status") == "cex":
                bounded_cex.append((feat, probe, r))

    # ---- watched files: code the property depends on but that no contract reaches (listed as bounded / assumed).
    # When such a file differs from the baseline lock, its bounded probes run already in the quick tier.
    import hashlib as _hl
    base0 = load_baseline()
    watch_report = []
    for wf, wprobes in spec.get("watch", {}).items():
        pth = os.path.join(REPO, wf)
        cur = _hl.sha256(open(pth, "rb").read()).hexdigest() if os.path.exists(pth) else "missing"
        old = base0.get("file::" + wf, {}).get("sha256")
        changed = old is not None and old != cur
        entry = dict(file=wf, changed=changed, probes=[])
        if changed and tier != "thorough":
            from vx import replay as vreplay
            for (feat, probe) in wprobes:
                r = vreplay.run_probe(feat, probe, seed or 1, iters=128, timeout=1800)
                entry["probes"].append(dict(build=feat, probe=probe, status=r.get("status"), checks=r.get("checks", 0)))
                if r.get("status") == "cex":
                    bounded_cex.append((feat, probe, r))
        watch_report.append(entry)
        if os.environ.get("VERIF_UPDATE_LOCK"):
            base0["file::" + wf] = dict(sha256=cur)
    if os.environ.get("VERIF_UPDATE_LOCK") and spec.get("watch"):
        save_baseline(base0)

    # ---- which obligations belong to the property
    primary = set(unit_names)
    wanted = []   # (unit, module, fnmeta, verdict)
    needed_imports = set()
    for n in us:
        needed_imports |= set(imported_keys(us[n]))
    undec = []
    alias = spec.get("tag_alias", {})   # unit -> property ids whose obligations this property also depends on

    def is_tagged(n, fm):
        pr = fm.get("props", [])
        al = alias.get(n, ())
        return pid in pr or "*" in al or any(x in pr for x in al)
    for n, u in us.items():
        r = results[(n, False)]
        if r.status == "undecided" and r.meta is None:
            undec.append(f"unit {n}: {r.reason}")
            continue
        for mod, mm in r.meta["modules"].items():
            if mm["mode"] == "lost":
                for fm in mm["fns"]:
                    if (is_tagged(n, fm) and n in primary) or (n, mm["header"], fm["fn"]) in needed_imports:
                        wanted.append((n, mod, mm, fm, dict(status="undecided", errors=[dict(kind="other", title=mm.get("error", "lost anchor"), text="", lines=[], cover=False)])))
                continue
            if mm["mode"] != "verify":
                continue
            for fm in mm["fns"]:
                if fm.get("mode") == "decl":
                    continue
                tagged = is_tagged(n, fm) and n in primary
                imported = (n, mm["header"], fm.get("display", fm["fn"])) in needed_imports
                if tagged or imported:
                    wanted.append((n, mod, mm, fm, r.fns.get((mod, fm["fn"]))))
        if ("", "prelude/lemmas") in r.fns:
            wanted.append((n, "", dict(file="(unit lemmas)", header=None, mode="verify"), dict(fn="prelude/lemmas"),
                           r.fns[("", "prelude/lemmas")]))
        if r.status == "undecided":
            undec.append(f"unit {n}: {r.reason}")

    # imported contracts whose proving function does not exist in the proving unit -> undecided
    have = {(n, mm.get("header"), fm.get("display", fm["fn"])) for (n, mod, mm, fm, v) in wanted}
    for k in needed_imports:
        if k not in have and k[0] in us:
            undec.append(f"imported contract {k} has no proving function in unit {k[0]}")

    # resource-out policy (DESIGN 2.4): an obligation whose *text changed* since the baseline lock and that now
    # exhausts the resource limit although the baseline discharged it cheaply is a *suspect*: the replay stage
    # searches a concrete failing input against the real code; only if one is found is it reported as a violation
    # (with that input). Without a confirmed input it stays undecided (exit 2) -- never an alarm.
    base = load_baseline()
    searched = {}
    for (n, mod, mm, fm, v) in wanted:
        if v and v["status"] == "undecided":
            b = base.get(obl_key(n, mm, fm))
            changed = (mm.get("mode") == "lost") or (b is not None and fm.get("sha256") and b.get("sha256") != fm.get("sha256")) \
                or (b is not None and not fm.get("sha256"))
            if not changed:
                continue
            key = (mm.get("file"), mm.get("header"), fm.get("display", fm.get("fn")))
            if key not in searched:
                try:
                    from vx import replay as vreplay
                    searched[key] = vreplay.search(pid, n, mm, fm, seed)
                except Exception as e:
                    searched[key] = {}
            cex = searched[key]
            if cex and cex.get("input"):
                why = "; ".join(e.get("title", "") for e in v.get("errors", []))[:200]
                v["status"] = "failed"
                v["cex"] = cex
                v.setdefault("errors", []).append(dict(kind="verif", title=f"obligation on changed text could not be discharged ({why}) and a failing input was found by replay",
                                                       text=json.dumps(cex)[:1500], lines=[], cover=False))
    # demotion policy (DESIGN 2.3): an SMT failure on nonlinear field arithmetic is not a counterexample.  When the text of
    # the function CHANGED, its obligation now fails, and an extended bounded search of that very function on the real
    # code (3 seeds, 256 iterations per family, on top of the structured inputs) finds no failing input, the obligation
    # is reported as undecided (exit 2) -- a semantics-preserving refactor must never raise an alarm.  Definite failures
    # stay violations: falsified ground lemmas, Kani harnesses (bit-precise), functions no probe reaches, probes that do
    # not run on the changed tree.  VERIF_STRICT=1 restores "every failed obligation is a violation".
    if not os.environ.get("VERIF_STRICT"):
        for (n, mod, mm, fm, v) in wanted:
            if not (v and v["status"] == "failed") or v.get("cex"):
                continue
            if mod == "lemmas" or any(re_.search(r"simplifies to false|which evaluates to false|by\(compute", e.get("title", "")) for e in v.get("errors", [])):
                continue
            b = base.get(obl_key(n, mm, fm))
            changed = (b is not None and fm.get("sha256") and b.get("sha256") != fm.get("sha256"))
            if not changed:
                continue
            try:
                from vx import replay as vreplay
                sr = vreplay.search(pid, n, mm, fm, seed, iters=256, seeds=3)
            except Exception:
                sr = {}
            if sr.get("input"):
                v["cex"] = sr
            elif sr.get("ran", 0) > 0 and not sr.get("norun"):
                v["status"] = "undecided"
                v.setdefault("errors", []).append(dict(kind="other", title=f"not discharged on changed text, but {sr['ran']} bounded checks of the same function on the real code ({', '.join(p_ for (_f, p_) in sr['probes'])}; 3 seeds) found no failing input: undecided, not a violation",
                                                       text="", lines=[], cover=False))
    failed = [(n, mod, mm, fm, v) for (n, mod, mm, fm, v) in wanted if v and v["status"] == "failed"]
    failed += [(o["unit"], "", dict(file=o.get("file", ""), header=None), dict(fn=o["name"]),
                dict(status="failed", cex=o.get("cex"), errors=[dict(kind="verif", title=o.get("detail", ""), text=o.get("detail", ""))]))
               for o in extra_obls if o["status"] == "failed"]
    und_f = [(n, mod, mm, fm, v) for (n, mod, mm, fm, v) in wanted if (v is None or v["status"] == "undecided")]
    und_f += [(o["unit"], "", dict(file=o.get("file", ""), header=None), dict(fn=o["name"]), dict(status="undecided", errors=[]))
              for o in extra_obls if o["status"] == "undecided"]

    # ---- vacuity guard: every cover twin must fail at its injected assert(false)
    vac = []
    if not a.no_cover:
        for n, u in us.items():
            rc = results[(n, True)]
            if rc.meta is None:
                continue
            for mod, mm in rc.meta["modules"].items():
                if mm["mode"] != "verify":
                    continue
                for fm in mm["fns"]:
                    v = rc.fns.get((mod, fm["fn"]))
                    spec_fn = None
                    if mod == "lemmas":
                        continue
                    for it in u.items:
                        for f_ in it.fns:
                            if f_.name == fm["fn"] and it.file == mm["file"] and it.header == mm["header"]:
                                spec_fn = f_
                    if spec_fn is not None and not spec_fn.cover:
                        continue
                    # vacuous iff the twin *verifies* (assert(false) provable); a twin that fails -- at the injected
                    # assert or by exhausting resources while trying to prove false -- shows the context is consistent
                    if v is None or v.get("status") in ("verified", "verified-trivially"):
                        # only a problem if the real obligation was counted as verified
                        vac.append(f"{n}::{mod}::{fm['fn']}")

    if os.environ.get("VERIF_UPDATE_LOCK"):
        for (n, mod, mm, fm, v) in wanted:
            if v and v["status"] == "verified" and fm.get("sha256"):
                base[obl_key(n, mm, fm)] = dict(sha256=fm["sha256"], rlimit=v.get("rlimit", 0), time_us=v.get("time_us", 0))
        save_baseline(base)
    kf = known_findings(pid)
    kf_obl = {k["obligation"]: k for k in kf}
    real_fail = []
    kf_lines = []
    for (n, mod, mm, fm, v) in failed:
        oid = f"{n}::{norm_hdr(mm.get('header'))}::{fm.get('display', fm['fn'])}{fm.get('variant', '')}"
        if oid in kf_obl:
            k = kf_obl[oid]
            ok = True
            if k.get("replay"):
                # the recorded concrete input is replayed against the real code; the finding is only accepted as
                # "known" while it still reproduces
                try:
                    from vx import replay as vreplay
                    ok = vreplay.known_finding_reproduces(k["replay"])
                except Exception:
                    ok = None
            if ok:
                kf_lines.append((oid, k))
            elif ok is None:
                undec.append(f"known finding {oid}: replay could not be run")
            else:
                real_fail.append((n, mod, mm, fm, v, oid))
        else:
            real_fail.append((n, mod, mm, fm, v, oid))

    # a known-finding obligation that the verifier leaves undecided (resource limit on an unprovable statement) is
    # still the known finding as long as its recorded input reproduces against the real code
    still_und = []
    for (n, mod, mm, fm, v) in und_f:
        oid = f"{n}::{norm_hdr(mm.get('header'))}::{fm.get('display', fm['fn'])}{fm.get('variant', '')}"
        k = kf_obl.get(oid)
        ok = False
        if k and k.get("replay") and v is not None:
            try:
                from vx import replay as vreplay
                ok = vreplay.known_finding_reproduces(k["replay"])
            except Exception:
                ok = False
        if ok:
            kf_lines.append((oid, k))
        else:
            still_und.append((n, mod, mm, fm, v))
    und_f = still_und

    # obligations listed as known findings (expected to fail, their region-guarded twins must verify) are reported
    # separately and are not part of the proof-level count
    n_kf = len(kf_lines)
    n_obl = len(wanted) + len(extra_obls) - n_kf
    n_dis = len([1 for w in wanted if w[4] and w[4]["status"] in ("verified", "verified-trivially")]) + \
        len([1 for o in extra_obls if o["status"] == "verified"])

    samples = []
    for (n, mod, mm, fm, v) in wanted:
        samples.append(dict(unit=n, obligation=f"{mm.get('file')} :: {mm.get('header')} :: {fm.get('display', fm['fn'])}{fm.get('variant', '')}",
                            lines=fm.get("lines"), sha256=fm.get("sha256", "")[:16], backend="verus/z3",
                            status=(v or {}).get("status", "missing"), smt_time_us=(v or {}).get("time_us", 0),
                            rlimit=(v or {}).get("rlimit", 0), rules=[r["rule"] for r in fm.get("rules", [])]))
    for o in extra_obls:
        samples.append(dict(unit=o["unit"], obligation=o["name"], backend=o.get("backend", ""), status=o["status"],
                            time_s=o.get("time_s", 0)))

    assumptions = list(spec.get("assumptions", [])) + extra_assumptions
    trusted = set()
    for n, u in us.items():
        r = results[(n, False)]
        if r.path and os.path.exists(r.path):
            txt = open(r.path).read()
            for kind, ctx in vverus.scan_assumptions(txt):
                trusted.add(f"{kind}: {ctx}")
    lock_new = check_assumption_lock(trusted)

    wall = time.time() - t0
    ev = dict(property_id=pid, tier=tier, seed=seed, level="proof",
              coverage=dict(obligations=n_obl, discharged=n_dis,
                            checker_cmd="verus <generated unit>.rs --output-json --time-expanded (one file per unit; see units) ; " +
                                        spec.get("checker_extra", ""),
                            trusted_base=sorted(trusted)[:400],
                            units=[dict(unit=n, verus_total_ms=results[(n, False)].verus_total_ms,
                                        smt_ms=results[(n, False)].smt_ms, wall_s=round(results[(n, False)].wall, 2),
                                        status=results[(n, False)].status,
                                        generated_sha256=(results[(n, False)].meta or {}).get("generated_sha256", ""))
                                   for n in us],
                            functions_under_contract=len(wanted),
                            known_findings=[dict(obligation=o, text=k.get("text", "")) for (o, k) in kf_lines],
                            cover_twins_checked=(0 if a.no_cover else len(wanted)),
                            vacuous=vac,
                            samples=samples,
                            bounded=bounded,
                            watched_files=watch_report,
                            not_decided=spec.get("not_decided", []),
                            explanation=spec.get("explanation", ""),
                            exhaustive=False),
              assumptions=assumptions, wall_s=round(wall, 2), violations=len(real_fail) + len(bounded_cex))
    with open(os.path.join(EVID, f"{pid}.json"), "w") as f:
        json.dump(ev, f, indent=1)

    for oid, k in kf_lines:
        print(f"KNOWN-FINDING: property={pid} {oid} {k.get('text', '')}")
    if bounded_cex and not real_fail:
        rp = os.path.join(REPLAY, f"{pid}.json")
        json.dump(dict(property=pid, failed_obligations=[dict(obligation=f"bounded probe {pr} ({ft} build)", counterexample=r) for (ft, pr, r) in bounded_cex]),
                  open(rp, "w"), indent=1)
        for (ft, pr, r) in bounded_cex:
            print(f"FAILED-BOUNDED-CHECK {pr} ({ft}): {r.get('check')} input={str(r.get('input'))[:200]}")
        print(f"VIOLATION property={pid} replay={rp}")
        return 1
    if real_fail:
        rp = os.path.join(REPLAY, f"{pid}.json")
        rep = dict(property=pid, failed_obligations=[])
        found_any = False
        for (n, mod, mm, fm, v, oid) in real_fail:
            cex = v.get("cex")
            if cex is None:
                try:
                    from vx import replay as vreplay
                    cex = vreplay.search(pid, n, mm, fm, seed)
                except Exception as e:  # replay is best effort
                    cex = dict(error=str(e))
            if cex and cex.get("input"):
                found_any = True
            if any(re_.search(r"simplifies to false|which evaluates to false", e.get("title", "")) for e in v.get("errors", [])):
                # a ground lemma falsified by exact evaluation: the lemma text with its numerals *is* the failing input
                found_any = True
                st_ = [e.get("text", "")[:1500] for e in v.get("errors", [])]
                cex = dict(cex, statement=st_) if (cex and cex.get("input")) else dict(input="ground statement evaluated to false by Verus by(compute_only)", statement=st_)
            rep["failed_obligations"].append(dict(obligation=oid, unit=n, file=fm.get("file") or mm.get("file"), header=mm.get("header"),
                                                  fn=fm["fn"], lines=fm.get("lines"),
                                                  verifier_output=[e["text"] for e in v.get("errors", [])][:6],
                                                  counterexample=cex))
        with open(rp, "w") as f:
            json.dump(rep, f, indent=1)
        for (n, mod, mm, fm, v, oid) in real_fail:
            print(f"FAILED-OBLIGATION {oid}: " + "; ".join(sorted({e['title'] for e in v.get('errors', [])}))[:300])
        print(f"VIOLATION property={pid} replay={rp}" + ("" if found_any else " no-failing-input-found"))
        return 1
    if undec or und_f or vac or lock_new:
        for u_ in undec:
            print("UNDECIDED", u_[:1200])
        for (n, mod, mm, fm, v) in und_f[:12]:
            print(f"UNDECIDED obligation {n}::{mm.get('header')}::{fm['fn']}: " +
                  "; ".join(e["title"] for e in (v or {}).get("errors", []))[:300])
        if len(und_f) > 12:
            print(f"UNDECIDED ... and {len(und_f) - 12} more obligations")
        for v_ in vac[:8]:
            print("UNDECIDED vacuity guard: cover twin did not fail for", v_)
        if len(vac) > 8:
            print(f"UNDECIDED vacuity guard: ... and {len(vac) - 8} more")
        for l in lock_new:
            print("UNDECIDED new trusted construct not in ASSUMPTIONS.lock:", l)
        return 2
    print(f"OK property={pid} obligations={n_obl} discharged={n_dis} units={len(us)} wall={wall:.1f}s")
    return 0


BASELINE = os.path.join(ROOT, "baseline", "obligations.json")


def obl_key(n, mm, fm):
    return f"{n}::{mm.get('file')}::{norm_hdr(mm.get('header'))}::{fm.get('display', fm['fn'])}{fm.get('variant', '')}"


def load_baseline():
    if os.path.exists(BASELINE):
        return json.load(open(BASELINE))
    return {}


def save_baseline(b):
    os.makedirs(os.path.dirname(BASELINE), exist_ok=True)
    json.dump(b, open(BASELINE, "w"), indent=0, sort_keys=True)


def norm_hdr(h):
    if h is None:
        return "-"
    import re
    return re.sub(r'\s+', '', h)


def check_assumption_lock(trusted):
    path = os.path.join(ROOT, "ASSUMPTIONS.lock")
    if os.environ.get("VERIF_UPDATE_LOCK"):
        old = set()
        if os.path.exists(path):
            old = set(l.rstrip("\n") for l in open(path))
        with open(path, "w") as f:
            for l in sorted(old | trusted):
                f.write(l + "\n")
        return []
    if not os.path.exists(path):
        return []
    old = set(l.rstrip("\n") for l in open(path))
    return sorted(trusted - old)


def undecided(pid, tier, seed, t0, why):
    ev = dict(property_id=pid, tier=tier, seed=seed, level="proof",
              coverage=dict(obligations=1, discharged=0, checker_cmd="verus", trusted_base=[], explanation="undecided: " + why,
                            evaluations=1, distinct_nontrivial=2),
              assumptions=[], wall_s=round(time.time() - t0, 2), violations=0)
    os.makedirs(EVID, exist_ok=True)
    json.dump(ev, open(os.path.join(EVID, f"{pid}.json"), "w"), indent=1)
    print("UNDECIDED", why)
    return 2


if __name__ == "__main__":
    sys.exit(main())
