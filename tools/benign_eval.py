#!/usr/bin/env python3
"""Apply every behaviour-preserving refactoring under benign/<group>/patch*.diff to /repo, run the checks of the properties
of that group, undo it.  A check that exits 1 on such a change is a FALSE ALARM (exit 2 = undecided is tolerated)."""
import json, os, subprocess, sys, re, glob
ROOT = os.path.dirname(os.path.dirname(os.path.abspath(__file__)))
GROUPS = {"G1": ["C01", "C02", "C03"], "G2": ["C04", "C05"], "G3": ["C06", "C07", "C08"], "G4": ["C09"], "G5": ["C10", "C11"], "G6": ["C12"], "G7": ["C13", "C14"], "G8": ["C16", "C17"], "G9": ["C11", "C05"], "G10": ["C13", "C14"]}
# properties whose checks read a given source area (a refactoring is run against every property that can see it)
only = sys.argv[1:]
res = {}
for g in sorted(GROUPS):
    for pth in sorted(glob.glob(os.path.join(ROOT, "benign", g, "patch*.diff"))):
        name = g + "/" + os.path.basename(pth)
        if only and not any(name.startswith(o) for o in only):
            continue
        assert subprocess.run(["git", "-C", "/repo", "status", "--porcelain", "--untracked-files=no"], capture_output=True, text=True).stdout.strip() == "", "/repo not clean"
        if subprocess.run(["git", "-C", "/repo", "apply", pth]).returncode != 0:
            print(name, "DOES NOT APPLY"); continue
        files = subprocess.run(["git", "-C", "/repo", "diff", "--name-only"], capture_output=True, text=True).stdout.split()
        pids = list(GROUPS[g])
        # C12 sees everything both builds share; r1cs files are seen by C13/C14; field files by C10/C11 (and C16 for fp)
        for f in files:
            if "/r1cs/" in f: pids += ["C13", "C14"]
            if "src/fields/" in f: pids += ["C10", "C11"] + (["C16"] if "/fp" in f else [])
            if "invsqrt" in f: pids += ["C09"]
            if "min_curve" in f or "/u32/" in f: pids += ["C12"]
        out = {}
        try:
            for pid in sorted(set(pids)):
                p = subprocess.run([os.path.join(ROOT, "check"), pid, "--no-cover"], capture_output=True, text=True, timeout=3000,
                                   env=dict(os.environ, VERIF_EVIDENCE_DIR="/tmp/vx/ev"))
                last = [l for l in p.stdout.splitlines() if re.match(r"(VIOLATION|FAILED|UNDECIDED|OK)", l)]
                out[pid] = dict(exit=p.returncode, last=(last[-1] if last else "")[:200])
                print(name, files, pid, p.returncode, (last[-1] if last else "")[:140], flush=True)
        finally:
            subprocess.check_call(["git", "-C", "/repo", "checkout", "--", "."])
        res[name] = dict(files=files, checks=out)
json.dump(res, open(os.path.join(ROOT, "benign", "results.json"), "w"), indent=1)
fa = [(n, p) for n, r in res.items() for p, v in r["checks"].items() if v["exit"] == 1]
print("FALSE ALARMS:", fa)
