import subprocess, re, sys, os
R="/repo"
def sh(cmd, **kw): return subprocess.run(cmd, shell=True, capture_output=True, text=True, **kw)
def apply(file, edits, regex=False):
    p=os.path.join(R,file); s=open(p).read(); s0=s
    for (a,b) in edits:
        if regex:
            s2=re.sub(a,b,s)
        else:
            assert a in s, (file,a[:40])
            s2=s.replace(a,b)
        s=s2
    assert s!=s0
    open(p,'w').write(s)
cases=[
 ("H18 a - b as a + (-b) in ark encode", "src/ark_curve/encoding.rs", [("        let u_3 = u_2 * p.z - p.t;","        let u_3 = u_2 * p.z + (-p.t);")], False, ["C01","C03"]),
 ("H19 re-associated product in ark encode", "src/ark_curve/encoding.rs", [("        let s = (A_MINUS_D * v * u_3 * p.x).abs();","        let s = (A_MINUS_D * (v * (u_3 * p.x))).abs();")], False, ["C03"]),
 ("H20 two*s as s+s in ark elligator", "src/ark_curve/elligator.rs", [("        let E = *TWO * s;","        let E = s + s;")], False, ["C07"]),
 ("H21 distributed product in min add", "src/min_curve/element.rs", [("        let d = (z1 + z1) * z2;","        let d = z1 * z2 + z1 * z2;")], False, ["C04"]),
 ("H14 commuted products in ark encode", "src/ark_curve/encoding.rs", [("        let u_1 = (p.x + p.t) * (p.x - p.t);","        let u_1 = (p.x - p.t) * (p.x + p.t);"), ("        let u_3 = u_2 * p.z - p.t;","        let u_3 = p.z * u_2 - p.t;")], False, ["C01","C03"]),
 ("H15 commuted products in ark elligator", "src/ark_curve/elligator.rs", [("        let x = num * den;","        let x = den * num;"), ("        let mut s = isri * num;","        let mut s = num * isri;")], False, ["C07"]),
 ("H16 commuted product in r1cs inner is_eq", "src/ark_curve/r1cs/inner.rs", [("        let lhs = X_1 * Y_2;","        let lhs = Y_2 * X_1;")], False, ["C13","C14"]),
 ("H17 commuted product in ark decode", "src/ark_curve/encoding.rs", [("        let u_2 = u_1.square() - D4 * ss;","        let u_2 = u_1.square() - ss * D4;")], False, ["C02"]),
 ("H1 rename local u_1 in ark decode", "src/ark_curve/encoding.rs", [(r'\bu_1\b','uu1')], True, ["C01","C02"]),
 ("H2 comments+whitespace in ark elligator", "src/ark_curve/elligator.rs", [("        let r = ZETA * r_0.square();","        // r = zeta * r0^2\n        let r = ZETA   *   r_0.square();")], False, ["C07"]),
 ("H3 reorder independent lets in ark elligator", "src/ark_curve/elligator.rs", [("        let den = (D * r - (D - A)) * ((D - A) * r - D);\n        let num = (r + *ONE) * (A - *TWO * D);","        let num = (r + *ONE) * (A - *TWO * D);\n        let den = (D * r - (D - A)) * ((D - A) * r - D);")], False, ["C07"]),
 ("H4 rename gadget local den_var_is_zero", "src/ark_curve/r1cs/fqvar_ext.rs", [(r'\bden_var_is_zero\b','dz')], True, ["C13","C14"]),
 ("H5 rename alpha_3 in ark sqrt (proof anchors)", "src/ark_curve/invsqrt.rs", [(r'\balpha_3\b','a3')], True, ["C09"]),
 ("H6 comment in fiat fq", "src/fields/fq/u32/fiat.rs", [("pub fn fq_sub(","// harmless comment\npub fn fq_sub(")], False, ["C12"]),
 ("H7 reorder match arms in lazy.rs element()", "src/ark_curve/r1cs/lazy.rs", [("            Inner::Element(element) => Ok(element.clone()),\n            Inner::EncodingAndElement { element, .. } => Ok(element.clone()),","            Inner::EncodingAndElement { element, .. } => Ok(element.clone()),\n            Inner::Element(element) => Ok(element.clone()),")], False, ["C13"]),
 ("H8 from_bytes_checked as match", "src/fields/fq.rs", [("        if reduced.to_bytes_le() == *bytes {\n            Ok(reduced)\n        } else {\n            Err(EncodingError::InvalidEncoding)\n        }","        if !(reduced.to_bytes_le() == *bytes) {\n            Err(EncodingError::InvalidEncoding)\n        } else {\n            Ok(reduced)\n        }")], False, ["C11","C02"]),
 ("H9 rename local in min our_sqrt", "src/min_curve/invsqrt.rs", [(r'\blet mut b = t;','let mut bb = t;'),(r'\bb = b \* b;','bb = bb * bb;'),(r'!b\.ct_eq','!bb.ct_eq'),(r'\n            b = t;','\n            bb = t;')], True, ["C09"]),
 ("H10 commuted product / sum in min Add", "src/min_curve/element.rs", [("        let a = (y1 - x1) * (y2 - x2);","        let a = (y2 - x2) * (y1 - x1);"), ("        let h = b + a;","        let h = a + b;")], False, ["C04"]),
 ("H11 early return restructured in ark sqrt", "src/ark_curve/invsqrt.rs", [("        if num.is_zero() {\n            return (true, *num);\n        }\n        if den.is_zero() {\n            return (false, *den);\n        }","        if num.is_zero() {\n            return (true, *num);\n        } else if den.is_zero() {\n            return (false, *den);\n        }")], False, ["C09"]),
 ("H12 explicit temporaries in from_le_bytes_mod_order", "src/fields/fr.rs", [("                acc * (Self::FIELD_SIZE_POWER_OF_TWO) + x","                let shifted = acc * (Self::FIELD_SIZE_POWER_OF_TWO);\n                shifted + x")], False, ["C11"]),
 ("H13 ops.rs add via add_assign", "src/ark_curve/r1cs/ops.rs", [("impl AddAssign for ElementVar {\n    fn add_assign(&mut self, rhs: ElementVar) {\n        let rhs = rhs.inner.element().expect(\"element will exist\");\n        let mut lhs = self.inner.element().expect(\"element will exist\");\n        lhs.add_assign(rhs);","impl AddAssign for ElementVar {\n    fn add_assign(&mut self, rhs: ElementVar) {\n        let rhs = rhs.inner.element().expect(\"element will exist\");\n        let lhs0 = self.inner.element().expect(\"element will exist\");\n        let mut lhs = lhs0;\n        lhs.add_assign(rhs);")], False, ["C13"]),
]
only=sys.argv[1:]
for (name,file,edits,rx,pids) in cases:
    if only and not any(name.startswith(o) for o in only): continue
    assert sh("git -C /repo status --porcelain --untracked-files=no").stdout.strip()=="", "repo dirty"
    try:
        apply(file,edits,rx)
    except AssertionError as e:
        print(name,"EDIT FAILED",e); sh("git -C /repo checkout -- ."); continue
    b=sh("cd /repo && cargo build --offline 2>&1 | tail -1; cargo build --offline --no-default-features 2>&1 | tail -1").stdout.strip().replace("\n"," | ")
    for pid in pids:
        p=subprocess.run(["/verif/check",pid,"--no-cover"],capture_output=True,text=True,env=dict(os.environ,VERIF_EVIDENCE_DIR="/tmp/vx/ev"))
        last=[l for l in p.stdout.splitlines() if re.match(r'(VIOLATION|UNDECIDED|OK|FAILED)',l)]
        print(f"{name} [{pid}] exit={p.returncode} :: {(last[-1] if last else '')[:150]}")
    print("   build:",b[:160])
    sh("git -C /repo checkout -- .")
