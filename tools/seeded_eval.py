#!/usr/bin/env python3
"""Apply every seeded change to /repo (git apply), run the check of the property it breaks, undo it (git checkout -- .),
and record in seeded/<id>/meta.json which check caught it.  Never commits anything to /repo."""
import json, os, subprocess, sys, re
ROOT = os.path.dirname(os.path.dirname(os.path.abspath(__file__)))
NEEDS = json.load(open(os.path.join(ROOT, "seeded", "needs.json")))
only = sys.argv[1:]
for sid in sorted(os.listdir(os.path.join(ROOT, "seeded"))):
    d = os.path.join(ROOT, "seeded", sid)
    if not os.path.isdir(d) or (only and sid not in only):
        continue
    info = NEEDS[sid]
    assert subprocess.run(["git", "-C", "/repo", "status", "--porcelain", "--untracked-files=no"], capture_output=True, text=True).stdout.strip() == "", "/repo not clean"
    subprocess.check_call(["git", "-C", "/repo", "apply", os.path.join(d, "patch.diff")])
    res = {}
    try:
        for pid in info["checks"]:
            p = subprocess.run([os.path.join(ROOT, "check"), pid, "--no-cover"], capture_output=True, text=True, timeout=3000,
                               env=dict(os.environ, VERIF_EVIDENCE_DIR="/tmp/vx/ev"))
            lines = [l for l in p.stdout.splitlines() if re.match(r"(VIOLATION|FAILED-OBLIGATION|UNDECIDED|OK|KNOWN)", l)]
            res[pid] = dict(exit=p.returncode, summary=lines[-3:])
            print(sid, pid, p.returncode, lines[-1][:160] if lines else "")
    finally:
        subprocess.check_call(["git", "-C", "/repo", "checkout", "--", "."])
    meta = dict(id=sid, breaks_property=info["property"], needs_to_manifest=info["needs"], validated=open(os.path.join(d, "validation.txt")).read() if os.path.exists(os.path.join(d, "validation.txt")) else "",
                what_i_ran=["/tmp/vx/validate_seeded.sh (scratch worktree of /repo HEAD): existing suite with patch, demo with patch (fails), demo without patch (passes)",
                            "tools/seeded_eval.py: git -C /repo apply patch.diff; ./check <pid> --no-cover; git -C /repo checkout -- ."],
                checks=res, detected=any(v["exit"] == 1 for v in res.values()))
    json.dump(meta, open(os.path.join(d, "meta.json"), "w"), indent=1)
