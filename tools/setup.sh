#!/bin/sh
# MANIFEST.setup_cmd: build the framework's own helper binaries from files on disk (offline).
# (The checks rebuild everything that depends on /repo on every run; this only warms the dependency builds.)
cd "$(dirname "$0")/.."
export CARGO_NET_OFFLINE=true
python3 - <<'PY'
import sys
sys.path.insert(0, ".")
from vx import replay, kani
for feat in ("ark", "min", "r1cs"):
    exe = replay.build(feat)
    print("replay runner", feat, "->", exe or replay._BUILT.get(feat + "_err", "")[:300])
kani.generate()
r = kani.run_one("proofs_fq::h_fq_msat", timeout=1200)
print("kani warm-up", r["status"], r["time_s"])
PY
exit 0
