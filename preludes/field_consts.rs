// ---- the limb-count constants of src/fields/@f@.rs (values re-read from the source on every run)
pub const N_8: usize = @N8@;
pub const N_32: usize = @N32@;
pub const N_64: usize = @N64@;
pub const N: usize = @NW@;
