// ---- A-ARK-4: stand-in for the ark_r1cs_std / ark_relations API used by src/ark_curve/r1cs/{fqvar_ext,inner}.rs.
// The SAME gadget text is verified under two readings of this API (DESIGN.md C13/C14):
//   SOUND  (C14): we reason about an ARBITRARY satisfying assignment. Witness allocation returns a variable with an
//                 arbitrary value (the prover's hint closure is ignored); every enforced constraint is a fact we
//                 may use afterwards (postcondition). Deterministic gadgets fix their output value.
//   COMPL  (C13): we reason about the HONEST assignment. Witness allocation returns the hint's value; every
//                 enforced constraint is an obligation (precondition) - it must hold for the honest values.
// Each primitive is assumed to be a sound and complete gadget for the operation it names.
#[verifier::external_body]
pub struct FqVar { _p: core::marker::PhantomData<u8> }
#[verifier::external_body]
#[verifier::reject_recursive_types(F)]
pub struct Boolean<F> { _p: core::marker::PhantomData<F> }
#[verifier::external_body]
#[verifier::reject_recursive_types(F)]
pub struct ConstraintSystemRef<F> { _p: core::marker::PhantomData<F> }
pub enum SynthesisError { AssignmentMissing, Unsatisfiable, Other }
pub uninterp spec fn fv_val(x: FqVar) -> int;
pub uninterp spec fn fv_of(v: int) -> FqVar;
pub uninterp spec fn bv_val<F>(b: Boolean<F>) -> bool;
// a variable allocated in Constant mode carries no constraint system: `cs()` is ConstraintSystemRef::None, and
// witnessing into None fails with SynthesisError::MissingCS (defect D7, repaired by dc3044d, lived exactly here)
pub uninterp spec fn fv_const(x: FqVar) -> bool;
pub uninterp spec fn cs_none<F>(c: ConstraintSystemRef<F>) -> bool;
pub broadcast axiom fn fv_range(x: FqVar) ensures 0 <= #[trigger] fv_val(x) < fq_p();
pub broadcast axiom fn fv_of_val(v: int) requires 0 <= v < fq_p() ensures fv_val(#[trigger] fv_of(v)) == v;
pub broadcast group r1cs_axioms { fv_range, fv_of_val }
impl FqVar {
    pub open spec fn val(self) -> int { fv_val(self) }
}
impl<F> Boolean<F> {
    pub open spec fn bval(self) -> bool { bv_val(self) }
}
impl Clone for FqVar { #[verifier::external_body] fn clone(&self) -> (r: FqVar) ensures r.val() == self.val() { unimplemented!() } }
impl<F> Clone for Boolean<F> { #[verifier::external_body] fn clone(&self) -> (r: Boolean<F>) ensures r.bval() == self.bval() { unimplemented!() } }
impl<F> Clone for ConstraintSystemRef<F> { #[verifier::external_body] fn clone(&self) -> (r: ConstraintSystemRef<F>) ensures cs_none(r) == cs_none(*self) { unimplemented!() } }

// ---- allocation
impl FqVar {
    #[verifier::external_body]
    pub fn new_witness<T: FnOnce() -> Result<Fq, SynthesisError>>(cs: ConstraintSystemRef<Fq>, f: T) -> (r: Result<FqVar, SynthesisError>)
//#if COMPL
        requires call_requires(f, ()), !cs_none(cs)
        ensures match r { Ok(x) => exists|h: Fq| call_ensures(f, (), Ok::<Fq, SynthesisError>(h)) && x.val() == h.val(), Err(_) => false }
//#endif
    { unimplemented!() }
    #[verifier::external_body]
    pub fn new_constant(cs: ConstraintSystemRef<Fq>, c: Fq) -> (r: Result<FqVar, SynthesisError>)
        ensures match r { Ok(x) => x.val() == c.val(), Err(_) => false }
    { unimplemented!() }
    #[verifier::external_body]
    pub fn constant(c: Fq) -> (r: FqVar) ensures r.val() == c.val() { unimplemented!() }
    #[verifier::external_body]
    pub fn one() -> (r: FqVar) ensures r.val() == 1 { unimplemented!() }
    #[verifier::external_body]
    pub fn zero() -> (r: FqVar) ensures r.val() == 0 { unimplemented!() }
    #[verifier::external_body]
    pub fn cs(&self) -> (r: ConstraintSystemRef<Fq>) ensures cs_none(r) == fv_const(*self) { unimplemented!() }
    // R1CSVar::is_constant: whether the variable was allocated in Constant mode (then it has no constraint system)
    #[verifier::external_body]
    pub fn is_constant(&self) -> (r: bool) ensures r == fv_const(*self) { unimplemented!() }
    // R1CSVar::value: the assigned value (Err in setup mode, where there is no assignment)
    #[verifier::external_body]
    pub fn value(&self) -> (r: Result<Fq, SynthesisError>)
//#if COMPL
        ensures match r { Ok(v) => v.val() == self.val(), Err(_) => false }
//#else
        ensures match r { Ok(v) => v.val() == self.val(), Err(_) => true }
//#endif
    { unimplemented!() }
    // ---- deterministic gadgets
    #[verifier::external_body]
    pub fn square(&self) -> (r: Result<FqVar, SynthesisError>)
        ensures match r { Ok(x) => x.val() == fsq(self.val()), Err(_) => false }
    { unimplemented!() }
    #[verifier::external_body]
    pub fn negate(&self) -> (r: Result<FqVar, SynthesisError>)
        ensures match r { Ok(x) => x.val() == fneg(self.val()), Err(_) => false }
    { unimplemented!() }
    // FieldVar::inverse: allocates a witness and enforces self * inv == 1
    #[verifier::external_body]
    pub fn inverse(&self) -> (r: Result<FqVar, SynthesisError>)
//#if COMPL
        requires self.val() != 0
        ensures match r { Ok(x) => x.val() == finv(self.val()) && fmul(self.val(), x.val()) == 1, Err(_) => false }
//#else
        ensures match r { Ok(x) => fmul(self.val(), x.val()) == 1, Err(_) => true }
//#endif
    { unimplemented!() }
    #[verifier::external_body]
    pub fn is_eq(&self, other: &FqVar) -> (r: Result<Boolean<Fq>, SynthesisError>)
        ensures match r { Ok(b) => b.bval() == (self.val() == other.val()), Err(_) => false }
    { unimplemented!() }
    #[verifier::external_body]
    pub fn conditionally_select(cond: &Boolean<Fq>, a: &FqVar, b: &FqVar) -> (r: Result<FqVar, SynthesisError>)
        ensures match r { Ok(x) => x.val() == (if cond.bval() { a.val() } else { b.val() }), Err(_) => false }
    { unimplemented!() }
    // ToBitsGadget::to_bits_le: the unique little-endian bits of the canonical representative (enforces < q)
    #[verifier::external_body]
    pub fn to_bits_le(&self) -> (r: Result<Vec<Boolean<Fq>>, SynthesisError>)
        ensures match r { Ok(bits) => bits@.len() == 253 && bits@[0].bval() == (self.val() % 2 == 1), Err(_) => false }
    { unimplemented!() }
    // EqGadget::conditional_enforce_equal
    #[verifier::external_body]
    pub fn conditional_enforce_equal(&self, other: &FqVar, cond: &Boolean<Fq>) -> (r: Result<(), SynthesisError>)
//#if COMPL
        requires cond.bval() ==> self.val() == other.val()
        ensures r is Ok
//#else
        ensures r is Ok ==> (cond.bval() ==> self.val() == other.val())
//#endif
    { unimplemented!() }
}
impl<F> Boolean<F> {
    #[verifier::external_body]
    pub fn new_witness<T: FnOnce() -> Result<bool, SynthesisError>>(cs: ConstraintSystemRef<F>, f: T) -> (r: Result<Boolean<F>, SynthesisError>)
//#if COMPL
        requires call_requires(f, ()), !cs_none(cs)
        ensures match r { Ok(x) => call_ensures(f, (), Ok::<bool, SynthesisError>(x.bval())), Err(_) => false }
//#endif
    { unimplemented!() }
    #[verifier::external_body]
    pub fn constant(b: bool) -> (r: Boolean<F>) ensures r.bval() == b { unimplemented!() }
    #[verifier::external_body]
    pub fn TRUE_() -> (r: Boolean<F>) ensures r.bval() { unimplemented!() }
    #[verifier::external_body]
    pub fn FALSE_() -> (r: Boolean<F>) ensures !r.bval() { unimplemented!() }
    #[verifier::external_body]
    pub fn not(&self) -> (r: Boolean<F>) ensures r.bval() == !self.bval() { unimplemented!() }
    #[verifier::external_body]
    pub fn and(&self, o: &Boolean<F>) -> (r: Result<Boolean<F>, SynthesisError>)
        ensures match r { Ok(x) => x.bval() == (self.bval() && o.bval()), Err(_) => false }
    { unimplemented!() }
    #[verifier::external_body]
    pub fn or(&self, o: &Boolean<F>) -> (r: Result<Boolean<F>, SynthesisError>)
        ensures match r { Ok(x) => x.bval() == (self.bval() || o.bval()), Err(_) => false }
    { unimplemented!() }
    #[verifier::external_body]
    pub fn is_eq(&self, o: &Boolean<F>) -> (r: Result<Boolean<F>, SynthesisError>)
        ensures match r { Ok(x) => x.bval() == (self.bval() == o.bval()), Err(_) => false }
    { unimplemented!() }
    #[verifier::external_body]
    pub fn enforce_equal(&self, o: &Boolean<F>) -> (r: Result<(), SynthesisError>)
//#if COMPL
        requires self.bval() == o.bval()
        ensures r is Ok
//#else
        ensures r is Ok ==> self.bval() == o.bval()
//#endif
    { unimplemented!() }
    #[verifier::external_body]
    pub fn conditional_enforce_equal(&self, o: &Boolean<F>, cond: &Boolean<F>) -> (r: Result<(), SynthesisError>)
//#if COMPL
        requires cond.bval() ==> self.bval() == o.bval()
        ensures r is Ok
//#else
        ensures r is Ok ==> (cond.bval() ==> self.bval() == o.bval())
//#endif
    { unimplemented!() }
}
impl Boolean<Fq> {
    // Boolean::select(&self, a, b)
    #[verifier::external_body]
    pub fn select(&self, a: &FqVar, b: &FqVar) -> (r: Result<FqVar, SynthesisError>)
        ensures match r { Ok(x) => x.val() == (if self.bval() { a.val() } else { b.val() }), Err(_) => false }
    { unimplemented!() }
}
// ---- field operators on variables (each allocates the product/sum deterministically)
pub open spec fn fv_bin(op: int, a: int, b: int) -> int { if op == 0 { fadd(a, b) } else if op == 1 { fsub(a, b) } else { fmul(a, b) } }
@FQVAR_OPS@
// twisted Edwards point gadget (ark_r1cs_std::groups::curves::twisted_edwards::AffineVar): affine coordinates
pub struct Decaf377EdwardsVar { pub x: FqVar, pub y: FqVar }
impl Clone for Decaf377EdwardsVar {
    fn clone(&self) -> (r: Decaf377EdwardsVar) ensures r.x.val() == self.x.val(), r.y.val() == self.y.val()
    { Decaf377EdwardsVar { x: self.x.clone(), y: self.y.clone() } }
}
pub type AffineVarD = Decaf377EdwardsVar;
impl Decaf377EdwardsVar {
    pub fn new(x: FqVar, y: FqVar) -> (r: Decaf377EdwardsVar) ensures r.x == x, r.y == y { Decaf377EdwardsVar { x, y } }
}
