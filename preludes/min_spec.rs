// ---- specification formulas for the self-contained backend (src/min_curve), written from the papers it cites
// HWCD 2008 section 3.1, "8M + 1D" unified addition for a = -1 with k = 2d (add-2008-hwcd-3)
pub open spec fn K_() -> int { 6042 }
pub open spec fn te_add_min(p: P4, q: P4) -> P4 {
    let a = fmul(fsub(p.y, p.x), fsub(q.y, q.x));
    let b = fmul(fadd(p.y, p.x), fadd(q.y, q.x));
    let c = fmul(fmul(K_(), p.t), q.t);
    let d = fmul(fadd(p.z, p.z), q.z);
    let e = fsub(b, a);
    let f = fsub(d, c);
    let g = fadd(d, c);
    let h = fadd(b, a);
    P4 { x: fmul(e, f), y: fmul(g, h), t: fmul(e, h), z: fmul(f, g) }
}
// HWCD 2008 section 3.3 doubling with a = -1 (D = -A)
pub open spec fn te_double_min(p: P4) -> P4 {
    let a = fsq(p.x);
    let b = fsq(p.y);
    let c = fadd(fsq(p.z), fsq(p.z));
    let d = fneg(a);
    let e = fsub(fsub(fsq(fadd(p.x, p.y)), a), b);
    let g = fadd(d, b);
    let f = fsub(g, c);
    let h = fsub(d, b);
    P4 { x: fmul(e, f), y: fmul(g, h), t: fmul(e, h), z: fmul(f, g) }
}
pub open spec fn scale4(l: int, p: P4) -> P4 { P4 { x: fmul(l, p.x), y: fmul(l, p.y), z: fmul(l, p.z), t: fmul(l, p.t) } }
