// ---- stand-in for src/fields/@f@/u32/fiat.rs (module `fiat`): same names and signatures.
// Contracts tagged [kani] are proved by the Kani harnesses of vx/kani.py on the VERBATIM file (limb-level statements,
// lifted to integers through limbs32_val); contracts tagged [A-FIAT] are fiat-crypto's documented postconditions (assumed).
pub open spec fn @f@_p() -> int { @P@int }
pub open spec fn @f@_rinv() -> int { @RINV@int }
pub open spec fn l32(s: Seq<u32>) -> int { limbs32_val(s) }
pub mod fiat {
    use super::*;
    #[derive(Copy, Clone)]
    pub struct @F@MontgomeryDomainFieldElement(pub [u32; @N32@]);
    #[derive(Copy, Clone)]
    pub struct @F@NonMontgomeryDomainFieldElement(pub [u32; @N32@]);
    // [kani: h_@f@_add]
    #[verifier::external_body]
    pub fn @f@_add(out1: &mut @F@MontgomeryDomainFieldElement, arg1: &@F@MontgomeryDomainFieldElement, arg2: &@F@MontgomeryDomainFieldElement)
        ensures (l32(arg1.0@) < @f@_p() && l32(arg2.0@) < @f@_p()) ==> (l32(final(out1).0@) == (l32(arg1.0@) + l32(arg2.0@)) % @f@_p())
    { unimplemented!() }
    // [kani: h_@f@_sub]
    #[verifier::external_body]
    pub fn @f@_sub(out1: &mut @F@MontgomeryDomainFieldElement, arg1: &@F@MontgomeryDomainFieldElement, arg2: &@F@MontgomeryDomainFieldElement)
        ensures (l32(arg1.0@) < @f@_p() && l32(arg2.0@) < @f@_p()) ==> (l32(final(out1).0@) == (l32(arg1.0@) - l32(arg2.0@)) % @f@_p())
    { unimplemented!() }
    // [kani: h_@f@_opp]
    #[verifier::external_body]
    pub fn @f@_opp(out1: &mut @F@MontgomeryDomainFieldElement, arg1: &@F@MontgomeryDomainFieldElement)
        ensures (l32(arg1.0@) < @f@_p()) ==> (l32(final(out1).0@) == (-l32(arg1.0@)) % @f@_p())
    { unimplemented!() }
    // [A-FIAT-1] Montgomery multiplication / squaring
    #[verifier::external_body]
    pub fn @f@_mul(out1: &mut @F@MontgomeryDomainFieldElement, arg1: &@F@MontgomeryDomainFieldElement, arg2: &@F@MontgomeryDomainFieldElement)
        ensures (l32(arg1.0@) < @f@_p() && l32(arg2.0@) < @f@_p()) ==> (l32(final(out1).0@) == mmul(@f@_p(), mmul(@f@_p(), l32(arg1.0@), l32(arg2.0@)), @f@_rinv()))
    { unimplemented!() }
    #[verifier::external_body]
    pub fn @f@_square(out1: &mut @F@MontgomeryDomainFieldElement, arg1: &@F@MontgomeryDomainFieldElement)
        ensures (l32(arg1.0@) < @f@_p()) ==> (l32(final(out1).0@) == mmul(@f@_p(), mmul(@f@_p(), l32(arg1.0@), l32(arg1.0@)), @f@_rinv()))
    { unimplemented!() }
    // [A-FIAT-1] conversion out of Montgomery form
    #[verifier::external_body]
    pub fn @f@_from_montgomery(out1: &mut @F@NonMontgomeryDomainFieldElement, arg1: &@F@MontgomeryDomainFieldElement)
        ensures (l32(arg1.0@) < @f@_p()) ==> (l32(final(out1).0@) == mmul(@f@_p(), l32(arg1.0@), @f@_rinv()))
    { unimplemented!() }
    // [A-FIAT-2] conversion into Montgomery form, for EVERY input below 2^(32 N) (not only below the modulus)
    #[verifier::external_body]
    pub fn @f@_to_montgomery(out1: &mut @F@MontgomeryDomainFieldElement, arg1: &@F@NonMontgomeryDomainFieldElement)
        ensures l32(final(out1).0@) < @f@_p(), mmul(@f@_p(), l32(final(out1).0@), @f@_rinv()) == l32(arg1.0@) % @f@_p()
    { unimplemented!() }
    // [kani: h_@f@_nonzero]
    #[verifier::external_body]
    pub fn @f@_nonzero(out1: &mut u32, arg1: &[u32; @N32@])
        ensures (*final(out1) == 0) <==> l32(arg1@) == 0
    { unimplemented!() }
    // [kani: h_@f@_selectznz]
    #[verifier::external_body]
    pub fn @f@_selectznz(out1: &mut [u32; @N32@], arg1: u8, arg2: &[u32; @N32@], arg3: &[u32; @N32@])
        ensures (arg1 <= 1) ==> (final(out1)@ == (if arg1 == 0 { arg2@ } else { arg3@ }))
    { unimplemented!() }
    // [kani: h_@f@_to_bytes]
    #[verifier::external_body]
    pub fn @f@_to_bytes(out1: &mut [u8; @N8@], arg1: &[u32; @N32@])
        ensures (l32(arg1@) < @f@_p()) ==> (bytes_val(final(out1)@) == l32(arg1@))
    { unimplemented!() }
    // [kani: h_@f@_from_bytes] (all byte strings)
    #[verifier::external_body]
    pub fn @f@_from_bytes(out1: &mut [u32; @N32@], arg1: &[u8; @N8@])
        ensures l32(final(out1)@) == bytes_val(arg1@)
    { unimplemented!() }
}
pub broadcast proof fn lemma_l32_bound(s: Seq<u32>)
    ensures 0 <= #[trigger] limbs32_val(s)
    decreases s.len()
{ if s.len() > 0 { lemma_l32_bound(s.drop_first()); } }
