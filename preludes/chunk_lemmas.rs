// ---- Horner evaluation of a little-endian byte string in chunks (from_le_bytes_mod_order); everything here is proved.
pub open spec fn pw256(n: nat) -> int decreases n { if n == 0 { 1 } else { 256 * pw256((n - 1) as nat) } }
pub open spec fn imin(a: int, b: int) -> int { if a < b { a } else { b } }
pub open spec fn chunks_len_spec(len: int, n: int) -> int { (len + n - 1) / n }
pub open spec fn all_zero(z: Seq<u8>) -> bool { forall|i: int| 0 <= i < z.len() ==> z[i] == 0 }
pub proof fn lemma_bytes_split(s: Seq<u8>, k: int)
    requires 0 <= k <= s.len()
    ensures bytes_val(s) == bytes_val(s.subrange(0, k)) + pw256(k as nat) * bytes_val(s.subrange(k, s.len() as int))
    decreases k
{
    if k == 0 {
        assert(s.subrange(0, 0).len() == 0);
        assert(s.subrange(0, s.len() as int) =~= s);
    } else {
        let t = s.drop_first();
        lemma_bytes_split(t, k - 1);
        assert(s.subrange(0, k).drop_first() =~= t.subrange(0, k - 1));
        assert(t.subrange(k - 1, t.len() as int) =~= s.subrange(k, s.len() as int));
        assert(s.subrange(0, k)[0] == s[0]);
        let a = bytes_val(t.subrange(0, k - 1)); let b = bytes_val(s.subrange(k, s.len() as int)); let w = pw256((k - 1) as nat);
        assert(256 * (a + w * b) == 256 * a + (256 * w) * b) by(nonlinear_arith);
    }
}
pub proof fn lemma_bytes_zeros(s: Seq<u8>, z: Seq<u8>)
    requires all_zero(z)
    ensures bytes_val(s + z) == bytes_val(s)
    decreases s.len() + z.len()
{
    if s.len() == 0 {
        assert(s + z =~= z);
        if z.len() > 0 { lemma_bytes_zeros(s, z.drop_first()); assert(s + z.drop_first() =~= z.drop_first()); }
    } else {
        assert((s + z).drop_first() =~= s.drop_first() + z);
        lemma_bytes_zeros(s.drop_first(), z);
    }
}
pub broadcast proof fn lemma_pad_zero(s: Seq<u8>, z: Seq<u8>)
    requires all_zero(z)
    ensures #[trigger] bytes_val(s + z) == bytes_val(s)
{ lemma_bytes_zeros(s, z); }
pub broadcast proof fn lemma_chunks_cover(len: int, n: int)
    requires n > 0, len >= 0
    ensures #[trigger] chunks_len_spec(len, n) * n >= len, chunks_len_spec(len, n) >= 0
{
    assert(((len + n - 1) / n) * n >= len && (len + n - 1) / n >= 0) by(nonlinear_arith) requires n > 0, len >= 0;
}
pub proof fn lemma_horner_step(p: int, acc: int, rest: int, c: int, w: int)
    requires p > 0, acc == rest % p
    ensures ((acc * (w % p)) % p + c % p) % p == (c + w * rest) % p
{
    vstd::arithmetic::div_mod::lemma_mul_mod_noop_general(rest, w, p);
    assert(((rest % p) * (w % p)) % p == (rest * w) % p);
    vstd::arithmetic::div_mod::lemma_add_mod_noop(rest * w, c, p);
    assert(rest * w + c == c + w * rest) by(nonlinear_arith);
}
// one iteration of the chunk loop, stated over the values only: s the whole string, n the chunk size, k the index of
// the chunk just consumed, acc0 / acc1 the accumulator before / after, xm the reduced chunk, w = 256^n mod p
pub proof fn lemma_chunk_step(p: int, s: Seq<u8>, n: int, k: int, acc0: int, xm: int, acc1: int, w: int)
    requires p > 1, n > 0, 0 <= k, k < chunks_len_spec(s.len() as int, n), w == pw256(n as nat) % p,
        acc0 == bytes_val(s.subrange(imin((k + 1) * n, s.len() as int), s.len() as int)) % p,
        xm == bytes_val(s.subrange(k * n, imin((k + 1) * n, s.len() as int))) % p,
        acc1 == ((acc0 * w) % p + xm) % p,
    ensures acc1 == bytes_val(s.subrange(imin(k * n, s.len() as int), s.len() as int)) % p, k * n < s.len()
{
    let len = s.len() as int;
    let lo = k * n;
    let hi = imin((k + 1) * n, len);
    assert(lo < len) by(nonlinear_arith) requires k < (len + n - 1) / n, lo == k * n, n > 0, k >= 0;
    assert((k + 1) * n == lo + n) by(nonlinear_arith) requires lo == k * n;
    let rest = s.subrange(hi, len);
    let tail = s.subrange(lo, len);
    let c = s.subrange(lo, hi);
    lemma_bytes_split(tail, hi - lo);
    assert(tail.subrange(0, hi - lo) =~= c);
    assert(tail.subrange(hi - lo, tail.len() as int) =~= rest);
    if hi == len {
        assert(rest.len() == 0);
        assert(acc0 == 0) by { vstd::arithmetic::div_mod::lemma_small_mod(0, p as nat); }
        assert(pw256((hi - lo) as nat) * 0 == 0);
        assert(0 * w == 0);
        vstd::arithmetic::div_mod::lemma_small_mod(0, p as nat);
        vstd::arithmetic::div_mod::lemma_mod_twice(bytes_val(c), p);
    } else {
        assert(hi - lo == n);
        lemma_horner_step(p, acc0, bytes_val(rest), bytes_val(c), pw256(n as nat));
        vstd::arithmetic::div_mod::lemma_mod_twice(pw256(n as nat), p);
    }
}
// big-endian strings: the value of the reversed string
pub open spec fn bytes_val_be(s: Seq<u8>) -> int { bytes_val(s.reverse()) }
// ---- A-STD: stand-ins the iterator chain `s.chunks(n).map(f).rev().fold(init, g)` is desugared to by rule R25, and the
// slice operations of the chunk padding.  `chunks(n)` yields ceil(len / n) non-overlapping sub-slices of length n
// (the last one possibly shorter); `rev()` visits them last to first; map and fold apply their closures in that order.
#[verifier::external_body]
pub fn chunks_len(s: &[u8], n: usize) -> (r: usize)
    requires n > 0
    ensures r as int == chunks_len_spec(s@.len() as int, n as int)
{ unimplemented!() }
#[verifier::external_body]
pub fn chunk_at(s: &[u8], n: usize, k: usize) -> (r: &[u8])
    requires n > 0, (k as int) < chunks_len_spec(s@.len() as int, n as int)
    ensures r@ == s@.subrange(k * n, imin((k + 1) * n, s@.len() as int))
{ unimplemented!() }
// `dst[..src.len()].copy_from_slice(src)` (panics unless src.len() <= N)
#[verifier::external_body]
pub fn copy_prefix<const N: usize>(dst: &mut [u8; N], src: &[u8])
    requires src@.len() <= N
    ensures final(dst)@ == src@ + old(dst)@.subrange(src@.len() as int, N as int)
{ unimplemented!() }
pub assume_specification<T: Clone> [<[T]>::to_vec] (s: &[T]) -> (r: Vec<T>)
    ensures r@ == s@;    // element types here are `u8` (Clone is a bit copy)
pub assume_specification<T> [<[T]>::reverse] (s: &mut [T])
    ensures final(s)@ == old(s)@.reverse();
