// ---- A-ARK-4 (continued): the twisted-Edwards point gadget `AffineVar` of ark-r1cs-std 0.4 as used by
// src/ark_curve/r1cs/{inner,element,ops}.rs.  Its operations are complete formulas enforced by constraints
// (groups/curves/twisted_edwards/mod.rs: add = lines 715-773, double_in_place = 479-521); each is assumed to be a sound
// and complete gadget for the affine group law ON CURVE POINTS (for off-curve inputs a denominator may vanish and the
// result is unconstrained, so nothing is promised).  Results are compared projectively with the specification's te_add.
pub open spec fn pva(v: Decaf377EdwardsVar) -> P4 { P4 { x: v.x.val(), y: v.y.val(), z: 1, t: fmul(v.x.val(), v.y.val()) } }
pub open spec fn add_post(a: P4, b: P4, r: P4) -> bool { on_curve(a) && on_curve(b) ==> proj_eq(r, te_add(a, b)) && on_curve(r) }
pub open spec fn sub_post(a: P4, b: P4, r: P4) -> bool { on_curve(a) && on_curve(b) ==> proj_eq(r, te_add(a, te_neg(b))) && on_curve(r) }
// native group types (A-ARK-2, only what the gadget code touches)
#[verifier::external_body]
pub struct EdwardsProjective { _p: u8 }
pub uninterp spec fn repr(p: EdwardsProjective) -> P4;
// the coordinates of a native point are field elements (A-ARK-2)
pub broadcast axiom fn repr_range(p: EdwardsProjective)
    ensures in_fq(#[trigger] repr(p).x), in_fq(repr(p).y), in_fq(repr(p).z), in_fq(repr(p).t);
#[derive(Clone, Copy)]
pub struct Element { pub inner: EdwardsProjective }
impl Element {
    // native encoder (its contract is C01/C03; the soundness reading never looks at the value a prover computes)
    #[verifier::external_body]
    pub fn vartime_compress_to_field(&self) -> (r: Fq)
//#if COMPL
        ensures r.val() == spec_encode(repr(self.inner))      // the native encoder's contract (C03, unit ark_encoding)
//#endif
    { unimplemented!() }
}
// ark_r1cs_std::alloc::AllocationMode, ark_relations::r1cs::Namespace, core::borrow::Borrow
pub enum AllocationMode { Constant, Input, Witness }
#[verifier::external_body]
#[verifier::reject_recursive_types(F)]
pub struct Namespace<F> { _p: core::marker::PhantomData<F> }
pub uninterp spec fn ns_cs<F>(ns: Namespace<F>) -> ConstraintSystemRef<F>;
impl<F> Namespace<F> {
    #[verifier::external_body]
    pub fn cs(&self) -> (r: ConstraintSystemRef<F>) ensures r == ns_cs(*self) { unimplemented!() }
}
pub trait Borrow<B> { spec fn borrow_spec(&self) -> B; fn borrow(&self) -> (r: &B) ensures *r == self.borrow_spec(); }
impl Borrow<Element> for Element { open spec fn borrow_spec(&self) -> Element { *self } fn borrow(&self) -> (r: &Element) { self } }
impl Clone for EdwardsProjective { #[verifier::external_body] fn clone(&self) -> (r: EdwardsProjective) ensures r == *self { unimplemented!() } }
impl Copy for EdwardsProjective {}
@GROUP_OPS@
// native affine point (ark_ec Affine<Decaf377EdwardsConfig>, A-ARK-2): `Affine::new` asserts that the coordinates satisfy the
// curve equation (the crate's config answers the subgroup question with a constant true) and panics otherwise -- a defect in
// the completeness reading, no circuit in the soundness reading
#[verifier::external_body]
pub struct EdwardsAffine { _p: u8 }
pub uninterp spec fn arepr_(a: EdwardsAffine) -> P4;
pub uninterp spec fn of_p4_(p: P4) -> EdwardsProjective;
pub broadcast axiom fn repr_of_p4_(p: P4) ensures repr(#[trigger] of_p4_(p)) == p;
pub open spec fn aff4(x: int, y: int) -> P4 { P4 { x: x, y: y, z: 1, t: fmul(x, y) } }
impl EdwardsAffine {
    #[verifier::external_body]
    pub fn new(x: Fq, y: Fq) -> (r: EdwardsAffine)
//#if COMPL
        requires on_curve(aff4(x.val(), y.val()))
//#endif
        ensures arepr_(r) == aff4(x.val(), y.val())
    { unimplemented!() }
}
impl FromSpecImpl<EdwardsAffine> for EdwardsProjective {
    open spec fn obeys_from_spec() -> bool { true }
    open spec fn from_spec(p: EdwardsAffine) -> EdwardsProjective { of_p4_(arepr_(p)) }
}
impl From<EdwardsAffine> for EdwardsProjective { #[verifier::external_body] fn from(p: EdwardsAffine) -> EdwardsProjective { unimplemented!() } }
// R1CSVar::cs of the point gadget (FqVar::value is in preludes/r1cs.rs)
pub uninterp spec fn ev_cs(v: Decaf377EdwardsVar) -> ConstraintSystemRef<Fq>;
impl Decaf377EdwardsVar {
    #[verifier::external_body]
    pub fn cs(&self) -> (r: ConstraintSystemRef<Fq>) ensures r == ev_cs(*self) { unimplemented!() }
}
impl Decaf377EdwardsVar {
    // AffineVar::new_variable_omit_prime_order_check: allocates x, y in the given mode and (unless Constant) enforces the
    // curve equation a x^2 + y^2 = 1 + d x^2 y^2 on them; no subgroup / coset check (that is the caller's business)
    #[verifier::external_body]
    pub fn new_variable_omit_prime_order_check<T: FnOnce() -> Result<EdwardsProjective, SynthesisError>>(cs: ConstraintSystemRef<Fq>, f: T, mode: AllocationMode)
        -> (r: Result<Decaf377EdwardsVar, SynthesisError>)
//#if COMPL
        // honest reading: the offered point satisfies the curve equation (the one constraint this gadget enforces), the hint
        // closure answers, and there is a constraint system to allocate in; the variable then holds the affine coordinates
        requires call_requires(f, ()), !(mode is Constant) ==> !cs_none(cs),
                 forall|q: Result<EdwardsProjective, SynthesisError>| #[trigger] call_ensures(f, (), q) ==> q is Ok && on_curve(repr(q->Ok_0))
        ensures match r { Ok(v) => exists|h: EdwardsProjective| call_ensures(f, (), Ok::<EdwardsProjective, SynthesisError>(h)) && proj_eq(pva(v), repr(h)) && on_curve(pva(v)), Err(_) => false }
//#else
        ensures match r { Ok(v) => !(mode is Constant) ==> on_curve(pva(v)), Err(_) => true }
//#endif
    { unimplemented!() }
    #[verifier::external_body]
    pub fn zero() -> (r: Decaf377EdwardsVar) ensures pva(r) == id4() { unimplemented!() }
    // AffineVar::constant(p): the affine coordinates of the native point
    #[verifier::external_body]
    pub fn constant(p: EdwardsProjective) -> (r: Decaf377EdwardsVar) ensures on_curve(repr(p)) ==> proj_eq(pva(r), repr(p)) && on_curve(pva(r)) { unimplemented!() }
    #[verifier::external_body]
    pub fn double_in_place(&mut self) -> (r: Result<(), SynthesisError>)
//#if COMPL
        ensures r is Ok, add_post(pva(*old(self)), pva(*old(self)), pva(*final(self)))
//#else
        ensures r is Ok ==> add_post(pva(*old(self)), pva(*old(self)), pva(*final(self)))
//#endif
    { unimplemented!() }
    #[verifier::external_body]
    pub fn negate(&self) -> (r: Result<Decaf377EdwardsVar, SynthesisError>)
//#if COMPL
        ensures match r { Ok(v) => pva(v) == te_neg(pva(*self)), Err(_) => false }
//#else
        ensures match r { Ok(v) => pva(v) == te_neg(pva(*self)), Err(_) => true }
//#endif
    { unimplemented!() }
}
// `.expect(msg)` on the Result of a forcing call.  COMPL: a panic is a defect, so `is Ok` is an obligation.  SOUND: a
// panic during synthesis means there is no circuit and nothing to prove about it, so the call is assumed to return.
pub trait ExpectOk<T>: Sized {
    spec fn ok_(self) -> bool;
    spec fn get_(self) -> T;
    fn expect_(self, msg: &str) -> (o: T)
//#if COMPL
        requires self.ok_()
//#endif
        ensures self.ok_() && o == self.get_();
}
impl<T> ExpectOk<T> for Result<T, SynthesisError> {
    open spec fn ok_(self) -> bool { self is Ok }
    open spec fn get_(self) -> T { self->Ok_0 }
    #[verifier::external_body]
    fn expect_(self, msg: &str) -> (o: T) { unimplemented!() }
}
