// ---- common spec layer: modular arithmetic on ints, little-endian values of limb / byte sequences
pub open spec fn madd(p: int, a: int, b: int) -> int { (a + b) % p }
pub open spec fn msub(p: int, a: int, b: int) -> int { (a - b) % p }
pub open spec fn mmul(p: int, a: int, b: int) -> int { (a * b) % p }
pub open spec fn mneg(p: int, a: int) -> int { (-a) % p }
pub open spec fn mpow(p: int, a: int, e: nat) -> int decreases e {
    if e == 0 { 1int % p } else if e % 2 == 0 { mpow(p, mmul(p, a, a), e / 2) } else { mmul(p, a, mpow(p, mmul(p, a, a), e / 2)) }
}
// inverse by Fermat (p prime): a^(p-2).  That a * minv(a) == 1 for a != 0 is M-PRIME (see m_prime_* axioms).
pub open spec fn minv(p: int, a: int) -> int { mpow(p, a, (p - 2) as nat) }

pub open spec fn W64() -> int { 0x1_0000_0000_0000_0000int }
pub open spec fn limbs_val(s: Seq<u64>) -> int decreases s.len() {
    if s.len() == 0 { 0 } else { s[0] as int + W64() * limbs_val(s.drop_first()) }
}
pub open spec fn limbs32_val(s: Seq<u32>) -> int decreases s.len() {
    if s.len() == 0 { 0 } else { s[0] as int + 0x1_0000_0000int * limbs32_val(s.drop_first()) }
}
pub open spec fn bytes_val(s: Seq<u8>) -> int decreases s.len() {
    if s.len() == 0 { 0 } else { s[0] as int + 256 * bytes_val(s.drop_first()) }
}

// commutativity of the modular operations as broadcast lemmas (each application produces at most the mirrored term, so
// there is no matching loop): an operand swap in the source must not turn a formula proof into a failure
pub broadcast proof fn lemma_mmul_comm_b(p: int, a: int, b: int) ensures #[trigger] mmul(p, a, b) == mmul(p, b, a)
{ assert(a * b == b * a) by(nonlinear_arith); }
pub broadcast proof fn lemma_madd_comm_b(p: int, a: int, b: int) ensures #[trigger] madd(p, a, b) == madd(p, b, a) { }
pub broadcast group comm_ops { lemma_mmul_comm_b, lemma_madd_comm_b }
