// ---- A-ARK-1: ark_ff::BigInt<N> as used outside the wrappers (comparison is integer comparison of the limbs)
#[derive(Copy, Clone)]
pub struct BigInt(pub [u64; @N64@]);
pub open spec fn bigint_cmp(a: BigInt, b: BigInt) -> Ordering {
    if limbs_val(a.0@) < limbs_val(b.0@) { Ordering::Less } else if limbs_val(a.0@) == limbs_val(b.0@) { Ordering::Equal } else { Ordering::Greater }
}
impl PartialEqSpecImpl<BigInt> for BigInt {
    open spec fn obeys_eq_spec() -> bool { true }
    open spec fn eq_spec(&self, other: &BigInt) -> bool { limbs_val(self.0@) == limbs_val(other.0@) }
}
impl PartialEq<BigInt> for BigInt { #[verifier::external_body] fn eq(&self, other: &BigInt) -> bool { unimplemented!() } }
impl Eq for BigInt {}
impl PartialOrdSpecImpl<BigInt> for BigInt {
    open spec fn obeys_partial_cmp_spec() -> bool { true }
    open spec fn partial_cmp_spec(&self, other: &BigInt) -> Option<Ordering> { Some(bigint_cmp(*self, *other)) }
}
impl PartialOrd for BigInt { #[verifier::external_body] fn partial_cmp(&self, other: &BigInt) -> Option<Ordering> { unimplemented!() } }
impl OrdSpecImpl for BigInt {
    open spec fn obeys_cmp_spec() -> bool { true }
    open spec fn cmp_spec(&self, other: &BigInt) -> Ordering { bigint_cmp(*self, *other) }
}
impl Ord for BigInt { #[verifier::external_body] fn cmp(&self, other: &BigInt) -> Ordering { unimplemented!() } }
impl BigInt {
    pub const fn new(value: [u64; @N64@]) -> (r: BigInt) ensures r.0 == value { BigInt(value) }
    // BigInteger::sub_with_borrow: self <- self - other mod 2^(64 N); returns the borrow
    #[verifier::external_body]
    pub fn sub_with_borrow(&mut self, other: &BigInt) -> (b: bool)
        ensures b == (limbs_val(old(self).0@) < limbs_val(other.0@)),
                limbs_val(final(self).0@) == (limbs_val(old(self).0@) - limbs_val(other.0@)) % (0x1_0000_0000_0000_0000int * @RDIV64@int)
    { unimplemented!() }
}
