// ---- A-SUBTLE: stand-in for subtle::{Choice, ConditionallySelectable, ConstantTimeEq}
#[derive(Copy, Clone)]
pub struct Choice(pub u8);
impl Choice {
    pub open spec fn b(self) -> bool { self.0 == 1 }
    pub open spec fn wf(self) -> bool { self.0 == 0 || self.0 == 1 }
}
impl FromSpecImpl<u8> for Choice {
    open spec fn obeys_from_spec() -> bool { true }
    open spec fn from_spec(v: u8) -> Choice { Choice(v) }
}
impl From<u8> for Choice { fn from(v: u8) -> Choice { Choice(v) } }
impl vstd::std_specs::ops::NotSpecImpl for Choice {
    open spec fn obeys_not_spec() -> bool { true }
    open spec fn not_req(self) -> bool { self.wf() }
    open spec fn not_spec(self) -> Choice { Choice(if self.0 == 1 { 0u8 } else { 1u8 }) }
}
impl core::ops::Not for Choice { type Output = Choice; fn not(self) -> Choice { Choice(if self.0 == 1 { 0u8 } else { 1u8 }) } }
// contract = the documented one: returns exactly `a` when choice is 0 and exactly `b` when choice is 1
pub trait ConditionallySelectable: Copy {
    spec fn cs_wf(&self) -> bool;
    fn conditional_select(a: &Self, b: &Self, choice: Choice) -> (r: Self)
        requires a.cs_wf(), b.cs_wf(), choice.wf()
        ensures r.cs_wf(), choice.b() ==> r =~~= *b, !choice.b() ==> r =~~= *a;
}
pub trait ConstantTimeEq {
    spec fn ct_wf(&self) -> bool;
    spec fn ct_eq_spec(&self, other: &Self) -> bool;
    fn ct_eq(&self, other: &Self) -> (r: Choice)
        requires self.ct_wf(), other.ct_wf()
        ensures r.wf(), r.b() == self.ct_eq_spec(other);
}
pub mod subtle { pub use super::Choice; pub use super::ConditionallySelectable; pub use super::ConstantTimeEq; }
impl Choice {
    pub fn unwrap_u8(&self) -> (r: u8) ensures r == self.0 { self.0 }
}
impl vstd::std_specs::ops::BitAndSpecImpl<Choice> for Choice {
    open spec fn obeys_bitand_spec() -> bool { true }
    open spec fn bitand_req(self, rhs: Choice) -> bool { self.wf() && rhs.wf() }
    open spec fn bitand_spec(self, rhs: Choice) -> Choice { Choice(if self.0 == 1 && rhs.0 == 1 { 1u8 } else { 0u8 }) }
}
impl core::ops::BitAnd<Choice> for Choice { type Output = Choice; fn bitand(self, rhs: Choice) -> Choice { Choice(if self.0 == 1 && rhs.0 == 1 { 1u8 } else { 0u8 }) } }
impl vstd::std_specs::ops::BitOrSpecImpl<Choice> for Choice {
    open spec fn obeys_bitor_spec() -> bool { true }
    open spec fn bitor_req(self, rhs: Choice) -> bool { self.wf() && rhs.wf() }
    open spec fn bitor_spec(self, rhs: Choice) -> Choice { Choice(if self.0 == 1 || rhs.0 == 1 { 1u8 } else { 0u8 }) }
}
impl core::ops::BitOr<Choice> for Choice { type Output = Choice; fn bitor(self, rhs: Choice) -> Choice { Choice(if self.0 == 1 || rhs.0 == 1 { 1u8 } else { 0u8 }) } }
impl ConditionallySelectable for u8 {
    open spec fn cs_wf(&self) -> bool { true }
    #[verifier::external_body]
    fn conditional_select(a: &Self, b: &Self, choice: Choice) -> Self { unimplemented!() }
}
impl ConstantTimeEq for u8 {
    open spec fn ct_wf(&self) -> bool { true }
    open spec fn ct_eq_spec(&self, other: &Self) -> bool { *self == *other }
    #[verifier::external_body]
    fn ct_eq(&self, other: &Self) -> Choice { unimplemented!() }
}
impl ConditionallySelectable for u32 {
    open spec fn cs_wf(&self) -> bool { true }
    #[verifier::external_body]
    fn conditional_select(a: &Self, b: &Self, choice: Choice) -> Self { unimplemented!() }
}
impl ConstantTimeEq for u32 {
    open spec fn ct_wf(&self) -> bool { true }
    open spec fn ct_eq_spec(&self, other: &Self) -> bool { *self == *other }
    #[verifier::external_body]
    fn ct_eq(&self, other: &Self) -> Choice { unimplemented!() }
}
impl ConditionallySelectable for u64 {
    open spec fn cs_wf(&self) -> bool { true }
    #[verifier::external_body]
    fn conditional_select(a: &Self, b: &Self, choice: Choice) -> Self { unimplemented!() }
}
impl ConstantTimeEq for u64 {
    open spec fn ct_wf(&self) -> bool { true }
    open spec fn ct_eq_spec(&self, other: &Self) -> bool { *self == *other }
    #[verifier::external_body]
    fn ct_eq(&self, other: &Self) -> Choice { unimplemented!() }
}

// subtle: ConstantTimeEq for arrays of words = elementwise equality
impl<const N: usize> ConstantTimeEq for [u32; N] {
    open spec fn ct_wf(&self) -> bool { true }
    open spec fn ct_eq_spec(&self, other: &Self) -> bool { self@ =~= other@ }
    #[verifier::external_body]
    fn ct_eq(&self, other: &Self) -> Choice { unimplemented!() }
}
