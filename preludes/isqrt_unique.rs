pub open spec fn fsq_(a: int) -> int { fmul(a, a) }
pub open spec fn fneg_(a: int) -> int { (-a) % fq_p() }
pub open spec fn isqrt_ok1(den: int, ws: bool, y: int) -> bool {
    in_fq(y) && if den == 0 { !ws && y == 0 } else if ws { fmul(fsq_(y), den) == 1 } else { fmul(fsq_(y), den) == fmul(ZETA_(), 1) }
}
// a * c == b * c, c != 0  ==>  a == b
pub proof fn lemma_cancel_r(a: int, b: int, c: int)
    requires in_fq(a), in_fq(b), in_fq(c), c != 0, fmul(a, c) == fmul(b, c)
    ensures a == b
{
    let p = fq_p();
    let d = (a + p - b) % p;
    vstd::arithmetic::div_mod::lemma_mod_bound(a + p - b, p);
    // d * c ≡ (a - b) c ≡ 0
    vstd::arithmetic::div_mod::lemma_mod_twice(a + p - b, p);
    lemma_cong_mul(d, a + p - b, c, c);
    lemma_cong_fmul(d, c); lemma_cong_fmul(a, c); lemma_cong_fmul(b, c);
    assert((a + p - b) * c == a * c + p * c - b * c) by(nonlinear_arith);
    // (a c - b c) % p == 0 since a c ≡ b c
    vstd::arithmetic::div_mod::lemma_fundamental_div_mod(a * c, p); vstd::arithmetic::div_mod::lemma_fundamental_div_mod(b * c, p);
    let k1 = (a * c) / p; let k2 = (b * c) / p;
    assert(a * c - b * c == p * (k1 - k2)) by(nonlinear_arith) requires a * c == p * k1 + (a * c) % p, b * c == p * k2 + (b * c) % p, (a * c) % p == (b * c) % p;
    assert(a * c + p * c - b * c == p * (k1 - k2 + c)) by(nonlinear_arith) requires a * c - b * c == p * (k1 - k2);
    vstd::arithmetic::div_mod::lemma_mod_multiples_basic(k1 - k2 + c, p);
    assert(p * (k1 - k2 + c) == (k1 - k2 + c) * p) by(nonlinear_arith);
    vstd::arithmetic::div_mod::lemma_small_mod(0, p as nat);
    assert(fmul(d, c) == 0);
    m_prime_no_zero_div_(d, c);
    assert(d == 0);
    // (a + p - b) % p == 0 with a, b in range  ==> a == b
    if a >= b { vstd::arithmetic::div_mod::lemma_mod_multiples_vanish(1, a - b, p); assert(p * 1 + (a - b) == a + p - b); vstd::arithmetic::div_mod::lemma_small_mod((a - b) as nat, p as nat); }
    else { vstd::arithmetic::div_mod::lemma_small_mod((a + p - b) as nat, p as nat); }
}
// y1^2 == y2^2  ==>  y1 == y2 or y1 == -y2
pub proof fn lemma_sq_eq(y1: int, y2: int)
    requires in_fq(y1), in_fq(y2), fsq_(y1) == fsq_(y2)
    ensures y1 == y2 || y1 == fneg_(y2)
{
    let p = fq_p();
    let a = (y1 + p - y2) % p; let b = (y1 + y2) % p;
    vstd::arithmetic::div_mod::lemma_mod_bound(y1 + p - y2, p); vstd::arithmetic::div_mod::lemma_mod_bound(y1 + y2, p);
    vstd::arithmetic::div_mod::lemma_mod_twice(y1 + p - y2, p); vstd::arithmetic::div_mod::lemma_mod_twice(y1 + y2, p);
    lemma_cong_mul(a, y1 + p - y2, b, y1 + y2);
    lemma_cong_fmul(a, b); lemma_cong_fmul(y1, y1); lemma_cong_fmul(y2, y2);
    assert((y1 + p - y2) * (y1 + y2) == y1 * y1 - y2 * y2 + p * (y1 + y2)) by(nonlinear_arith);
    vstd::arithmetic::div_mod::lemma_fundamental_div_mod(y1 * y1, p); vstd::arithmetic::div_mod::lemma_fundamental_div_mod(y2 * y2, p);
    let k1 = (y1 * y1) / p; let k2 = (y2 * y2) / p;
    assert(y1 * y1 - y2 * y2 + p * (y1 + y2) == p * (k1 - k2 + y1 + y2)) by(nonlinear_arith)
        requires y1 * y1 == p * k1 + (y1 * y1) % p, y2 * y2 == p * k2 + (y2 * y2) % p, (y1 * y1) % p == (y2 * y2) % p;
    vstd::arithmetic::div_mod::lemma_mod_multiples_basic(k1 - k2 + y1 + y2, p);
    assert(p * (k1 - k2 + y1 + y2) == (k1 - k2 + y1 + y2) * p) by(nonlinear_arith);
    vstd::arithmetic::div_mod::lemma_small_mod(0, p as nat);
    assert(fmul(a, b) == 0);
    m_prime_no_zero_div_(a, b);
    if a == 0 {
        if y1 >= y2 { vstd::arithmetic::div_mod::lemma_mod_multiples_vanish(1, y1 - y2, p); assert(p * 1 + (y1 - y2) == y1 + p - y2); vstd::arithmetic::div_mod::lemma_small_mod((y1 - y2) as nat, p as nat); }
        else { vstd::arithmetic::div_mod::lemma_small_mod((y1 + p - y2) as nat, p as nat); }
    } else {
        // (y1 + y2) % p == 0  ==>  y1 == (-y2) % p
        if y1 + y2 < p { vstd::arithmetic::div_mod::lemma_small_mod((y1 + y2) as nat, p as nat); assert(y1 == 0 && y2 == 0); vstd::arithmetic::div_mod::lemma_small_mod(0, p as nat); }
        else {
            vstd::arithmetic::div_mod::lemma_mod_multiples_vanish(1, y1 + y2 - p, p); assert(p * 1 + (y1 + y2 - p) == y1 + y2);
            vstd::arithmetic::div_mod::lemma_small_mod((y1 + y2 - p) as nat, p as nat);
            assert(y1 + y2 == p);
            vstd::arithmetic::div_mod::lemma_mod_multiples_vanish(1, -y2, p); assert(p * 1 + (-y2) == y1);
            vstd::arithmetic::div_mod::lemma_small_mod(y1 as nat, p as nat);
        }
    }
}
// zeta is not a square (zeta^((q-1)/2) == -1 by compute; a square would give +1 by Fermat)
pub proof fn lemma_zeta_nonsquare(w: int)
    requires in_fq(w), fmul(w, w) == ZETA_()
    ensures false
{
    let p = fq_p();
    if w == 0 { assert(fmul(0, 0) == 0) by { vstd::arithmetic::div_mod::lemma_small_mod(0, p as nat); } }
    assert(is_sq_(ZETA_()));
    lemma_euler_sq(ZETA_());
    assert(xp(ZETA_(), ((fq_p() - 1) / 2) as nat) == fq_p() - 1) by(compute_only);
}
pub proof fn lemma_isqrt_unique(den: int, f1: bool, y1: int, f2: bool, y2: int)
    requires in_fq(den), den != 0, isqrt_ok1(den, f1, y1), isqrt_ok1(den, f2, y2)
    ensures f1 == f2 && (y1 == y2 || y1 == fneg_(y2))
{
    let p = fq_p();
    lemma_fmul_range(y1, y1); lemma_fmul_range(y2, y2);
    lemma_fmul_one_r(ZETA_());
    if f1 == f2 {
        lemma_cancel_r(fsq_(y1), fsq_(y2), den);
        lemma_sq_eq(y1, y2);
    } else {
        // wlog (a, b) = (square root, non-square root): a^2 den == 1, b^2 den == zeta
        let a = if f1 { y1 } else { y2 }; let b = if f1 { y2 } else { y1 };
        assert(fmul(fsq_(a), den) == 1 && fmul(fsq_(b), den) == ZETA_());
        // zeta * a^2 * den == zeta == b^2 den  ==> zeta a^2 == b^2
        lemma_fmul_assoc_(ZETA_(), fsq_(a), den);
        lemma_fmul_range(ZETA_(), fsq_(a)); lemma_fmul_range(a, a); lemma_fmul_range(b, b);
        lemma_cancel_r(fmul(ZETA_(), fsq_(a)), fsq_(b), den);
        // a != 0
        if a == 0 { assert(fmul(0, 0) == 0) by { vstd::arithmetic::div_mod::lemma_small_mod(0, p as nat); } assert(fmul(0, den) == 0) by { vstd::arithmetic::div_mod::lemma_small_mod(0, p as nat); assert(0 * den == 0); } }
        let ai = mpow(p, a, (p - 2) as nat);
        m_prime_fermat_(a); lemma_xp_range(a, (p - 2) as nat);
        let w = fmul(b, ai);
        lemma_fmul_range(b, ai);
        // w^2 == b^2 ai^2 == zeta a^2 ai^2 == zeta
        lemma_cong_fmul(b, ai); lemma_cong_mul(w, b * ai, w, b * ai); lemma_cong_fmul(w, w);
        lemma_cong_fmul(b, b); lemma_cong_fmul(a, a); lemma_cong_fmul(ZETA_(), fsq_(a)); lemma_cong_fmul(a, ai);
        lemma_cong_mul(ZETA_(), ZETA_(), fsq_(a), a * a);
        assert(cong(b * b, ZETA_() * (a * a)));
        lemma_cong_mul(b * b, ZETA_() * (a * a), ai * ai, ai * ai);
        assert((b * ai) * (b * ai) == (b * b) * (ai * ai)) by(nonlinear_arith);
        assert((ZETA_() * (a * a)) * (ai * ai) == ZETA_() * ((a * ai) * (a * ai))) by(nonlinear_arith);
        lemma_cong_mul(a * ai, 1int, a * ai, 1int);
        lemma_cong_mul(ZETA_(), ZETA_(), (a * ai) * (a * ai), 1int * 1int);
        assert(ZETA_() * (1int * 1int) == ZETA_());
        lemma_fmul_range(w, w);
        lemma_cong_small(fmul(w, w), ZETA_());
        lemma_zeta_nonsquare(w);
    }
}
