// ---- A-ARK-1: stand-in for ark_ff::{BigInt<N>, Fp<MontBackend<_,N>>} as used by src/fields/@f@/u64/wrapper.rs.
// `.0` of the field element is the BigInt of *Montgomery* limbs (value * 2^(64 N) mod p), exactly as in ark_ff.
pub open spec fn @f@_p() -> int { @P@int }
pub open spec fn @f@_rinv() -> int { @RINV@int }     // (2^(64 N))^-1 mod p ; checked by compute in the lemmas below
#[derive(Copy, Clone)]
pub struct BigInt(pub [u64; @N64@]);
impl BigInt {
    pub const fn new(value: [u64; @N64@]) -> (r: BigInt) ensures r.0 == value { BigInt(value) }
    #[verifier::external_body]
    pub const fn one() -> (r: BigInt) ensures r.0@ == seq![1u64, @ZEROS_TAIL@] { let mut a = [0u64; @N64@]; a[0] = 1; BigInt(a) }
}
impl PartialEqSpecImpl<BigInt> for BigInt {
    open spec fn obeys_eq_spec() -> bool { true }
    open spec fn eq_spec(&self, other: &BigInt) -> bool { self.0@ =~= other.0@ }
}
impl PartialEq<BigInt> for BigInt { #[verifier::external_body] fn eq(&self, other: &BigInt) -> bool { self.0 == other.0 } }

#[derive(Copy, Clone)]
pub struct @ARK@(pub BigInt);
pub open spec fn ark_wf(a: @ARK@) -> bool { limbs_val(a.0.0@) < @f@_p() }
pub open spec fn ark_val(a: @ARK@) -> int { mmul(@f@_p(), limbs_val(a.0.0@), @f@_rinv()) }
pub uninterp spec fn ark_of(v: int) -> @ARK@;
// Montgomery form is a bijection between reduced limb vectors and [0,p)
pub broadcast axiom fn ark_of_val(v: int)
    requires 0 <= v < @f@_p()
    ensures ark_wf(#[trigger] ark_of(v)), ark_val(ark_of(v)) == v;
pub broadcast axiom fn ark_val_of(a: @ARK@)
    requires ark_wf(a)
    ensures #[trigger] ark_of(ark_val(a)) == a;
#[derive(Debug)]
pub struct SerializationError;
impl @ARK@ {
    #[verifier::external_body]
    pub const fn new(b: BigInt) -> (r: @ARK@)
        requires limbs_val(b.0@) < @f@_p()
        ensures ark_wf(r), ark_val(r) == limbs_val(b.0@)      // `new` converts INTO Montgomery form
    { @ARK@(b) /* body irrelevant: external_body; only needs to const-evaluate */ }
    pub const fn new_unchecked(b: BigInt) -> (r: @ARK@) ensures r.0 == b { @ARK@(b) }   // does not
    #[verifier::external_body]
    pub fn square(&self) -> (r: @ARK@)
        requires ark_wf(*self) ensures ark_wf(r), ark_val(r) == mmul(@f@_p(), ark_val(*self), ark_val(*self))
    { unimplemented!() }
    #[verifier::external_body]
    pub fn inverse(&self) -> (r: Option<@ARK@>)
        requires ark_wf(*self)
        ensures match r { None => ark_val(*self) == 0, Some(x) => ark_val(*self) != 0 && ark_wf(x) && ark_val(x) == minv(@f@_p(), ark_val(*self)) }
    { unimplemented!() }
    #[verifier::external_body]
    pub fn from_le_bytes_mod_order(bytes: &[u8]) -> (r: @ARK@)
        ensures ark_wf(r), ark_val(r) == bytes_val(bytes@) % @f@_p()
    { unimplemented!() }
    // CanonicalSerialize::serialize_compressed into a `&mut [u8]` writer: canonical little-endian, ceil(B/8) bytes
    #[verifier::external_body]
    pub fn serialize_compressed(&self, writer: &mut [u8]) -> (r: Result<(), SerializationError>)
        requires ark_wf(*self)
        ensures final(writer)@.len() == old(writer)@.len(),
                old(writer)@.len() >= @N8@ ==> r is Ok && bytes_val(final(writer)@.subrange(0, @N8@)) == ark_val(*self)
                    && final(writer)@.subrange(@N8@, old(writer)@.len() as int) == old(writer)@.subrange(@N8@, old(writer)@.len() as int),
    { unimplemented!() }
}
impl AddSpecImpl<@ARK@> for @ARK@ {
    open spec fn obeys_add_spec() -> bool { true }
    open spec fn add_req(self, rhs: @ARK@) -> bool { ark_wf(self) && ark_wf(rhs) }
    open spec fn add_spec(self, rhs: @ARK@) -> @ARK@ { ark_of(madd(@f@_p(), ark_val(self), ark_val(rhs))) }
}
impl Add<@ARK@> for @ARK@ { type Output = @ARK@; #[verifier::external_body] fn add(self, o: @ARK@) -> @ARK@ { unimplemented!() } }
impl SubSpecImpl<@ARK@> for @ARK@ {
    open spec fn obeys_sub_spec() -> bool { true }
    open spec fn sub_req(self, rhs: @ARK@) -> bool { ark_wf(self) && ark_wf(rhs) }
    open spec fn sub_spec(self, rhs: @ARK@) -> @ARK@ { ark_of(msub(@f@_p(), ark_val(self), ark_val(rhs))) }
}
impl Sub<@ARK@> for @ARK@ { type Output = @ARK@; #[verifier::external_body] fn sub(self, o: @ARK@) -> @ARK@ { unimplemented!() } }
impl MulSpecImpl<@ARK@> for @ARK@ {
    open spec fn obeys_mul_spec() -> bool { true }
    open spec fn mul_req(self, rhs: @ARK@) -> bool { ark_wf(self) && ark_wf(rhs) }
    open spec fn mul_spec(self, rhs: @ARK@) -> @ARK@ { ark_of(mmul(@f@_p(), ark_val(self), ark_val(rhs))) }
}
impl Mul<@ARK@> for @ARK@ { type Output = @ARK@; #[verifier::external_body] fn mul(self, o: @ARK@) -> @ARK@ { unimplemented!() } }
impl NegSpecImpl for @ARK@ {
    open spec fn obeys_neg_spec() -> bool { true }
    open spec fn neg_req(self) -> bool { ark_wf(self) }
    open spec fn neg_spec(self) -> @ARK@ { ark_of(mneg(@f@_p(), ark_val(self))) }
}
impl Neg for @ARK@ { type Output = @ARK@; #[verifier::external_body] fn neg(self) -> @ARK@ { unimplemented!() } }
// derive(PartialEq) of ark_ff::Fp compares the Montgomery BigInt
impl PartialEqSpecImpl<@ARK@> for @ARK@ {
    open spec fn obeys_eq_spec() -> bool { true }
    open spec fn eq_spec(&self, other: &@ARK@) -> bool { self.0.0@ =~= other.0.0@ }
}
impl PartialEq<@ARK@> for @ARK@ { #[verifier::external_body] fn eq(&self, other: &@ARK@) -> bool { unimplemented!() } }
pub broadcast group ark_axioms { ark_of_val, ark_val_of }
