// ---- A-STD: contract-carrying stand-ins for std items Verus has no specification for (R6/R7).
pub uninterp spec fn iter_seq<I: Iterator>(it: I) -> Seq<I::Item>;

pub open spec fn fold_trace<B, T, F: FnMut(B, T) -> B>(s: Seq<T>, f: F, r: B, accs: Seq<B>) -> bool {
    accs.len() == s.len() + 1 && accs[s.len() as int] == r
    && forall|i: int| 0 <= i < s.len() ==> call_ensures(f, (#[trigger] accs[i], s[i]), accs[i + 1])
}

// Iterator::fold: the result is the last element of an accumulator trace through `f` (R6)
#[verifier::external_body]
pub fn std_fold<I: Iterator, B, F: FnMut(B, I::Item) -> B>(it: I, init: B, f: F) -> (r: B)
    requires forall|a: B, x: I::Item| call_requires(f, (a, x))
    ensures exists|accs: Seq<B>| fold_trace(iter_seq(it), f, r, accs) && accs[0] == init
{ it.fold(init, f) }

// core::iter::{Sum, Product} (R7: same method names, receivers and types)
pub trait Sum<A = Self>: Sized { fn sum<I: Iterator<Item = A>>(iter: I) -> Self; }
pub trait Product<A = Self>: Sized { fn product<I: Iterator<Item = A>>(iter: I) -> Self; }

// core::hash::{Hash, Hasher}: a hasher is abstracted by the byte string written into it so far
pub trait Hasher {
    spec fn written(&self) -> Seq<u8>;
    fn write(&mut self, bytes: &[u8])
        ensures final(self).written() == old(self).written() + bytes@;
}
pub trait Hash { fn hash<H: Hasher>(&self, state: &mut H); }

pub assume_specification[ <u128 as From<bool>>::from ](b: bool) -> (r: u128)
    ensures r == (if b { 1u128 } else { 0u128 });

// exec `==` on arrays has no Verus specification; `a == *b` on byte arrays is renamed to this stand-in (R6)
pub trait ArrEq { spec fn aview(&self) -> Seq<u8>; fn arr_eq(&self, other: &Self) -> (r: bool) ensures r == (self.aview() == other.aview()); }
impl<const N: usize> ArrEq for [u8; N] {
    open spec fn aview(&self) -> Seq<u8> { self@ }
    #[verifier::external_body]
    fn arr_eq(&self, other: &Self) -> (r: bool) { self == other }
}

// Option / Result adapters (A-STD)
pub assume_specification<T, P: FnOnce(&T) -> bool>[ Option::<T>::filter ](o: Option<T>, p: P) -> (r: Option<T>)
    ensures match o { None => r is None,
                      Some(v) => (r is None || r == Some(v)) && (r is Some ==> call_ensures(p, (&v,), true)) && (r is None ==> call_ensures(p, (&v,), false)) };

// core::convert::AsRef (R7: same name, receiver and types; the result is a specification-level function of the argument)
pub trait AsRef<T: ?Sized> {
    spec fn as_ref_spec(&self) -> &T;
    fn as_ref(&self) -> (r: &T) ensures r == self.as_ref_spec();
}
