// ---- A-ARK-2: stand-in for ark_ec::twisted_edwards::{Projective, Affine}<Decaf377EdwardsConfig> (ark-ec 0.4.2),
// field names and method names as in the dependency; contracts state what its code computes (group.rs / affine.rs).
#[derive(Copy, Clone)]
pub struct EdwardsProjective { pub x: Fq, pub y: Fq, pub t: Fq, pub z: Fq }
#[derive(Copy, Clone)]
pub struct EdwardsAffine { pub x: Fq, pub y: Fq }
// `Projective<Decaf377EdwardsConfig>` is rewritten to EdwardsProjective (its alias in /repo) by rule R7
pub open spec fn repr(p: EdwardsProjective) -> P4 { P4 { x: p.x.val(), y: p.y.val(), z: p.z.val(), t: p.t.val() } }
pub open spec fn of_p4(p: P4) -> EdwardsProjective {
    EdwardsProjective { x: fq_of(p.x), y: fq_of(p.y), t: fq_of(p.t), z: fq_of(p.z) }
}
pub open spec fn arepr(p: EdwardsAffine) -> P4 { P4 { x: p.x.val(), y: p.y.val(), z: 1, t: fmul(p.x.val(), p.y.val()) } }
pub open spec fn of_aff(p: P4) -> EdwardsAffine { EdwardsAffine { x: fq_of(p.x), y: fq_of(p.y) } }
// Projective::is_zero (group.rs:148)
pub open spec fn ark_is_zero(p: P4) -> bool { p.x == 0 && p.y == p.z && p.y != 0 && p.t == 0 }
// From<Projective> for Affine (affine.rs:287): identity -> (0,1); Z == 1 -> (X,Y); else (X/Z, Y/Z)
pub open spec fn to_affine(p: P4) -> P4 {
    if ark_is_zero(p) { P4 { x: 0, y: 1, z: 1, t: 0 } }
    else if p.z == 1 { P4 { x: p.x, y: p.y, z: 1, t: fmul(p.x, p.y) } }
    else { let zi = finv(p.z); P4 { x: fmul(p.x, zi), y: fmul(p.y, zi), z: 1, t: fmul(fmul(p.x, zi), fmul(p.y, zi)) } }
}
// what arkworks' scalar multiplication returns, as a curve point: projectively the k-fold sum
pub uninterp spec fn ark_mul(k: int, p: P4) -> P4;
pub broadcast axiom fn ark_mul_is_smul(k: int, p: P4)
    requires k >= 0
    ensures proj_eq(#[trigger] ark_mul(k, p), smul(k as nat, p)), p4_wf(ark_mul(k, p));

impl EdwardsProjective {
    pub const fn new_unchecked(x: Fq, y: Fq, t: Fq, z: Fq) -> (r: EdwardsProjective)
        ensures r.x == x, r.y == y, r.t == t, r.z == z
    { EdwardsProjective { x, y, t, z } }
    // Projective::new (group.rs:120): normalises through Affine, asserts on-curve (panics otherwise)
    #[verifier::external_body]
    pub fn new(x: Fq, y: Fq, t: Fq, z: Fq) -> (r: EdwardsProjective)
        requires on_curve(P4 { x: x.val(), y: y.val(), z: z.val(), t: t.val() })
        ensures repr(r) == to_affine(P4 { x: x.val(), y: y.val(), z: z.val(), t: t.val() })
    { unimplemented!() }
    #[verifier::external_body]
    pub fn zero() -> (r: EdwardsProjective) ensures repr(r) == id4() { unimplemented!() }
    #[verifier::external_body]
    pub fn is_zero(&self) -> (r: bool) ensures r == ark_is_zero(repr(*self)) { unimplemented!() }
    #[verifier::external_body]
    pub fn into_affine(self) -> (r: EdwardsAffine) ensures r == of_aff(to_affine(repr(self))) { unimplemented!() }
    #[verifier::external_body]
    pub fn double(&self) -> (r: EdwardsProjective) ensures repr(r) == te_double(repr(*self)) { unimplemented!() }
    // CurveGroup::normalize_batch / ScalarMul::batch_convert_to_mul_base of ark-ec's twisted Edwards Projective: batch
    // inversion of the Z coordinates, element-wise equal to into_affine
    #[verifier::external_body]
    pub fn normalize_batch(v: &[EdwardsProjective]) -> (r: Vec<EdwardsAffine>)
        ensures r@.len() == v@.len(), forall|k: int| 0 <= k < v@.len() ==> #[trigger] r@[k] == of_aff(to_affine(repr(v@[k])))
    { unimplemented!() }
    #[verifier::external_body]
    pub fn batch_convert_to_mul_base(v: &[EdwardsProjective]) -> (r: Vec<EdwardsAffine>)
        ensures r@.len() == v@.len(), forall|k: int| 0 <= k < v@.len() ==> #[trigger] r@[k] == of_aff(to_affine(repr(v@[k])))
    { unimplemented!() }
    #[verifier::external_body]
    pub fn mul_bigint_slice(&self, other: &[u64]) -> (r: EdwardsProjective)
        ensures repr(r) == ark_mul(limbs_val(other@), repr(*self))
    { unimplemented!() }
}
impl EdwardsAffine {
    pub const fn new_unchecked(x: Fq, y: Fq) -> (r: EdwardsAffine) ensures r.x == x, r.y == y { EdwardsAffine { x, y } }
    #[verifier::external_body]
    pub fn zero() -> (r: EdwardsAffine) ensures arepr(r) == id4() { unimplemented!() }
    // Affine::is_zero (affine.rs:87): exactly (0, 1)
    #[verifier::external_body]
    pub fn is_zero(&self) -> (r: bool) ensures r == (self.x.val() == 0 && self.y.val() == 1) { unimplemented!() }
    #[verifier::external_body]
    pub fn into_group(self) -> (r: EdwardsProjective) ensures r == of_p4(arepr(self)) { unimplemented!() }
    #[verifier::external_body]
    pub fn mul_bigint_slice(&self, other: &[u64]) -> (r: EdwardsProjective)
        ensures repr(r) == ark_mul(limbs_val(other@), arepr(*self))
    { unimplemented!() }
}
impl AddSpecImpl<EdwardsProjective> for EdwardsProjective {
    open spec fn obeys_add_spec() -> bool { true }
    open spec fn add_req(self, rhs: EdwardsProjective) -> bool { true }
    open spec fn add_spec(self, rhs: EdwardsProjective) -> EdwardsProjective { of_p4(te_add(repr(self), repr(rhs))) }
}
impl Add<EdwardsProjective> for EdwardsProjective { type Output = EdwardsProjective; #[verifier::external_body] fn add(self, o: EdwardsProjective) -> EdwardsProjective { unimplemented!() } }
impl SubSpecImpl<EdwardsProjective> for EdwardsProjective {
    open spec fn obeys_sub_spec() -> bool { true }
    open spec fn sub_req(self, rhs: EdwardsProjective) -> bool { true }
    open spec fn sub_spec(self, rhs: EdwardsProjective) -> EdwardsProjective { of_p4(te_sub(repr(self), repr(rhs))) }
}
impl Sub<EdwardsProjective> for EdwardsProjective { type Output = EdwardsProjective; #[verifier::external_body] fn sub(self, o: EdwardsProjective) -> EdwardsProjective { unimplemented!() } }
impl NegSpecImpl for EdwardsProjective {
    open spec fn obeys_neg_spec() -> bool { true }
    open spec fn neg_req(self) -> bool { true }
    open spec fn neg_spec(self) -> EdwardsProjective { of_p4(te_neg(repr(self))) }
}
impl Neg for EdwardsProjective { type Output = EdwardsProjective; #[verifier::external_body] fn neg(self) -> EdwardsProjective { unimplemented!() } }
// Affine + Affine -> Projective (affine.rs: into_group then +=), Affine - Affine, -Affine
impl AddSpecImpl<EdwardsAffine> for EdwardsAffine {
    open spec fn obeys_add_spec() -> bool { true }
    open spec fn add_req(self, rhs: EdwardsAffine) -> bool { true }
    open spec fn add_spec(self, rhs: EdwardsAffine) -> EdwardsProjective { of_p4(te_add(arepr(self), arepr(rhs))) }
}
impl Add<EdwardsAffine> for EdwardsAffine { type Output = EdwardsProjective; #[verifier::external_body] fn add(self, o: EdwardsAffine) -> EdwardsProjective { unimplemented!() } }
impl SubSpecImpl<EdwardsAffine> for EdwardsAffine {
    open spec fn obeys_sub_spec() -> bool { true }
    open spec fn sub_req(self, rhs: EdwardsAffine) -> bool { true }
    open spec fn sub_spec(self, rhs: EdwardsAffine) -> EdwardsProjective { of_p4(te_sub(arepr(self), arepr(rhs))) }
}
impl Sub<EdwardsAffine> for EdwardsAffine { type Output = EdwardsProjective; #[verifier::external_body] fn sub(self, o: EdwardsAffine) -> EdwardsProjective { unimplemented!() } }
impl NegSpecImpl for EdwardsAffine {
    open spec fn obeys_neg_spec() -> bool { true }
    open spec fn neg_req(self) -> bool { true }
    open spec fn neg_spec(self) -> EdwardsAffine { of_aff(te_neg(arepr(self))) }
}
impl Neg for EdwardsAffine { type Output = EdwardsAffine; #[verifier::external_body] fn neg(self) -> EdwardsAffine { unimplemented!() } }
// scalar multiplication:  p *= k   (group.rs:367, via mul_bigint(k.into_bigint()))
impl MulAssignSpecImpl<Fr> for EdwardsProjective {
    open spec fn obeys_mul_assign_spec() -> bool { true }
    open spec fn mul_assign_req(&self, rhs: Fr) -> bool { true }
    open spec fn mul_assign_spec(&self, rhs: Fr) -> &EdwardsProjective { &of_p4(ark_mul(rhs.val(), repr(*self))) }
}
impl MulAssign<Fr> for EdwardsProjective { #[verifier::external_body] fn mul_assign(&mut self, o: Fr) { unimplemented!() } }
// conversions
impl FromSpecImpl<EdwardsProjective> for EdwardsAffine {
    open spec fn obeys_from_spec() -> bool { true }
    open spec fn from_spec(p: EdwardsProjective) -> EdwardsAffine { of_aff(to_affine(repr(p))) }
}
impl From<EdwardsProjective> for EdwardsAffine { #[verifier::external_body] fn from(p: EdwardsProjective) -> EdwardsAffine { unimplemented!() } }
impl FromSpecImpl<EdwardsAffine> for EdwardsProjective {
    open spec fn obeys_from_spec() -> bool { true }
    open spec fn from_spec(p: EdwardsAffine) -> EdwardsProjective { of_p4(arepr(p)) }
}
impl From<EdwardsAffine> for EdwardsProjective { #[verifier::external_body] fn from(p: EdwardsAffine) -> EdwardsProjective { unimplemented!() } }

// TECurveConfig constants of src/ark_curve/edwards.rs (values proved under C17 by compute)
pub trait TECurveConfig { const COEFF_A: Fq; const COEFF_D: Fq; }
pub struct Decaf377EdwardsConfig;
impl TECurveConfig for Decaf377EdwardsConfig {
    #[verifier::external_body]
    const COEFF_A: Fq = Fq::dummy_();
    #[verifier::external_body]
    const COEFF_D: Fq = Fq::dummy_();
}
// proved by compute from the literals of src/ark_curve/edwards.rs in unit `consts` (C17)
pub broadcast axiom fn ad_consts()
    ensures #[trigger] <Decaf377EdwardsConfig as TECurveConfig>::COEFF_A.val() == A_(),
            #[trigger] <Decaf377EdwardsConfig as TECurveConfig>::COEFF_D.val() == D_();

// ---- validity (C06): on the curve and in the even subgroup 2E (the points that represent decaf377 elements)
pub uninterp spec fn is_even(p: P4) -> bool;
pub open spec fn valid(p: P4) -> bool { p4_wf(p) && on_curve(p) && is_even(p) }
// M-GROUP facts about 2E (statements about the spec functions only)
pub broadcast axiom fn m_group_valid_id() ensures #[trigger] valid(id4());
pub broadcast axiom fn m_group_valid_add(p: P4, q: P4) requires valid(p), valid(q) ensures valid(#[trigger] te_add(p, q));
pub broadcast axiom fn m_group_valid_neg(p: P4) requires valid(p) ensures valid(#[trigger] te_neg(p));
pub broadcast axiom fn m_group_valid_affine(p: P4) requires valid(p) ensures valid(#[trigger] to_affine(p));
pub broadcast axiom fn m_group_double_any(p: P4) requires p4_wf(p), on_curve(p) ensures valid(#[trigger] te_add(p, p));
pub broadcast axiom fn m_group_valid_mul(k: int, p: P4) requires valid(p), k >= 0 ensures valid(#[trigger] ark_mul(k, p));
pub broadcast axiom fn m_decaf_decode_valid(s: int)
    requires in_fq(s)
    ensures match #[trigger] spec_decode(s) { Some(p) => valid(p), None => true };
pub broadcast group validity_axioms { m_group_valid_id, m_group_valid_add, m_group_valid_neg, m_group_valid_affine,
    m_group_double_any, m_group_valid_mul, m_decaf_decode_valid }

// generic helpers used by ark traits
pub uninterp spec fn asref_seq<S>(s: S) -> Seq<u64>;
impl EdwardsProjective {
    #[verifier::external_body]
    pub fn mul_bigint<S: AsRef<[u64]>>(&self, other: S) -> (r: EdwardsProjective)
        ensures repr(r) == ark_mul(limbs_val(asref_seq(other)), repr(*self))
    { unimplemented!() }
}
impl EdwardsAffine {
    #[verifier::external_body]
    pub fn mul_bigint<S: AsRef<[u64]>>(&self, other: S) -> (r: EdwardsProjective)
        ensures repr(r) == ark_mul(limbs_val(asref_seq(other)), arepr(*self))
    { unimplemented!() }
    // AffineRepr::from_random_bytes (affine.rs:181): some point of the curve E, *not* necessarily in 2E
    #[verifier::external_body]
    pub fn from_random_bytes(bytes: &[u8]) -> (r: Option<EdwardsAffine>)
        ensures match r { Some(p) => on_curve(arepr(p)), None => true }
    { unimplemented!() }
}
// ark_std::{Zero, One}, Group/CurveGroup/AffineRepr method sets are checked as inherent impls (R7b)
