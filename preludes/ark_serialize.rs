// ---- ark_serialize / ark_std::io surface of the flag-carrying stream format (A-ARK-3).
// Stand-ins: the traits Read / Write (a reader is abstracted by the bytes it has left, a writer by the bytes written so
// far; an io::Error becomes SerializationError::IoError, which is what `?` makes of it through From<io::Error>), the trait
// Flags with its documented default method from_u8_remove_flags, EmptyFlags, Compress, Validate.
// Proved here: the canonical little-endian byte string le_bytes, and -- for ANY flag type that obeys the law flags_law
// (its mask occupies the top BIT_SIZE bits of a byte and parsing reads only those) -- the round trip of value and flags.
#[derive(Debug, PartialEq, Eq)]
pub enum SerializationError { NotEnoughSpace, InvalidData, UnexpectedFlags, IoError }
#[derive(Clone, Copy, PartialEq, Eq)]
pub enum Compress { Yes, No }
#[derive(Clone, Copy, PartialEq, Eq)]
pub enum Validate { Yes, No }
pub trait Read {
    spec fn rest(&self) -> Seq<u8>;
    // std::io::Read::read_exact: fills the whole buffer from the front of the stream or fails (UnexpectedEof)
    fn read_exact(&mut self, buf: &mut [u8]) -> (r: Result<(), SerializationError>)
        ensures final(buf)@.len() == old(buf)@.len(),
            r is Ok ==> old(self).rest().len() >= old(buf)@.len() && final(buf)@ == old(self).rest().take(old(buf)@.len() as int)
                && final(self).rest() == old(self).rest().skip(old(buf)@.len() as int),
            r is Err ==> old(self).rest().len() < old(buf)@.len() && r == Err::<(), SerializationError>(SerializationError::IoError);
}
pub trait Write {
    spec fn out(&self) -> Seq<u8>;
    // std::io::Write::write_all: appends the whole buffer or fails (a full slice writer)
    fn write_all(&mut self, buf: &[u8]) -> (r: Result<(), SerializationError>)
        ensures r is Ok ==> final(self).out() == old(self).out() + buf@,
                r is Err ==> r == Err::<(), SerializationError>(SerializationError::IoError);
}
pub trait Flags: Sized + Copy {
    const BIT_SIZE: usize;
    spec fn mask(&self) -> u8;
    spec fn parse(v: u8) -> Option<Self>;
    fn u8_bitmask(&self) -> (r: u8) ensures r == self.mask();
    fn from_u8(v: u8) -> (r: Option<Self>) ensures r == Self::parse(v);
    // ark-serialize 0.4.2 flags.rs (default method): from_u8(*value), and on success `*value &= !flags.u8_bitmask()`
    fn from_u8_remove_flags(value: &mut u8) -> (r: Option<Self>)
        ensures r == Self::parse(*old(value)),
                match r { Some(f) => *final(value) == *old(value) & !f.mask(), None => *final(value) == *old(value) };
}
#[derive(Clone, Copy)]
pub struct EmptyFlags;
impl Flags for EmptyFlags {
    const BIT_SIZE: usize = 0;
    open spec fn mask(&self) -> u8 { 0 }
    open spec fn parse(v: u8) -> Option<Self> { Some(EmptyFlags) }
    #[verifier::external_body]
    fn u8_bitmask(&self) -> (r: u8) { 0 }
    #[verifier::external_body]
    fn from_u8(v: u8) -> (r: Option<Self>) { Some(EmptyFlags) }
    #[verifier::external_body]
    fn from_u8_remove_flags(value: &mut u8) -> (r: Option<Self>) { Some(EmptyFlags) }
}
// the two flag types ark-ec uses, as specified in ark-serialize 0.4.2 flags.rs (only their specification is used: they show
// that flags_law has the standard instances)
#[derive(Clone, Copy, PartialEq, Eq)]
pub enum TEFlags { XIsPositive, XIsNegative }
#[derive(Clone, Copy, PartialEq, Eq)]
pub enum SWFlags { YIsPositive, PointAtInfinity, YIsNegative }
pub open spec fn te_mask(f: TEFlags) -> u8 { match f { TEFlags::XIsPositive => 0u8, TEFlags::XIsNegative => 0x80u8 } }
pub open spec fn te_parse(v: u8) -> Option<TEFlags> { if (v >> 7u8) & 1u8 == 1u8 { Some(TEFlags::XIsNegative) } else { Some(TEFlags::XIsPositive) } }
pub open spec fn sw_mask(f: SWFlags) -> u8 { match f { SWFlags::YIsPositive => 0u8, SWFlags::PointAtInfinity => 0x40u8, SWFlags::YIsNegative => 0x80u8 } }
pub open spec fn sw_parse(v: u8) -> Option<SWFlags> {
    let neg = (v >> 7u8) & 1u8 == 1u8; let inf = (v >> 6u8) & 1u8 == 1u8;
    if neg && inf { None } else if neg { Some(SWFlags::YIsNegative) } else if inf { Some(SWFlags::PointAtInfinity) } else { Some(SWFlags::YIsPositive) }
}
pub proof fn lemma_te_sw_obey_the_law()
    ensures forall|f: TEFlags, b: u8| b < 128 ==> #[trigger] te_parse(b | te_mask(f)) == Some(f) && (b | te_mask(f)) & !te_mask(f) == b,
            forall|f: SWFlags, b: u8| b < 64 ==> #[trigger] sw_parse(b | sw_mask(f)) == Some(f) && (b | sw_mask(f)) & !sw_mask(f) == b,
{
    assert forall|f: TEFlags, b: u8| b < 128 implies #[trigger] te_parse(b | te_mask(f)) == Some(f) && (b | te_mask(f)) & !te_mask(f) == b by {
        assert(((b | 0u8) >> 7u8) & 1u8 == 0u8 && (b | 0u8) & !0u8 == b) by(bit_vector) requires b < 128;
        assert(((b | 0x80u8) >> 7u8) & 1u8 == 1u8 && (b | 0x80u8) & !0x80u8 == b) by(bit_vector) requires b < 128;
    }
    assert forall|f: SWFlags, b: u8| b < 64 implies #[trigger] sw_parse(b | sw_mask(f)) == Some(f) && (b | sw_mask(f)) & !sw_mask(f) == b by {
        assert(((b | 0u8) >> 7u8) & 1u8 == 0u8 && ((b | 0u8) >> 6u8) & 1u8 == 0u8 && (b | 0u8) & !0u8 == b) by(bit_vector) requires b < 64;
        assert(((b | 0x40u8) >> 7u8) & 1u8 == 0u8 && ((b | 0x40u8) >> 6u8) & 1u8 == 1u8 && (b | 0x40u8) & !0x40u8 == b) by(bit_vector) requires b < 64;
        assert(((b | 0x80u8) >> 7u8) & 1u8 == 1u8 && ((b | 0x80u8) >> 6u8) & 1u8 == 0u8 && (b | 0x80u8) & !0x80u8 == b) by(bit_vector) requires b < 64;
    }
}

pub broadcast proof fn lemma_concat_assoc(a: Seq<u8>, b: Seq<u8>, c: Seq<u8>)
    ensures #[trigger] ((a + b) + c) == a + (b + c)
{ assert((a + b) + c =~= a + (b + c)); }
pub broadcast proof fn lemma_concat_single(a: Seq<u8>, b: Seq<u8>)
    requires b.len() == 1
    ensures #[trigger] (a + b) == a.push(b[0])
{ assert(a + b =~= a.push(b[0])); }
pub broadcast proof fn lemma_concat_push(a: Seq<u8>, b: Seq<u8>, x: u8)
    ensures #[trigger] (a + b).push(x) == a + b.push(x)
{ assert((a + b).push(x) =~= a + b.push(x)); }
pub broadcast group concat_lemmas { lemma_concat_assoc, lemma_concat_single, lemma_concat_push }
// ---- the stream format, as a specification
pub open spec fn pw2(n: nat) -> int decreases n { if n == 0 { 1 } else { 2 * pw2((n - 1) as nat) } }
pub open spec fn ser_size<F: Flags>(mb: int) -> int { (mb + F::BIT_SIZE as int + 7) / 8 }
// canonical little-endian string of v on n bytes
pub open spec fn le_bytes(v: int, n: nat) -> Seq<u8> decreases n {
    if n == 0 { Seq::<u8>::empty() } else { seq![(v % 256) as u8] + le_bytes(v / 256, (n - 1) as nat) }
}
pub proof fn lemma_le_bytes_val(v: int, n: nat)
    requires 0 <= v < pw256(n)
    ensures le_bytes(v, n).len() == n, bytes_val(le_bytes(v, n)) == v
    decreases n
{
    if n > 0 {
        assert(0 <= v / 256 < pw256((n - 1) as nat)) by(nonlinear_arith) requires 0 <= v < 256 * pw256((n - 1) as nat);
        lemma_le_bytes_val(v / 256, (n - 1) as nat);
        let s = le_bytes(v, n);
        assert(s.drop_first() =~= le_bytes(v / 256, (n - 1) as nat));
        assert(s[0] == (v % 256) as u8);
        assert(v == v % 256 + 256 * (v / 256)) by(nonlinear_arith);
    }
}
pub proof fn lemma_bytes_lt_pw256(s: Seq<u8>)
    ensures 0 <= bytes_val(s) < pw256(s.len())
    decreases s.len()
{
    if s.len() > 0 {
        lemma_bytes_lt_pw256(s.drop_first());
        let n = (s.len() - 1) as nat;
        assert(s[0] as int + 256 * bytes_val(s.drop_first()) < 256 * pw256(n)) by(nonlinear_arith)
            requires 0 <= s[0] < 256, 0 <= bytes_val(s.drop_first()) < pw256(n);
    }
}
// every byte string IS the canonical string of its value
pub proof fn lemma_le_bytes(s: Seq<u8>)
    ensures le_bytes(bytes_val(s), s.len()) == s
{
    lemma_bytes_lt_pw256(s);
    lemma_le_bytes_val(bytes_val(s), s.len());
    lemma_bytes_inj_rec(le_bytes(bytes_val(s), s.len()), s);
}
// the flag law of ark_serialize::Flags: the mask lives in the top BIT_SIZE bits of a byte and parsing reads only those
pub open spec fn flags_law<F: Flags>() -> bool {
    forall|f: F, b: u8| (b as int) < pw2((8 - F::BIT_SIZE) as nat)
        ==> #[trigger] F::parse(b | f.mask()) == Some(f) && (b | f.mask()) & !f.mask() == b
}
pub open spec fn ser_bytes<F: Flags>(v: int, f: F, mb: int, n8: int) -> Seq<u8> {
    let tb = le_bytes(v, n8 as nat);
    if n8 == ser_size::<F>(mb) { tb.update(n8 - 1, tb[n8 - 1] | f.mask()) } else { tb.push(f.mask()) }
}
pub enum DeserOut<F> { Io, Flags, Data, Val(int, F) }
pub open spec fn deser_spec<F: Flags>(s0: Seq<u8>, mb: int, n8: int, p: int) -> DeserOut<F> {
    let size = ser_size::<F>(mb);
    if s0.len() < size { DeserOut::Io } else {
        let s = s0.take(size);
        match F::parse(s[size - 1]) {
            None => DeserOut::Flags,
            Some(f) => {
                let v = bytes_val(s.update(size - 1, s[size - 1] & !f.mask()).take(n8));
                if v >= p { DeserOut::Data } else { DeserOut::Val(v, f) }
            }
        }
    }
}
pub open spec fn ser_post<F: Flags>(r: Result<(), SerializationError>, w0: Seq<u8>, w1: Seq<u8>, v: int, f: F, mb: int, n8: int) -> bool {
    if F::BIT_SIZE > 8 { r == Err::<(), SerializationError>(SerializationError::NotEnoughSpace) && w1 == w0 } else {
        match r { Ok(_) => w1 == w0 + ser_bytes::<F>(v, f, mb, n8), Err(e) => e == SerializationError::IoError }
    }
}
pub open spec fn deser_post<F: Flags>(r: Result<(@F@, F), SerializationError>, s0: Seq<u8>, s1: Seq<u8>, mb: int, n8: int, p: int) -> bool {
    if F::BIT_SIZE > 8 { r == Err::<(@F@, F), SerializationError>(SerializationError::NotEnoughSpace) && s1 == s0 } else {
        match deser_spec::<F>(s0, mb, n8, p) {
            DeserOut::Io => r == Err::<(@F@, F), SerializationError>(SerializationError::IoError),
            DeserOut::Flags => r == Err::<(@F@, F), SerializationError>(SerializationError::UnexpectedFlags) && s1 == s0.skip(ser_size::<F>(mb)),
            DeserOut::Data => r == Err::<(@F@, F), SerializationError>(SerializationError::InvalidData) && s1 == s0.skip(ser_size::<F>(mb)),
            DeserOut::Val(v, f) => r is Ok && r.unwrap().0.val() == v && r.unwrap().1 == f && s1 == s0.skip(ser_size::<F>(mb)),
        }
    }
}
pub proof fn lemma_pw2_8(k: nat)
    requires k <= 8
    ensures pw2(k) == (if k == 0 { 1int } else if k == 1 { 2 } else if k == 2 { 4 } else if k == 3 { 8 } else if k == 4 { 16 }
                       else if k == 5 { 32 } else if k == 6 { 64 } else if k == 7 { 128 } else { 256 })
{ reveal_with_fuel(pw2, 10); }
// the top byte of a canonical string of a value below p has only its low MB - 8 (N8 - 1) bits set
pub proof fn lemma_top_byte(s: Seq<u8>)
    requires s.len() == @N8@, bytes_val(s) < @f@_p()
    ensures (s[@N8@ - 1] as int) < @TOP@
{
    lemma_bytes_split(s, @N8@ - 1);
    assert(pw256((@N8@ - 1) as nat) == @PWTOP@int) by(compute_only);
    let hi = s.subrange(@N8@ - 1, @N8@);
    assert(hi.drop_first().len() == 0);
    assert(bytes_val(hi) == s[@N8@ - 1] as int + 256 * bytes_val(hi.drop_first()));
    assert(bytes_val(hi.drop_first()) == 0);
    lemma_bytes_val_bound(s.subrange(0, @N8@ - 1));
    assert((s[@N8@ - 1] as int) < @TOP@) by(nonlinear_arith)
        requires bytes_val(s) == bytes_val(s.subrange(0, @N8@ - 1)) + pw256((@N8@ - 1) as nat) * (s[@N8@ - 1] as int),
                 bytes_val(s.subrange(0, @N8@ - 1)) >= 0, pw256((@N8@ - 1) as nat) == @PWTOP@int, bytes_val(s) < @P@int;
}
// C11 "serialisation with flag bits round-trips value and flags": a lemma over the contracts of serialize_with_flags
// (writes ser_bytes) and deserialize_with_flags (returns deser_spec of what it reads), for every flag type obeying the law
pub proof fn lemma_flags_roundtrip<F: Flags>(v: int, f: F)
    requires flags_law::<F>(), 0 <= v < @f@_p(), F::BIT_SIZE <= 8
    ensures ser_bytes::<F>(v, f, @MB@, @N8@).len() == ser_size::<F>(@MB@),
            forall|rest: Seq<u8>| #[trigger] deser_spec::<F>(ser_bytes::<F>(v, f, @MB@, @N8@) + rest, @MB@, @N8@, @f@_p()) == DeserOut::Val(v, f)
{
    let tb = le_bytes(v, @N8@);
    let s = ser_bytes::<F>(v, f, @MB@, @N8@);
    let size = ser_size::<F>(@MB@);
    assert(pw256(@N8@) == 256 * @PWTOP@int) by(compute_only);
    lemma_le_bytes_val(v, @N8@);
    lemma_top_byte(tb);
    lemma_pw2_8((8 - F::BIT_SIZE) as nat);
    assert forall|rest: Seq<u8>| #[trigger] deser_spec::<F>(s + rest, @MB@, @N8@, @f@_p()) == DeserOut::Val(v, f) by {
        assert((s + rest).take(size) =~= s);
        if size == @N8@ {
            let b = tb[@N8@ - 1];
            assert(F::parse(b | f.mask()) == Some(f) && (b | f.mask()) & !f.mask() == b);
            assert(s.update(@N8@ - 1, s[@N8@ - 1] & !f.mask()).take(@N8@) =~= tb);
        } else {
            let z = 0u8; let m = f.mask();
            assert(F::parse(z | f.mask()) == Some(f));
            assert(z | m == m) by(bit_vector) requires z == 0u8;
            assert(s.update(@N8@, s[@N8@ as int] & !f.mask()).take(@N8@) =~= tb);
        }
    }
}
pub proof fn lemma_empty_flags_obey_the_law() ensures flags_law::<EmptyFlags>()
{
    assert forall|f: EmptyFlags, b: u8| (b as int) < pw2((8 - EmptyFlags::BIT_SIZE) as nat)
        implies #[trigger] EmptyFlags::parse(b | f.mask()) == Some(f) && (b | f.mask()) & !f.mask() == b by {
        assert((b | 0u8) & !0u8 == b) by(bit_vector);
    }
}
// A-STD (rule R30): the loop `for (limb, chunk) in L.iter_mut().zip(S.chunks_exact(C)) { *limb = u64::from_le_bytes(chunk.try_into().expect(..)) }`
// visits min(L.len(), S.len() / C) pairs in order (zip stops at the shorter side, chunks_exact yields the floor(len / C) full
// chunks); the conversion of a chunk to [u8; 8] succeeds iff C == 8 (expect panics otherwise -> precondition)
pub fn zip_len(a: usize, b: usize) -> (r: usize) ensures r == (if a < b { a } else { b }) { if a < b { a } else { b } }
#[verifier::external_body]
pub fn u64_from_le_chunk(src: &[u8], i: usize, c: usize) -> (r: u64)
    requires c == 8, c * (i + 1) <= src@.len()
    ensures r as int == le8_at(src@, c * i)
{ unimplemented!() }
#[verifier::external_body]
pub fn u64_from_be_chunk(src: &[u8], i: usize, c: usize) -> (r: u64)
    requires c == 8, c * (i + 1) <= src@.len()
    ensures r as int == le8_at(src@.subrange(c * i, c * i + 8).reverse(), 0)
{ unimplemented!() }

// ---- decimal strings (FromStr).  A-STD (rule R33): `str::chars` yields the characters in order; `char::to_digit(10)` is
// Some(c - '0') exactly for '0'..='9'
pub open spec fn is_digit(c: char) -> bool { '0' <= c && c <= '9' }
pub open spec fn all_digits(s: Seq<char>) -> bool { forall|i: int| 0 <= i < s.len() ==> is_digit(#[trigger] s[i]) }
pub open spec fn dec_val(s: Seq<char>) -> int decreases s.len() {
    if s.len() == 0 { 0 } else { 10 * dec_val(s.drop_last()) + (s.last() as int - '0' as int) }
}
#[verifier::external_body]
pub fn str_chars(s: &str) -> (r: Vec<char>) ensures r@ == s@ { s.chars().collect() }
pub assume_specification [char::to_digit] (c: char, radix: u32) -> (r: Option<u32>)
    requires radix == 10
    ensures match r { Some(d) => is_digit(c) && d as int == c as int - '0' as int, None => !is_digit(c) };
pub proof fn lemma_dec_step(p: int, s: Seq<char>, i: int, acc0: int, ten_acc: int, d: int, acc1: int)
    requires p > 10, 0 <= i < s.len(), is_digit(s[i]), acc0 == dec_val(s.take(i)) % p, 0 <= acc0,
             ten_acc == (10 * acc0) % p, d == (s[i] as int - '0' as int) % p, acc1 == (ten_acc + d) % p
    ensures acc1 == dec_val(s.take(i + 1)) % p
{
    let t = s.take(i + 1);
    assert(t.drop_last() =~= s.take(i));
    assert(t.last() == s[i]);
    let c = s[i] as int - '0' as int;
    assert(0 <= c <= 9);
    vstd::arithmetic::div_mod::lemma_small_mod(c as nat, p as nat);
    vstd::arithmetic::div_mod::lemma_small_mod(10, p as nat);
    lemma_horner_step(p, acc0, dec_val(s.take(i)), c, 10);
    assert(acc0 * (10int % p) == 10 * acc0) by(nonlinear_arith) requires 10int % p == 10;
    assert(c + 10 * dec_val(s.take(i)) == 10 * dec_val(s.take(i)) + c);
}
