// ---- decaf377 specification layer over integers mod q (q = fq_p()).
// Transcribed from the decaf377 specification (protocol.penumbra.zone: "decaf377" pages Encoding / Decoding /
// Elligator / inverse square roots) and from ristretto.sage `Decaf_1_1_Point` -- NOT from src/.
// a = -1, d = 3021, zeta = 2841681278031794617739547238867782961338435681360110683443920362658525667816.
pub open spec fn fadd(a: int, b: int) -> int { madd(fq_p(), a, b) }
pub open spec fn fsub(a: int, b: int) -> int { msub(fq_p(), a, b) }
pub open spec fn fmul(a: int, b: int) -> int { mmul(fq_p(), a, b) }
pub open spec fn fneg(a: int) -> int { mneg(fq_p(), a) }
pub open spec fn fsq(a: int) -> int { mmul(fq_p(), a, a) }
pub open spec fn finv(a: int) -> int { minv(fq_p(), a) }
pub open spec fn A_() -> int { fq_p() - 1 }
pub open spec fn D_() -> int { 3021 }
pub open spec fn ZETA_() -> int { 2841681278031794617739547238867782961338435681360110683443920362658525667816int }
pub open spec fn in_fq(a: int) -> bool { 0 <= a < fq_p() }

// sign convention (spec "Negative field elements"): negative iff the canonical value is odd
pub open spec fn is_neg(a: int) -> bool { a % 2 == 1 }
pub open spec fn fabs(a: int) -> int { if is_neg(a) { fneg(a) } else { a } }

// sqrt_ratio_zeta(num, den): the four-case contract (spec "Inverse square roots")
pub open spec fn isqrt_ok(num: int, den: int, ws: bool, y: int) -> bool {
    in_fq(y) &&
    if num == 0 { ws && y == 0 }
    else if den == 0 { !ws && y == 0 }
    else if ws { fmul(fsq(y), den) == num }
    else { fmul(fsq(y), den) == fmul(ZETA_(), num) }
}
// the flag is determined by the inputs (zeta is a non-square); the root is determined up to sign.  The spec
// functions below stand for "the value the implementation returns"; contracts never look inside them, and the
// root-independence lemmas (enc/dec/ell_root_indep) show the spec results do not depend on the sign chosen.
pub uninterp spec fn isqrt_flag(num: int, den: int) -> bool;
pub uninterp spec fn isqrt_root(num: int, den: int) -> int;
pub broadcast axiom fn isqrt_spec_ok(num: int, den: int)
    requires in_fq(num), in_fq(den)
    ensures isqrt_ok(num, den, #[trigger] isqrt_flag(num, den), #[trigger] isqrt_root(num, den));

// extended twisted Edwards coordinates
pub struct P4 { pub x: int, pub y: int, pub z: int, pub t: int }
pub open spec fn p4_wf(p: P4) -> bool { in_fq(p.x) && in_fq(p.y) && in_fq(p.z) && in_fq(p.t) }
pub open spec fn on_curve(p: P4) -> bool {
    p.z != 0 && fmul(p.x, p.y) == fmul(p.z, p.t)
    && fadd(fmul(A_(), fsq(p.x)), fsq(p.y)) == fadd(fsq(p.z), fmul(D_(), fsq(p.t)))
}
pub open spec fn id4() -> P4 { P4 { x: 0, y: 1, z: 1, t: 0 } }
// Hisil-Wong-Carter-Dawson 2008, section 3.1 "unified addition in E^e" (add-2008-hwcd, general a)
pub open spec fn te_add(p: P4, q: P4) -> P4 {
    let a = fmul(p.x, q.x);
    let b = fmul(p.y, q.y);
    let c = fmul(fmul(D_(), p.t), q.t);
    let d = fmul(p.z, q.z);
    let h = fsub(b, fmul(A_(), a));
    let e = fsub(fsub(fmul(fadd(p.x, p.y), fadd(q.x, q.y)), a), b);
    let f = fsub(d, c);
    let g = fadd(d, c);
    P4 { x: fmul(e, f), y: fmul(g, h), t: fmul(e, h), z: fmul(f, g) }
}
pub open spec fn te_neg(p: P4) -> P4 { P4 { x: fneg(p.x), y: p.y, z: p.z, t: fneg(p.t) } }
pub open spec fn te_sub(p: P4, q: P4) -> P4 { te_add(p, te_neg(q)) }
// HWCD 2008 section 3.3 "doubling in E^e" (dbl-2008-hwcd)
pub open spec fn te_double(p: P4) -> P4 {
    let a = fsq(p.x);
    let b = fsq(p.y);
    let c = fmul(2, fsq(p.z));
    let d = fmul(A_(), a);
    let e = fsub(fsub(fsq(fadd(p.x, p.y)), a), b);
    let g = fadd(d, b);
    let f = fsub(g, c);
    let h = fsub(d, b);
    P4 { x: fmul(e, f), y: fmul(g, h), t: fmul(e, h), z: fmul(f, g) }
}
// the extended coordinate T is consistent with the other three: X Y == Z T.  A result that only LOOKS right after
// normalisation (which recomputes T) but carries a stale T poisons every later addition and the encoder.
pub open spec fn t_ok(p: P4) -> bool { fmul(p.x, p.y) == fmul(p.z, p.t) }
pub proof fn lemma_prod4(e: int, f: int, g: int, h: int)
    ensures fmul(fmul(e, f), fmul(g, h)) == fmul(fmul(f, g), fmul(e, h))
{
    let p = fq_p();
    vstd::arithmetic::div_mod::lemma_mul_mod_noop_general(e * f, g * h, p);
    vstd::arithmetic::div_mod::lemma_mul_mod_noop_general(f * g, e * h, p);
    assert((e * f) * (g * h) == (f * g) * (e * h)) by(nonlinear_arith);
}
// the unified addition always produces a consistent T: X3 Y3 = (E F)(G H) = (F G)(E H) = Z3 T3
pub broadcast proof fn lemma_t_ok_add(p: P4, q: P4) ensures t_ok(#[trigger] te_add(p, q))
{
    let a = fmul(p.x, q.x);
    let b = fmul(p.y, q.y);
    let c = fmul(fmul(D_(), p.t), q.t);
    let d = fmul(p.z, q.z);
    let h = fsub(b, fmul(A_(), a));
    let e = fsub(fsub(fmul(fadd(p.x, p.y), fadd(q.x, q.y)), a), b);
    let f = fsub(d, c);
    let g = fadd(d, c);
    lemma_prod4(e, f, g, h);
}
pub broadcast proof fn lemma_t_ok_neg(p: P4) requires t_ok(p) ensures t_ok(#[trigger] te_neg(p))
{
    let q = fq_p();
    // (-x) y == -(x y) == -(z t) == z (-t)   (all modulo q)
    vstd::arithmetic::div_mod::lemma_mul_mod_noop_general(-p.x, p.y, q);
    vstd::arithmetic::div_mod::lemma_mul_mod_noop_general(p.z, -p.t, q);
    assert((-p.x) * p.y == -(p.x * p.y)) by(nonlinear_arith);
    assert(p.z * (-p.t) == -(p.z * p.t)) by(nonlinear_arith);
    // x y ≡ z t  ==>  -(x y) ≡ -(z t)
    vstd::arithmetic::div_mod::lemma_fundamental_div_mod(p.x * p.y, q); vstd::arithmetic::div_mod::lemma_fundamental_div_mod(p.z * p.t, q);
    let k1 = (p.x * p.y) / q; let k2 = (p.z * p.t) / q; let r_ = (p.x * p.y) % q;
    assert(-(p.x * p.y) == q * (-k1) + (-r_)) by(nonlinear_arith) requires p.x * p.y == q * k1 + r_;
    assert(-(p.z * p.t) == q * (-k2) + (-r_)) by(nonlinear_arith) requires p.z * p.t == q * k2 + r_;
    vstd::arithmetic::div_mod::lemma_mod_multiples_vanish(-k1, -r_, q);
    vstd::arithmetic::div_mod::lemma_mod_multiples_vanish(-k2, -r_, q);
}
// an affine view (z = 1, t = x y) is consistent by construction
pub broadcast proof fn lemma_t_ok_aff(x: int, y: int)
    ensures #[trigger] t_ok(P4 { x: x, y: y, z: 1, t: fmul(x, y) })
{
    let q = fq_p();
    vstd::arithmetic::div_mod::lemma_mod_bound(x * y, q);
    vstd::arithmetic::div_mod::lemma_small_mod(fmul(x, y) as nat, q as nat);
    assert(1 * fmul(x, y) == fmul(x, y));
}
// projective equality and decaf equality (Decaf paper section 4.5)
pub open spec fn proj_eq(p: P4, q: P4) -> bool {
    fmul(p.x, q.z) == fmul(q.x, p.z) && fmul(p.y, q.z) == fmul(q.y, p.z)
}
pub open spec fn spec_eq(p: P4, q: P4) -> bool { fmul(p.x, q.y) == fmul(p.y, q.x) }
pub open spec fn spec_is_identity(p: P4) -> bool { p.x == 0 }
// k-fold sum
pub open spec fn smul(k: nat, p: P4) -> P4 decreases k {
    if k == 0 { id4() } else { te_add(smul((k - 1) as nat, p), p) }
}

// conventional generator = decode(8) (spec "Costs and alternatives / generator"); affine coordinates
pub open spec fn gen_p4() -> P4 {
    P4 { x: 4959445789346820725352484487855828915252512307947624787834978378872129235627int,
         y: 6060471950081851567114691557659790004756535011754163002297540472747064943288int,
         z: 1,
         t: 7709528722369014828560854854815397945854484030754980890329689855465844419067int }
}
// ---- Encoding (spec "Encoding", steps 1-5)
// the steps with the inverse square root v made explicit (the gadget contracts quantify over the witnessed root)
pub open spec fn enc_den(p: P4) -> int {
    fmul(fmul(fmul(fadd(p.x, p.t), fsub(p.x, p.t)), fsub(A_(), D_())), fsq(p.x))
}
pub open spec fn spec_encode_v(p: P4, v: int) -> int {
    let amd = fsub(A_(), D_());
    let u1 = fmul(fadd(p.x, p.t), fsub(p.x, p.t));
    let u2 = fabs(fmul(v, u1));
    let u3 = fsub(fmul(u2, p.z), p.t);
    fabs(fmul(fmul(fmul(amd, v), u3), p.x))
}
pub open spec fn spec_encode(p: P4) -> int { spec_encode_v(p, isqrt_root(1, enc_den(p))) }
// ---- Decoding (spec "Decoding", steps 1-7) of a canonical field element s
pub open spec fn dec_den(s: int) -> int {
    let ss = fsq(s);
    let u1 = fsub(1, ss);
    let u2 = fsub(fsq(u1), fmul(fmul(4, D_()), ss));
    fmul(u2, fsq(u1))
}
// steps 6-7 for a given root v0 of 1/dec_den(s)
pub open spec fn spec_decode_v(s: int, v0: int) -> P4 {
    let ss = fsq(s);
    let u1 = fsub(1, ss);
    let u2 = fsub(fsq(u1), fmul(fmul(4, D_()), ss));
    let tsu1 = fmul(fmul(2, s), u1);
    let v = if is_neg(fmul(tsu1, v0)) { fneg(v0) } else { v0 };
    let x = fmul(fmul(tsu1, fsq(v)), u2);
    let y = fmul(fmul(fadd(1, ss), v), u1);
    P4 { x: x, y: y, z: 1, t: fmul(x, y) }
}
pub open spec fn spec_decode(s: int) -> Option<P4> {
    if is_neg(s) { None } else if !isqrt_flag(1, dec_den(s)) { None } else { Some(spec_decode_v(s, isqrt_root(1, dec_den(s)))) }
}
// byte level: 32 bytes, little endian, top three bits clear, value below q
pub open spec fn decode_bytes_spec(b: Seq<u8>) -> Option<P4> {
    if b.len() != 32 || b[31] as int >= 32 || bytes_val(b) >= fq_p() { None } else { spec_decode(bytes_val(b)) }
}

// ---- Elligator 2 (spec "Group hash" / ristretto.sage Decaf_1_1_Point.elligator, optimised step list)
pub open spec fn ell_x(r0: int) -> int {
    let r = fmul(ZETA_(), fsq(r0));
    let dma = fsub(D_(), A_());
    let den = fmul(fsub(fmul(D_(), r), dma), fsub(fmul(dma, r), D_()));
    let a2d = fsub(A_(), fmul(2, D_()));
    let num = fmul(fadd(r, 1), a2d);
    fmul(num, den)
}
// Jacobi-quartic coordinates (s, t) for a given inverse-square-root answer (iss, isri0)
pub open spec fn ell_st(r0: int, iss: bool, isri0: int) -> (int, int) {
    let r = fmul(ZETA_(), fsq(r0));
    let a2d = fsub(A_(), fmul(2, D_()));
    let num = fmul(fadd(r, 1), a2d);
    let sgn = if iss { 1 } else { fneg(1) };
    let twiddle = if iss { 1 } else { r0 };
    let isri = fmul(isri0, twiddle);
    let s0 = fmul(isri, num);
    let t = fsub(fmul(fmul(fmul(fmul(fneg(sgn), isri), s0), fsub(r, 1)), fsq(a2d)), 1);
    let s = if is_neg(s0) == iss { fneg(s0) } else { s0 };
    (s, t)
}
pub open spec fn ell_v(r0: int, iss: bool, isri0: int) -> P4 {
    let st = ell_st(r0, iss, isri0);
    let s = st.0;
    let t = st.1;
    // Jacobi quartic (s, t) -> extended coordinates
    let e = fmul(2, s);
    let f = fadd(1, fmul(A_(), fsq(s)));
    let g = fsub(1, fmul(A_(), fsq(s)));
    let h = t;
    P4 { x: fmul(e, h), y: fmul(f, g), z: fmul(f, h), t: fmul(e, g) }
}
pub open spec fn ell_opt(r0: int) -> P4 { ell_v(r0, isqrt_flag(1, ell_x(r0)), isqrt_root(1, ell_x(r0))) }
