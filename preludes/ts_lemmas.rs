// ---- constant-time Tonelli-Shanks (min_curve our_sqrt)
pub open spec fn M1_() -> int { fq_p() - 1 }
pub open spec fn is_sq_(a: int) -> bool { exists|y: int| in_fq(y) && #[trigger] fmul(y, y) == a }
pub open spec fn ts_inv(x: int, z: int, t: int, c: int, i: nat) -> bool {
    in_fq(z) && in_fq(t) && in_fq(c) && i >= 1 &&
    fmul(z, z) == fmul(t, x) && xp(t, p2((i - 1) as nat) as nat) == 1 && xp(c, p2((i - 1) as nat) as nat) == M1_()
}
// y^2 == 1  ==>  y == 1 or y == -1
pub proof fn lemma_sqrt_of_one(y: int)
    requires in_fq(y), fmul(y, y) == 1
    ensures y == 1 || y == M1_()
{
    let p = fq_p();
    let a = (y + p - 1) % p;   // y - 1
    let b = (y + 1) % p;       // y + 1
    vstd::arithmetic::div_mod::lemma_mod_bound(y + p - 1, p);
    vstd::arithmetic::div_mod::lemma_mod_bound(y + 1, p);
    // a * b ≡ (y + p - 1)(y + 1) = y^2 + p y + p - 1 ... ≡ y^2 - 1 ≡ 0
    vstd::arithmetic::div_mod::lemma_mod_twice(y + p - 1, p); vstd::arithmetic::div_mod::lemma_mod_twice(y + 1, p);
    lemma_cong_mul(a, y + p - 1, b, y + 1);
    lemma_cong_fmul(a, b);
    assert((y + p - 1) * (y + 1) == y * y + p * (y + 1) - 1) by(nonlinear_arith);
    lemma_cong_fmul(y, y);
    // y*y ≡ 1  so  y*y + p(y+1) - 1 ≡ 0
    vstd::arithmetic::div_mod::lemma_mod_multiples_vanish(y + 1, y * y - 1, p);
    assert(p * (y + 1) + (y * y - 1) == y * y + p * (y + 1) - 1);
    assert(((y * y) - 1) % p == 0) by {
        // (y*y) % p == 1
        vstd::arithmetic::div_mod::lemma_fundamental_div_mod(y * y, p);
        let k = (y * y) / p;
        assert(y * y - 1 == p * k);
        vstd::arithmetic::div_mod::lemma_mod_multiples_basic(k, p);
        assert(p * k == k * p) by(nonlinear_arith);
    }
    vstd::arithmetic::div_mod::lemma_small_mod(0, p as nat);
    assert(fmul(a, b) == 0);
    m_prime_no_zero_div_(a, b);
    if a == 0 {
        // (y + p - 1) % p == 0 with 0 <= y < p  ==> y == 1
        if y == 0 { vstd::arithmetic::div_mod::lemma_small_mod((p - 1) as nat, p as nat); }
        else { assert(y + p - 1 == p + (y - 1)); vstd::arithmetic::div_mod::lemma_mod_multiples_vanish(1, y - 1, p); assert(p * 1 + (y - 1) == y + p - 1); vstd::arithmetic::div_mod::lemma_small_mod((y - 1) as nat, p as nat); }
    } else {
        if y + 1 < p { vstd::arithmetic::div_mod::lemma_small_mod((y + 1) as nat, p as nat); }
    }
}
// Euler, the easy direction: a non-zero square has x^((q-1)/2) == 1
pub proof fn lemma_euler_sq(x: int)
    requires in_fq(x), x != 0, is_sq_(x)
    ensures xp(x, ((fq_p() - 1) / 2) as nat) == 1
{
    let p = fq_p();
    let y = choose|y: int| in_fq(y) && #[trigger] fmul(y, y) == x;
    if y == 0 { assert(fmul(0, 0) == 0) by { vstd::arithmetic::div_mod::lemma_small_mod(0, p as nat); } }
    // x == y^2 == xp(y, 2)
    lemma_mpow_add(p, y, 1, 1);
    assert(xp(y, 1) == y) by { reveal_with_fuel(mpow, 2); lemma_fmul_one_r(y); vstd::arithmetic::div_mod::lemma_small_mod(1, p as nat); }
    lemma_mpow_mul(p, y, 2, ((p - 1) / 2) as nat);
    assert(2 * ((fq_p() - 1) / 2) == fq_p() - 1) by(compute_only);
    lemma_mpow_add(p, y, 1, (p - 2) as nat);
    m_prime_fermat_(y);
}
pub proof fn lemma_minus_one_sq() ensures fmul(M1_(), M1_()) == 1, in_fq(M1_())
{ assert(fmul(fq_p() - 1, fq_p() - 1) == 1) by(compute_only); }
// initial state: z0 = x^((M-1)/2), t = z0^2 x, z = z0 x
pub proof fn lemma_ts_init(x: int, z0: int, t: int, z: int, c: int)
    requires in_fq(x), x != 0, is_sq_(x), z0 == xp(x, ((M_() - 1) / 2) as nat), t == fmul(fmul(z0, z0), x), z == fmul(z0, x), in_fq(c), xp(c, 70368744177664) == M1_()
    ensures ts_inv(x, z, t, c, 47)
{
    let p = fq_p();
    let h = ((M_() - 1) / 2) as nat;
    lemma_xp_range(x, h); lemma_fmul_range(fmul(z0, z0), x); lemma_fmul_range(z0, x);
    // z^2 == t x
    lemma_cong_fmul(z0, x); lemma_cong_mul(z, z0 * x, z, z0 * x); lemma_cong_fmul(z, z);
    lemma_cong_fmul(z0, z0); lemma_cong_mul(fmul(z0, z0), z0 * z0, x, x); lemma_cong_fmul(fmul(z0, z0), x);
    lemma_cong_mul(t, (z0 * z0) * x, x, x); lemma_cong_fmul(t, x);
    assert((z0 * x) * (z0 * x) == ((z0 * z0) * x) * x) by(nonlinear_arith);
    lemma_fmul_range(z, z); lemma_fmul_range(t, x);
    lemma_cong_small(fmul(z, z), fmul(t, x));
    // t == x^M
    lemma_mpow_add(p, x, h, h); lemma_mpow_add(p, x, h + h, 1);
    assert(xp(x, 1) == x) by { reveal_with_fuel(mpow, 2); lemma_fmul_one_r(x); vstd::arithmetic::div_mod::lemma_small_mod(1, p as nat); }
    assert(h + h + 1 == M_());
    assert(t == xp(x, M_()));
    // t^(2^46) == x^((q-1)/2) == 1
    assert(p2(46) == 70368744177664) by(compute_only);
    lemma_mpow_mul(p, x, M_(), 70368744177664);
    assert(M_() * 70368744177664 == (fq_p() - 1) / 2) by(compute_only);
    lemma_euler_sq(x);
}
// one outer iteration, given b = t^(2^(i-2))
pub proof fn lemma_ts_step(x: int, z: int, t: int, c: int, i: nat, b: int, z2: int, c2: int, t2: int)
    requires in_fq(x), ts_inv(x, z, t, c, i), i >= 2, b == xp(t, p2((i - 2) as nat) as nat),
        c2 == fmul(c, c),
        z2 == (if b != 1 { fmul(z, c) } else { z }),
        t2 == (if b != 1 { fmul(t, c2) } else { t }),
    ensures ts_inv(x, z2, t2, c2, (i - 1) as nat)
{
    let p = fq_p();
    let e = p2((i - 2) as nat) as nat;
    lemma_p2_nat((i - 2) as nat); lemma_p2_nat((i - 1) as nat);
    lemma_p2_add(1, (i - 2) as nat);
    assert(p2(1) == 2) by(compute_only);
    assert(p2((i - 1) as nat) == 2 * e);
    lemma_fmul_range(c, c); lemma_fmul_range(z, c); lemma_fmul_range(t, c2);
    // c2^(e) == c^(2e) == -1   (definition of mpow on an even exponent)
    assert(xp(c2, e) == xp(c, 2 * e)) by { reveal_with_fuel(mpow, 1); assert((2 * e) / 2 == e); }
    // b^2 == t^(2e) == 1
    lemma_mpow_add(p, t, e, e);
    assert(fmul(b, b) == 1);
    lemma_xp_range(t, e);
    lemma_sqrt_of_one(b);
    lemma_minus_one_sq();
    if b != 1 {
        // z2^2 == z^2 c^2 == t x c^2 == t2 x
        lemma_cong_fmul(z, c); lemma_cong_mul(z2, z * c, z2, z * c); lemma_cong_fmul(z2, z2);
        lemma_cong_fmul(z, z); lemma_cong_fmul(t, x); lemma_cong_fmul(c, c);
        lemma_cong_mul(z * z, t * x, c * c, c2);
        assert((z * c) * (z * c) == (z * z) * (c * c)) by(nonlinear_arith);
        lemma_cong_fmul(t, c2); lemma_cong_mul(t2, t * c2, x, x); lemma_cong_fmul(t2, x);
        assert((t * x) * c2 == (t * c2) * x) by(nonlinear_arith);
        lemma_fmul_range(z2, z2); lemma_fmul_range(t2, x);
        lemma_cong_small(fmul(z2, z2), fmul(t2, x));
        // t2^e == t^e * c2^e == (-1)(-1) == 1
        lemma_mpow_prod(p, t, c2, e);
    }
}
