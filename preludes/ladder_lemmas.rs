// ---- exponent bookkeeping for LSB-first square-and-multiply / double-and-add over little-endian u64 limbs (all proved)
pub open spec fn p2(n: nat) -> int decreases n { if n == 0 { 1 } else { 2 * p2((n - 1) as nat) } }
pub proof fn lemma_p2_pos(n: nat) ensures p2(n) > 0 decreases n { if n > 0 { lemma_p2_pos((n - 1) as nat); } }
pub proof fn lemma_p2_add(a: nat, b: nat) ensures p2(a + b) == p2(a) * p2(b) decreases a {
    if a > 0 {
        lemma_p2_add((a - 1) as nat, b);
        assert(p2(a + b) == 2 * p2((a + b - 1) as nat));
        assert(2 * (p2((a - 1) as nat) * p2(b)) == (2 * p2((a - 1) as nat)) * p2(b)) by(nonlinear_arith);
    } else {
        assert(1 * p2(b) == p2(b));
    }
}
pub proof fn lemma_p2_shl(i: u64) requires i < 64 ensures p2(i as nat) == (1u64 << i) as int decreases i {
    if i == 0 {
        assert((1u64 << 0u64) == 1u64) by(bit_vector);
    } else {
        lemma_p2_shl((i - 1) as u64);
        let j = (i - 1) as u64;
        assert(j < 63 ==> (1u64 << ((j + 1) as u64)) == 2 * (1u64 << j)) by(bit_vector);
        assert((1u64 << j) < 0x8000_0000_0000_0000u64 ==> true);
        assert(j < 63 ==> (1u64 << j) <= 0x4000_0000_0000_0000u64) by(bit_vector);
    }
}
pub proof fn lemma_p2_64() ensures p2(64) == W64() {
    lemma_p2_shl(63);
    assert((1u64 << 63u64) == 0x8000_0000_0000_0000u64) by(bit_vector);
    assert(p2(64) == 2 * p2(63));
}
// low i bits of x, 0 <= i <= 64
pub open spec fn mask(i: u64) -> u64 { if i >= 64 { 0xffff_ffff_ffff_ffffu64 } else { ((1u64 << i) - 1) as u64 } }
pub open spec fn low(x: u64, i: u64) -> int { (x & mask(i)) as int }
pub proof fn lemma_low_step(x: u64, i: u64)
    requires i < 64
    ensures low(x, (i + 1) as u64) == low(x, i) + (((x >> i) & 1) as int) * p2(i as nat),
            ((x >> i) & 1) == 0 || ((x >> i) & 1) == 1
{
    lemma_p2_shl(i);
    let bit = (x >> i) & 1;
    assert(bit == 0 || bit == 1) by(bit_vector) requires bit == (x >> i) & 1;
    let m0 = mask(i);
    let m1 = mask((i + 1) as u64);
    let lo = x & m0;
    let hi = bit << i;
    assert((1u64 << i) >= 1) by(bit_vector) requires i < 64;
    assert(x & m1 == (lo | hi) && (lo & hi) == 0) by(bit_vector)
        requires i < 64, bit == (x >> i) & 1, lo == x & m0, hi == bit << i,
                 m0 == ((1u64 << i) - 1) as u64,
                 m1 == (if i + 1 >= 64 { 0xffff_ffff_ffff_ffffu64 } else { ((1u64 << ((i + 1) as u64)) - 1) as u64 });
    assert((lo | hi) == lo + hi) by(bit_vector) requires (lo & hi) == 0;
    assert(hi == (if bit == 1 { 1u64 << i } else { 0u64 })) by(bit_vector) requires hi == bit << i, bit == 0 || bit == 1, i < 64;
}
pub proof fn lemma_low_0(x: u64) ensures low(x, 0) == 0 {
    assert(x & (((1u64 << 0u64) - 1) as u64) == 0) by(bit_vector);
}
pub proof fn lemma_low_64(x: u64) ensures low(x, 64) == x as int {
    assert(x & 0xffff_ffff_ffff_ffffu64 == x) by(bit_vector);
}
// limbs_val of a prefix extended by one limb
pub proof fn lemma_limbs_take(s: Seq<u64>, j: int)
    requires 0 <= j < s.len()
    ensures limbs_val(s.take(j + 1)) == limbs_val(s.take(j)) + (s[j] as int) * p2((64 * j) as nat)
    decreases j
{
    lemma_p2_64();
    if j == 0 {
        assert(s.take(1).drop_first().len() == 0);
        assert(s.take(0).len() == 0);
        assert(limbs_val(s.take(1)) == s[0] as int + W64() * limbs_val(s.take(1).drop_first()));
    } else {
        let t = s.drop_first();
        lemma_limbs_take(t, j - 1);
        assert(s.take(j + 1).drop_first() =~= t.take(j));
        assert(s.take(j).drop_first() =~= t.take(j - 1));
        assert(limbs_val(s.take(j + 1)) == s[0] as int + W64() * limbs_val(t.take(j)));
        assert(limbs_val(s.take(j)) == s[0] as int + W64() * limbs_val(t.take(j - 1)));
        lemma_p2_add(64, (64 * (j - 1)) as nat);
        assert(t[j - 1] == s[j]);
        assert(W64() * ((s[j] as int) * p2((64 * (j - 1)) as nat)) == (s[j] as int) * p2((64 * j) as nat)) by(nonlinear_arith)
            requires p2((64 * j) as nat) == W64() * p2((64 * (j - 1)) as nat);
        assert(W64() * (limbs_val(t.take(j - 1)) + (s[j] as int) * p2((64 * (j - 1)) as nat))
            == W64() * limbs_val(t.take(j - 1)) + W64() * ((s[j] as int) * p2((64 * (j - 1)) as nat))) by(nonlinear_arith);
    }
}
// exponent consumed after j full limbs and the low i bits of limb j
pub open spec fn prefix_val(s: Seq<u64>, j: int, i: u64) -> int {
    limbs_val(s.take(j)) + low(s[j], i) * p2((64 * j) as nat)
}

pub proof fn lemma_prefix_step(s: Seq<u64>, j: int, i: u64)
    requires 0 <= j < s.len(), i < 64
    ensures prefix_val(s, j, (i + 1) as u64) == prefix_val(s, j, i) + (((s[j] >> i) & 1) as int) * (p2((64 * j) as nat) * p2(i as nat)),
            ((s[j] >> i) & 1) == 0 || ((s[j] >> i) & 1) == 1,
            p2((64 * j) as nat) * p2((i + 1) as nat) == 2 * (p2((64 * j) as nat) * p2(i as nat)),
            prefix_val(s, j, i) >= 0, p2((64 * j) as nat) * p2(i as nat) > 0
{
    lemma_low_step(s[j], i);
    let a = p2((64 * j) as nat);
    let b = p2(i as nat);
    let bit = ((s[j] >> i) & 1) as int;
    lemma_p2_pos((64 * j) as nat);
    lemma_p2_pos(i as nat);
    lemma_limbs_val_bound(s.take(j));
    assert((low(s[j], i) + bit * b) * a == low(s[j], i) * a + bit * (a * b)) by(nonlinear_arith);
    assert(a * (2 * b) == 2 * (a * b)) by(nonlinear_arith);
    assert(low(s[j], i) * a >= 0) by(nonlinear_arith) requires low(s[j], i) >= 0, a > 0;
    assert(a * b > 0) by(nonlinear_arith) requires a > 0, b > 0;
}
pub proof fn lemma_prefix_0(s: Seq<u64>, j: int)
    requires 0 <= j < s.len()
    ensures prefix_val(s, j, 0) == limbs_val(s.take(j)), p2((64 * j) as nat) * p2(0) == p2((64 * j) as nat)
{ lemma_low_0(s[j]); }
pub proof fn lemma_prefix_64(s: Seq<u64>, j: int)
    requires 0 <= j < s.len()
    ensures prefix_val(s, j, 64) == limbs_val(s.take(j + 1)), p2((64 * j) as nat) * p2(64) == p2((64 * (j + 1)) as nat)
{
    lemma_low_64(s[j]);
    lemma_limbs_take(s, j);
    lemma_p2_add((64 * j) as nat, 64);
}
