// ---- abstract view of field @F@ (= Z/p, p = @f@_p()).  Used by every layer above the wrappers.
// The wrappers' own contracts (proved in units wrap64_@f@ / wrap32_@f@) are imported as stubs by the unit.
pub open spec fn @f@_p() -> int { @P@int }
#[verifier::external_body]
#[derive(Copy, Clone)]
pub struct @F@ { _p: [u64; @N64@] }
pub uninterp spec fn @f@_val(a: @F@) -> int;
pub uninterp spec fn @f@_of(v: int) -> @F@;
// canonical representation: equal value <=> equal element (proved for the wrappers: limbs are reduced)
pub broadcast axiom fn @f@_canon(a: @F@)
    ensures @f@_of(#[trigger] @f@_val(a)) == a, 0 <= @f@_val(a) < @f@_p();
pub broadcast axiom fn @f@_canon2(v: int)
    requires 0 <= v < @f@_p()
    ensures #[trigger] @f@_val(@f@_of(v)) == v;
impl @F@ {
    pub open spec fn val(self) -> int { @f@_val(self) }
    // representation invariant; trivially true for the abstract type (see DESIGN 2.2, A-WF)
    pub open spec fn wf(self) -> bool { true }
    #[verifier::external_body]
    pub const fn dummy_() -> @F@ { @F@ { _p: [0u64; @N64@] } }
}
pub broadcast group @f@_abs { @f@_canon, @f@_canon2 }
