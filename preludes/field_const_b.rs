pub const B: usize = @B@;
