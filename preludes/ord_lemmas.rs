// ---- ordering of field elements: lexicographic comparison of the reversed (most significant first) limb arrays is
// integer comparison of the values (all proved)
pub open spec fn int_cmp(a: int, b: int) -> Ordering { if a < b { Ordering::Less } else if a > b { Ordering::Greater } else { Ordering::Equal } }
// lexicographic comparison of two sequences of the same length (what `[u64; N]::cmp` computes)
pub open spec fn lex_cmp(a: Seq<u64>, b: Seq<u64>) -> Ordering decreases a.len() {
    if a.len() == 0 || b.len() == 0 { Ordering::Equal }
    else if a[0] < b[0] { Ordering::Less } else if a[0] > b[0] { Ordering::Greater } else { lex_cmp(a.drop_first(), b.drop_first()) }
}
pub proof fn lemma_limbs_bound64(s: Seq<u64>) ensures 0 <= limbs_val(s) < pw64(s.len()) decreases s.len()
{
    if s.len() > 0 {
        lemma_limbs_bound64(s.drop_first());
        let r = limbs_val(s.drop_first()); let w = pw64((s.len() - 1) as nat);
        assert(W64() * r <= W64() * (w - 1)) by(nonlinear_arith) requires 0 <= r <= w - 1;
        assert(W64() * r >= 0) by(nonlinear_arith) requires r >= 0;
    }
}
pub open spec fn pw64(n: nat) -> int decreases n { if n == 0 { 1 } else { W64() * pw64((n - 1) as nat) } }
// value of a sequence split at its last (most significant) limb
pub proof fn lemma_limbs_last(s: Seq<u64>)
    requires s.len() > 0
    ensures limbs_val(s) == limbs_val(s.drop_last()) + (s.last() as int) * pw64((s.len() - 1) as nat)
    decreases s.len()
{
    if s.len() == 1 {
        assert(s.drop_first().len() == 0); assert(s.drop_last().len() == 0);
        assert(limbs_val(s.drop_first()) == 0);
        assert(limbs_val(s.drop_last()) == 0);
        assert(pw64(0) == 1);
        assert(limbs_val(s) == s[0] as int + W64() * limbs_val(s.drop_first()));
    } else {
        let t = s.drop_first();
        lemma_limbs_last(t);
        assert(t.drop_last() =~= s.drop_last().drop_first());
        assert(t.last() == s.last());
        assert(s.drop_last()[0] == s[0]);
        let a = limbs_val(t.drop_last()); let l = s.last() as int; let w = pw64((t.len() - 1) as nat);
        assert(W64() * (a + l * w) == W64() * a + l * (W64() * w)) by(nonlinear_arith);
    }
}
pub proof fn lemma_lex_is_int(a: Seq<u64>, b: Seq<u64>)
    requires a.len() == b.len()
    ensures lex_cmp(a.reverse(), b.reverse()) == int_cmp(limbs_val(a), limbs_val(b))
    decreases a.len()
{
    if a.len() == 0 {
        assert(a.reverse().len() == 0);
    } else {
        let n = a.len();
        lemma_limbs_last(a); lemma_limbs_last(b);
        lemma_limbs_bound64(a.drop_last()); lemma_limbs_bound64(b.drop_last());
        assert(a.reverse()[0] == a.last()); assert(b.reverse()[0] == b.last());
        assert(a.reverse().drop_first() =~= a.drop_last().reverse());
        assert(b.reverse().drop_first() =~= b.drop_last().reverse());
        lemma_lex_is_int(a.drop_last(), b.drop_last());
        let w = pw64((n - 1) as nat); let la = a.last() as int; let lb = b.last() as int;
        let ra = limbs_val(a.drop_last()); let rb = limbs_val(b.drop_last());
        if la < lb {
            assert(ra + la * w < rb + lb * w) by(nonlinear_arith) requires 0 <= ra < w, 0 <= rb < w, la + 1 <= lb, w > 0;
        } else if la > lb {
            assert(ra + la * w > rb + lb * w) by(nonlinear_arith) requires 0 <= ra < w, 0 <= rb < w, lb + 1 <= la, w > 0;
        } else {
            assert(la * w == lb * w);
        }
    }
}
// `[u64; N]::cmp` (lexicographic, A-STD)
#[verifier::external_body]
pub fn limbs_cmp<const N: usize>(a: &[u64; N], b: &[u64; N]) -> (r: Ordering) ensures r == lex_cmp(a@, b@) { unimplemented!() }
// `<[u64; N]>::reverse` through the slice method (A-STD)
#[verifier::external_body]
pub fn arr_rev<const N: usize>(a: &mut [u64; N]) ensures final(a)@ == old(a)@.reverse() { unimplemented!() }
