// ---- exponent laws of mpow (proved; vstd modular arithmetic lemmas)
// ---- exponent laws of mpow (all proved)
pub open spec fn mpow_lin(p: int, a: int, n: nat) -> int decreases n {
    if n == 0 { 1int % p } else { mmul(p, a, mpow_lin(p, a, (n - 1) as nat)) }
}
pub proof fn lemma_mmul_assoc(p: int, a: int, b: int, c: int)
    requires p > 0
    ensures mmul(p, mmul(p, a, b), c) == mmul(p, a, mmul(p, b, c))
{
    vstd::arithmetic::div_mod::lemma_mul_mod_noop_general(a * b, c, p);
    vstd::arithmetic::div_mod::lemma_mul_mod_noop_general(a, b * c, p);
    assert((a * b) * c == a * (b * c)) by(nonlinear_arith);
}
pub proof fn lemma_mmul_comm(p: int, a: int, b: int) ensures mmul(p, a, b) == mmul(p, b, a)
{ assert(a * b == b * a) by(nonlinear_arith); }
pub proof fn lemma_mmul_one_l(p: int, a: int)
    requires p > 0
    ensures mmul(p, 1int % p, a) == a % p
{
    vstd::arithmetic::div_mod::lemma_mul_mod_noop_general(1, a, p);
    assert(1 * a == a);
}
pub proof fn lemma_mpow_lin_range(p: int, a: int, n: nat)
    requires p > 0
    ensures 0 <= mpow_lin(p, a, n) < p
    decreases n
{
    if n == 0 { vstd::arithmetic::div_mod::lemma_mod_bound(1, p); } else { vstd::arithmetic::div_mod::lemma_mod_bound(a * mpow_lin(p, a, (n - 1) as nat), p); }
}
pub proof fn lemma_mpow_lin_add(p: int, a: int, m: nat, n: nat)
    requires p > 0
    ensures mpow_lin(p, a, m + n) == mmul(p, mpow_lin(p, a, m), mpow_lin(p, a, n))
    decreases m
{
    if m == 0 {
        lemma_mmul_one_l(p, mpow_lin(p, a, n));
        lemma_mpow_lin_range(p, a, n);
        vstd::arithmetic::div_mod::lemma_small_mod(mpow_lin(p, a, n) as nat, p as nat);
    } else {
        lemma_mpow_lin_add(p, a, (m - 1) as nat, n);
        assert(mpow_lin(p, a, m + n) == mmul(p, a, mpow_lin(p, a, (m + n - 1) as nat)));
        assert((m - 1) as nat + n == (m + n - 1) as nat);
        lemma_mmul_assoc(p, a, mpow_lin(p, a, (m - 1) as nat), mpow_lin(p, a, n));
    }
}
pub proof fn lemma_mpow_lin_sq(p: int, a: int, n: nat)
    requires p > 0
    ensures mpow_lin(p, mmul(p, a, a), n) == mpow_lin(p, a, 2 * n)
    decreases n
{
    if n > 0 {
        lemma_mpow_lin_sq(p, a, (n - 1) as nat);
        lemma_mpow_lin_add(p, a, 2, (2 * (n - 1)) as nat);
        assert(mpow_lin(p, a, 2) == mmul(p, a, mmul(p, a, 1int % p))) by { reveal_with_fuel(mpow_lin, 3); }
        // a * (a * 1) == a * a
        vstd::arithmetic::div_mod::lemma_mul_mod_noop_general(a, 1, p);
        assert(mmul(p, a, 1int % p) == a % p) by { vstd::arithmetic::div_mod::lemma_mul_mod_noop_general(a, 1, p); assert(a * 1 == a); }
        vstd::arithmetic::div_mod::lemma_mul_mod_noop_general(a, a, p);
        assert(mmul(p, a, a % p) == mmul(p, a, a));
        assert(2 + 2 * (n - 1) == 2 * n);
    }
}
pub proof fn lemma_mpow_is_lin(p: int, a: int, e: nat)
    requires p > 0
    ensures mpow(p, a, e) == mpow_lin(p, a, e)
    decreases e
{
    if e > 0 {
        lemma_mpow_is_lin(p, mmul(p, a, a), e / 2);
        lemma_mpow_lin_sq(p, a, e / 2);
        if e % 2 == 0 {
            assert(2 * (e / 2) == e);
        } else {
            assert(2 * (e / 2) == (e - 1) as nat);
        }
    }
}
pub proof fn lemma_mpow_add(p: int, a: int, m: nat, n: nat)
    requires p > 0
    ensures mpow(p, a, m + n) == mmul(p, mpow(p, a, m), mpow(p, a, n)), 0 <= mpow(p, a, m) < p
{
    lemma_mpow_is_lin(p, a, m); lemma_mpow_is_lin(p, a, n); lemma_mpow_is_lin(p, a, m + n);
    lemma_mpow_lin_add(p, a, m, n);
    lemma_mpow_lin_range(p, a, m);
}
