// ---- little-endian byte/limb lemmas (proved here, used by wrappers and conversions)
pub open spec fn le8_at(s: Seq<u8>, o: int) -> int {
    s[o] as int + 0x100 * (s[o + 1] as int) + 0x1_0000 * (s[o + 2] as int) + 0x100_0000 * (s[o + 3] as int)
    + 0x1_0000_0000 * (s[o + 4] as int) + 0x100_0000_0000 * (s[o + 5] as int) + 0x1_0000_0000_0000 * (s[o + 6] as int)
    + 0x100_0000_0000_0000 * (s[o + 7] as int)
}
pub proof fn lemma_bytes_val_le8(s: Seq<u8>)
    requires s.len() >= 8
    ensures bytes_val(s) == le8_at(s, 0) + W64() * bytes_val(s.skip(8))
{
    let s1 = s.drop_first(); let s2 = s1.drop_first(); let s3 = s2.drop_first(); let s4 = s3.drop_first();
    let s5 = s4.drop_first(); let s6 = s5.drop_first(); let s7 = s6.drop_first(); let s8 = s7.drop_first();
    assert(s8 =~= s.skip(8));
    assert(bytes_val(s) == s[0] as int + 256 * bytes_val(s1));
    assert(bytes_val(s1) == s[1] as int + 256 * bytes_val(s2));
    assert(bytes_val(s2) == s[2] as int + 256 * bytes_val(s3));
    assert(bytes_val(s3) == s[3] as int + 256 * bytes_val(s4));
    assert(bytes_val(s4) == s[4] as int + 256 * bytes_val(s5));
    assert(bytes_val(s5) == s[5] as int + 256 * bytes_val(s6));
    assert(bytes_val(s6) == s[6] as int + 256 * bytes_val(s7));
    assert(bytes_val(s7) == s[7] as int + 256 * bytes_val(s8));
}
pub proof fn lemma_limbs_bytes(l: Seq<u64>, b: Seq<u8>)
    requires b.len() == 8 * l.len(), forall|i: int| 0 <= i < l.len() ==> l[i] as int == #[trigger] le8_at(b, 8 * i)
    ensures limbs_val(l) == bytes_val(b)
    decreases l.len()
{
    if l.len() > 0 {
        lemma_bytes_val_le8(b);
        let l2 = l.drop_first();
        let b2 = b.skip(8);
        assert(l[0] as int == le8_at(b, 8 * 0int));
        assert forall|i: int| 0 <= i < l2.len() implies l2[i] as int == #[trigger] le8_at(b2, 8 * i) by {
            assert(l[i + 1] as int == le8_at(b, 8 * (i + 1)));
        }
        lemma_limbs_bytes(l2, b2);
    } else {
        assert(b.len() == 0);
    }
}
// same fact as a broadcast lemma: fires whenever a limb value and a byte value meet, so that contracts
// need not name the function's locals
pub broadcast proof fn lemma_limbs_bytes_b(l: Seq<u64>, b: Seq<u8>)
    requires b.len() == 8 * l.len(), forall|i: int| 0 <= i < l.len() ==> l[i] as int == #[trigger] le8_at(b, 8 * i)
    ensures #[trigger] limbs_val(l) == #[trigger] bytes_val(b)
{
    lemma_limbs_bytes(l, b);
}
pub broadcast proof fn lemma_bytes_val_bound(s: Seq<u8>)
    ensures 0 <= #[trigger] bytes_val(s)
    decreases s.len()
{ if s.len() > 0 { lemma_bytes_val_bound(s.drop_first()); } }
pub broadcast proof fn lemma_limbs_val_bound(s: Seq<u64>)
    ensures 0 <= #[trigger] limbs_val(s)
    decreases s.len()
{ if s.len() > 0 { lemma_limbs_val_bound(s.drop_first()); } }

// A-STD (R6): u64 <-> little-endian bytes; std's signatures use `[u8; size_of::<u64>()]`, which
// assume_specification cannot match, so the calls are renamed to these stand-ins.
#[verifier::external_body]
pub fn u64_from_le_bytes(bytes: [u8; 8]) -> (r: u64)
    ensures r as int == le8_at(bytes@, 0)
{ u64::from_le_bytes(bytes) }
#[verifier::external_body]
pub fn u64_to_le_bytes(x: u64) -> (r: [u8; 8])
    ensures x as int == le8_at(r@, 0)
{ x.to_le_bytes() }
