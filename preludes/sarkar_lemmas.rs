// ---- spec layer and lemmas for the table-driven square root (Sarkar 2020) of src/ark_curve/invsqrt.rs.
// g = zeta^M generates the 2-Sylow subgroup (order 2^47) of Fq^*; h = g^(2^39) is a primitive 256th root of unity.
pub open spec fn G_() -> int { @G@int }
pub open spec fn M_() -> nat { @M@nat }
pub open spec fn ZZ_() -> int { @ZZ@int }          // zeta^((1 - M) / 2)
pub open spec fn gp(e: nat) -> int { mpow(fq_p(), G_(), e) }
pub open spec fn xp(x: int, e: nat) -> int { mpow(fq_p(), x, e) }
pub proof fn lemma_gp_add(a: nat, b: nat) ensures gp(a + b) == fmul(gp(a), gp(b)), in_fq(gp(a)), in_fq(gp(b))
{ lemma_mpow_add(fq_p(), G_(), a, b); lemma_mpow_add(fq_p(), G_(), b, a); }
pub proof fn lemma_xp_range(x: int, e: nat) ensures in_fq(xp(x, e)) { lemma_mpow_add(fq_p(), x, e, 0); }
pub proof fn lemma_fmul_assoc_(a: int, b: int, c: int) ensures fmul(fmul(a, b), c) == fmul(a, fmul(b, c))
{ lemma_mmul_assoc(fq_p(), a, b, c); }
pub proof fn lemma_fmul_comm_(a: int, b: int) ensures fmul(a, b) == fmul(b, a) { lemma_mmul_comm(fq_p(), a, b); }
pub proof fn lemma_fmul_range(a: int, b: int) ensures in_fq(fmul(a, b)) { vstd::arithmetic::div_mod::lemma_mod_bound(a * b, fq_p()); }
pub proof fn lemma_fmul_one_r(a: int) requires in_fq(a) ensures fmul(a, 1) == a, fmul(1, a) == a
{ vstd::arithmetic::div_mod::lemma_small_mod(a as nat, fq_p() as nat); assert(a * 1 == a); assert(1 * a == a); }
// (x * g^a) * g^b == x * g^(a+b)
pub proof fn lemma_chain(x: int, a: nat, b: nat) ensures fmul(fmul(x, gp(a)), gp(b)) == fmul(x, gp(a + b))
{ lemma_fmul_assoc_(x, gp(a), gp(b)); lemma_gp_add(a, b); }
// powers of powers and of products (linear form, then transported to mpow)
pub proof fn lemma_lin_mul(p: int, a: int, m: nat, n: nat)
    requires p > 1
    ensures mpow_lin(p, mpow_lin(p, a, m), n) == mpow_lin(p, a, m * n)
    decreases n
{
    if n == 0 { assert(m * 0 == 0); }
    else {
        lemma_lin_mul(p, a, m, (n - 1) as nat);
        lemma_mpow_lin_add(p, a, m, m * ((n - 1) as nat));
        assert(m + m * ((n - 1) as nat) == m * n) by(nonlinear_arith) requires n >= 1;
    }
}
pub proof fn lemma_mpow_mul(p: int, a: int, m: nat, n: nat)
    requires p > 1
    ensures mpow(p, mpow(p, a, m), n) == mpow(p, a, m * n)
{
    lemma_mpow_is_lin(p, a, m); lemma_mpow_is_lin(p, mpow(p, a, m), n); lemma_mpow_is_lin(p, a, m * n);
    lemma_lin_mul(p, a, m, n);
}
pub proof fn lemma_lin_prod(p: int, a: int, b: int, n: nat)
    requires p > 1
    ensures mpow_lin(p, mmul(p, a, b), n) == mmul(p, mpow_lin(p, a, n), mpow_lin(p, b, n))
    decreases n
{
    if n == 0 {
        vstd::arithmetic::div_mod::lemma_small_mod(1, p as nat);
        assert(1int * 1int == 1int);
    } else {
        lemma_lin_prod(p, a, b, (n - 1) as nat);
        let x = mpow_lin(p, a, (n - 1) as nat); let y = mpow_lin(p, b, (n - 1) as nat);
        // (ab)(xy) == (ax)(by)
        lemma_mmul_assoc(p, mmul(p, a, b), x, y);
        lemma_mmul_assoc(p, a, b, x);
        lemma_mmul_comm(p, b, x);
        lemma_mmul_assoc(p, a, x, b);
        lemma_mmul_assoc(p, mmul(p, a, x), b, y);
        lemma_mmul_assoc(p, mmul(p, a, b), x, y);
        assert(mmul(p, mmul(p, a, b), mmul(p, x, y)) == mmul(p, mmul(p, mmul(p, a, b), x), y));
    }
}
pub proof fn lemma_mpow_prod(p: int, a: int, b: int, n: nat)
    requires p > 1
    ensures mpow(p, mmul(p, a, b), n) == mmul(p, mpow(p, a, n), mpow(p, b, n))
{
    lemma_mpow_is_lin(p, mmul(p, a, b), n); lemma_mpow_is_lin(p, a, n); lemma_mpow_is_lin(p, b, n);
    lemma_lin_prod(p, a, b, n);
}
pub proof fn lemma_mpow_of_one(p: int, n: nat)
    requires p > 1
    ensures mpow(p, 1, n) == 1
    decreases n
{
    lemma_mpow_is_lin(p, 1, n);
    lemma_lin_one(p, n);
}
pub proof fn lemma_lin_one(p: int, n: nat)
    requires p > 1
    ensures mpow_lin(p, 1, n) == 1
    decreases n
{
    vstd::arithmetic::div_mod::lemma_small_mod(1, p as nat);
    if n > 0 { lemma_lin_one(p, (n - 1) as nat); assert(1int * 1int == 1int); }
}
// ---- the discrete-log walk.  x is the element whose 2-Sylow logarithm is being extracted (x5 in the code), c the
// current shift (39, 32, 24, 16, 8, 0), t the digits found so far.
pub open spec fn key_c(x: int, c: nat, t: nat) -> int { fmul(xp(x, p2(c) as nat), gp((p2(c) * t) as nat)) }
pub open spec fn inv_c(x: int, c: nat, t: nat) -> bool { key_c(x, c, t) == 1 }
pub proof fn lemma_p2_nat(c: nat) ensures p2(c) >= 1 decreases c { if c > 0 { lemma_p2_nat((c - 1) as nat); } }
// a key taken d = cp - c <= 8 levels above an established invariant is a 256th root of unity
pub proof fn lemma_key_root(x: int, cp: nat, c: nat, t: nat)
    requires inv_c(x, cp, t), c <= cp, cp <= c + 8
    ensures xp(key_c(x, c, t), 256) == 1, in_fq(key_c(x, c, t))
{
    let p = fq_p();
    let d = (cp - c) as nat;
    lemma_p2_nat(c); lemma_p2_nat(d); lemma_p2_nat(cp); lemma_p2_nat((8 - d) as nat);
    lemma_p2_add(c, d);
    let a = xp(x, p2(c) as nat); let b = gp((p2(c) * t) as nat);
    lemma_mpow_prod(p, a, b, p2(d) as nat);
    lemma_mpow_mul(p, x, p2(c) as nat, p2(d) as nat);
    lemma_mpow_mul(p, G_(), (p2(c) * t) as nat, p2(d) as nat);
    assert((p2(c) * t) * p2(d) == p2(cp) * t) by(nonlinear_arith) requires p2(c) * p2(d) == p2(cp);
    assert(p2(c) * p2(d) == p2(cp));
    assert(xp(key_c(x, c, t), p2(d) as nat) == key_c(x, cp, t));
    // 256 = 2^d * 2^(8-d)
    lemma_p2_add(d, (8 - d) as nat);
    assert(p2(8) == 256) by(compute_only);
    lemma_mpow_mul(p, key_c(x, c, t), p2(d) as nat, p2((8 - d) as nat) as nat);
    lemma_mpow_of_one(p, p2((8 - d) as nat) as nat);
    lemma_fmul_range(a, b);
}
// after the lookup: key * h^q == 1 establishes the invariant at this level with the new digit added
pub proof fn lemma_key_post(x: int, c: nat, t: nat, q: nat, tn: nat)
    requires fmul(key_c(x, c, t), gp(q * 549755813888)) == 1, c <= 39, tn == t + q * p2((39 - c) as nat)
    ensures inv_c(x, c, tn)
{
    lemma_p2_nat(c); lemma_p2_nat((39 - c) as nat);
    lemma_chain(xp(x, p2(c) as nat), (p2(c) * t) as nat, q * 549755813888);
    lemma_p2_add(c, (39 - c) as nat);
    assert(p2(39) == 549755813888) by(compute_only);
    assert(p2(c) * tn == p2(c) * t + q * 549755813888) by(nonlinear_arith)
        requires tn == t + q * p2((39 - c) as nat), p2(c) * p2((39 - c) as nat) == 549755813888;
}
// ---- congruence toolkit: products of integers modulo q
pub open spec fn cong(a: int, b: int) -> bool { a % fq_p() == b % fq_p() }
pub proof fn lemma_cong_mul(a: int, a2: int, b: int, b2: int)
    requires cong(a, a2), cong(b, b2)
    ensures cong(a * b, a2 * b2)
{
    vstd::arithmetic::div_mod::lemma_mul_mod_noop_general(a, b, fq_p());
    vstd::arithmetic::div_mod::lemma_mul_mod_noop_general(a2, b2, fq_p());
}
pub proof fn lemma_cong_fmul(a: int, b: int) ensures cong(fmul(a, b), a * b)
{ vstd::arithmetic::div_mod::lemma_mod_twice(a * b, fq_p()); }
pub proof fn lemma_cong_small(a: int, b: int) requires cong(a, b), in_fq(a), in_fq(b) ensures a == b
{ vstd::arithmetic::div_mod::lemma_small_mod(a as nat, fq_p() as nat); vstd::arithmetic::div_mod::lemma_small_mod(b as nat, fq_p() as nat); }
// M-PRIME for this unit (same statements as in the min_invsqrt unit)
pub axiom fn m_prime_no_zero_div_(a: int, b: int)
    requires in_fq(a), in_fq(b), fmul(a, b) == 0
    ensures a == 0 || b == 0;
pub axiom fn m_prime_fermat_(a: int)
    requires in_fq(a), a != 0
    ensures fmul(a, mpow(fq_p(), a, (fq_p() - 2) as nat)) == 1;
pub proof fn lemma_lin_nonzero(a: int, n: nat)
    requires in_fq(a), a != 0
    ensures mpow_lin(fq_p(), a, n) != 0, in_fq(mpow_lin(fq_p(), a, n))
    decreases n
{
    lemma_mpow_lin_range(fq_p(), a, n);
    if n == 0 { vstd::arithmetic::div_mod::lemma_small_mod(1, fq_p() as nat); }
    else {
        lemma_lin_nonzero(a, (n - 1) as nat);
        if mpow_lin(fq_p(), a, n) == 0 { m_prime_no_zero_div_(a, mpow_lin(fq_p(), a, (n - 1) as nat)); }
    }
}
pub proof fn lemma_xp_nonzero(a: int, n: nat) requires in_fq(a), a != 0 ensures xp(a, n) != 0, in_fq(xp(a, n))
{ lemma_mpow_is_lin(fq_p(), a, n); lemma_lin_nonzero(a, n); }
// x5 = (w num)(w den) with w = A^((M-1)/2) s, s = den^(2^47 - 1), A = num s^2 den  is  A^M, hence in the 2-Sylow subgroup
pub proof fn lemma_x5_sylow(num: int, den: int, s: int, a_: int, ah: int, w: int, x5: int)
    requires in_fq(num), in_fq(den), num != 0, den != 0,
        s == xp(den, 140737488355327), a_ == fmul(num, fmul(fmul(s, s), den)), ah == xp(a_, ((M_() - 1) / 2) as nat),
        w == fmul(ah, s), x5 == fmul(fmul(w, num), fmul(w, den)),
    ensures xp(x5, 140737488355328) == 1, in_fq(x5)
{
    let p = fq_p();
    lemma_xp_nonzero(den, 140737488355327);
    lemma_fmul_range(s, s); lemma_fmul_range(fmul(s, s), den); lemma_fmul_range(num, fmul(fmul(s, s), den));
    if fmul(s, s) == 0 { m_prime_no_zero_div_(s, s); }
    if fmul(fmul(s, s), den) == 0 { m_prime_no_zero_div_(fmul(s, s), den); }
    if a_ == 0 { m_prime_no_zero_div_(num, fmul(fmul(s, s), den)); }
    // (1) x5 == ah^2 * A
    lemma_cong_fmul(ah, s);
    lemma_cong_fmul(w, num); lemma_cong_fmul(w, den);
    lemma_cong_mul(w, ah * s, num, num); lemma_cong_mul(w, ah * s, den, den);
    lemma_cong_mul(fmul(w, num), (ah * s) * num, fmul(w, den), (ah * s) * den);
    lemma_cong_fmul(fmul(w, num), fmul(w, den));
    lemma_cong_fmul(s, s); lemma_cong_mul(fmul(s, s), s * s, den, den); lemma_cong_fmul(fmul(s, s), den);
    lemma_cong_mul(num, num, fmul(fmul(s, s), den), (s * s) * den); lemma_cong_fmul(num, fmul(fmul(s, s), den));
    lemma_cong_fmul(ah, ah);
    lemma_cong_mul(fmul(ah, ah), ah * ah, a_, num * ((s * s) * den));
    lemma_cong_fmul(fmul(ah, ah), a_);
    assert(((ah * s) * num) * ((ah * s) * den) == (ah * ah) * (num * ((s * s) * den))) by(nonlinear_arith);
    lemma_fmul_range(fmul(w, num), fmul(w, den)); lemma_fmul_range(fmul(ah, ah), a_);
    lemma_cong_small(x5, fmul(fmul(ah, ah), a_));
    // (2) ah^2 * A == A^M
    let h = ((M_() - 1) / 2) as nat;
    lemma_mpow_add(p, a_, h, h);
    lemma_mpow_add(p, a_, h + h, 1);
    assert(xp(a_, 1) == a_) by { reveal_with_fuel(mpow, 2); lemma_fmul_one_r(a_); vstd::arithmetic::div_mod::lemma_small_mod(1, p as nat); }
    assert(h + h + 1 == M_());
    assert(x5 == xp(a_, M_()));
    // (3) (A^M)^(2^47) == A^(q-1) == A * A^(q-2) == 1
    lemma_mpow_mul(p, a_, M_(), 140737488355328);
    assert(M_() * 140737488355328 == fq_p() - 1) by(compute_only);
    lemma_mpow_add(p, a_, 1, (p - 2) as nat);
    m_prime_fermat_(a_);
}
// the root: res = (uv * ns) * g^t with X5 * g^T == 1, 2t == T (+1), squares to num/den (times zeta)
pub proof fn lemma_sarkar_result(num: int, den: int, w: int, x5: int, tt: nat, t: nat, ns: int, res: int, odd: bool)
    requires in_fq(num), in_fq(den), in_fq(w), in_fq(ns),
        x5 == fmul(fmul(w, num), fmul(w, den)), fmul(x5, gp(tt)) == 1,
        res == fmul(fmul(fmul(w, num), ns), gp(t)),
        !odd ==> ns == 1 && 2 * t == tt,
        odd ==> ns == ZZ_() && 2 * t == tt + 1,
    ensures in_fq(res), !odd ==> fmul(fmul(res, res), den) == num, odd ==> fmul(fmul(res, res), den) == fmul(ZETA_(), num)
{
    let p = fq_p();
    let uv = fmul(w, num); let v = fmul(w, den); let gt = gp(t); let g5 = gp(tt);
    lemma_gp_add(t, t); lemma_gp_add(tt, 1);
    lemma_fmul_range(fmul(uv, ns), gt);
    // res ≡ w num ns gt
    lemma_cong_fmul(w, num); lemma_cong_fmul(w, den);
    lemma_cong_fmul(uv, ns); lemma_cong_mul(uv, w * num, ns, ns);
    lemma_cong_fmul(fmul(uv, ns), gt); lemma_cong_mul(fmul(uv, ns), (w * num) * ns, gt, gt);
    let r_ = ((w * num) * ns) * gt;
    assert(cong(res, r_));
    lemma_cong_fmul(res, res); lemma_cong_mul(res, r_, res, r_);
    lemma_cong_fmul(fmul(res, res), den); lemma_cong_mul(fmul(res, res), r_ * r_, den, den);
    assert(cong(fmul(fmul(res, res), den), (r_ * r_) * den));
    // regroup: (r_ r_) den == ((ns ns) (gt gt)) (num ((w num) (w den)))
    assert((r_ * r_) * den == ((ns * ns) * (gt * gt)) * (num * ((w * num) * (w * den)))) by(nonlinear_arith)
        requires r_ == ((w * num) * ns) * gt;
    // (w num)(w den) ≡ x5 ; gt gt ≡ gp(2t)
    lemma_cong_mul(w * num, uv, w * den, v); lemma_cong_fmul(uv, v);
    lemma_cong_fmul(gt, gt);
    assert(cong(gt * gt, gp(t + t)));
    lemma_cong_fmul(x5, g5);
    if !odd {
        assert(ns * ns == 1);
        assert(t + t == tt);
        // ((1)(g5)) (num x5)  ≡  num (x5 g5) ≡ num
        lemma_cong_mul(num, num, (w * num) * (w * den), x5);
        lemma_cong_mul(ns * ns, 1, gt * gt, g5); assert(1 * g5 == g5);
        lemma_cong_mul((ns * ns) * (gt * gt), g5, num * ((w * num) * (w * den)), num * x5);
        assert(g5 * (num * x5) == num * (x5 * g5)) by(nonlinear_arith);
        lemma_cong_mul(num, num, x5 * g5, 1);
        assert(num * 1 == num);
        lemma_fmul_range(fmul(res, res), den);
        lemma_cong_small(fmul(fmul(res, res), den), num);
    } else {
        assert(t + t == tt + 1);
        assert(gp(1) == G_()) by { reveal_with_fuel(mpow, 2); vstd::arithmetic::div_mod::lemma_small_mod(1, p as nat); lemma_fmul_one_r(G_()); }
        lemma_cong_fmul(g5, G_());
        // (ZZ ZZ) (g5 G) ≡ ((ZZ ZZ) G) g5 ≡ ZETA g5
        assert(fmul(fmul(ZZ_(), ZZ_()), G_()) == ZETA_()) by(compute_only);
        lemma_cong_fmul(ZZ_(), ZZ_()); lemma_cong_mul(fmul(ZZ_(), ZZ_()), ZZ_() * ZZ_(), G_(), G_()); lemma_cong_fmul(fmul(ZZ_(), ZZ_()), G_());
        assert(cong((ZZ_() * ZZ_()) * G_(), ZETA_()));
        lemma_cong_mul(ns * ns, ZZ_() * ZZ_(), gt * gt, g5 * G_());
        assert((ZZ_() * ZZ_()) * (g5 * G_()) == ((ZZ_() * ZZ_()) * G_()) * g5) by(nonlinear_arith);
        lemma_cong_mul((ZZ_() * ZZ_()) * G_(), ZETA_(), g5, g5);
        lemma_cong_mul(num, num, (w * num) * (w * den), x5);
        lemma_cong_mul((ns * ns) * (gt * gt), ZETA_() * g5, num * ((w * num) * (w * den)), num * x5);
        assert((ZETA_() * g5) * (num * x5) == (ZETA_() * num) * (x5 * g5)) by(nonlinear_arith);
        lemma_cong_mul(ZETA_() * num, ZETA_() * num, x5 * g5, 1);
        assert((ZETA_() * num) * 1 == ZETA_() * num);
        lemma_cong_fmul(ZETA_(), num);
        lemma_fmul_range(fmul(res, res), den); lemma_fmul_range(ZETA_(), num);
        lemma_cong_small(fmul(fmul(res, res), den), fmul(ZETA_(), num));
    }
}
