// ---- contracts of /repo functions that the curve layer calls and that are decided elsewhere:
//   Fq::sqrt_ratio_zeta            -> C09 (callers rely on the four-case contract only)
//   Fq::deserialize_compressed     -> arkworks default method over our deserialize_with_mode (C11 / unit fieldx_fq)
//   Fq::serialize_compressed       -> arkworks default method over our serialize_with_flags (C11 / unit fieldx_fq)
#[derive(Debug)]
pub struct SerializationError;
impl Fq {
    #[verifier::external_body]
    pub fn sqrt_ratio_zeta(num: &Self, den: &Self) -> (r: (bool, Self))
        ensures r.0 == isqrt_flag(num.val(), den.val()), r.1.val() == isqrt_root(num.val(), den.val())
    { unimplemented!() }
    // CanonicalDeserialize::deserialize_compressed on a byte slice reader: canonical 32-byte little-endian
    #[verifier::external_body]
    pub fn deserialize_compressed(reader: &[u8]) -> (r: Result<Fq, SerializationError>)
        ensures match r { Ok(v) => reader@.len() >= 32 && bytes_val(reader@.take(32)) < fq_p() && v.val() == bytes_val(reader@.take(32)),
                          Err(_) => reader@.len() < 32 || bytes_val(reader@.take(32)) >= fq_p() }
    { unimplemented!() }
    #[verifier::external_body]
    pub fn serialize_compressed(&self, writer: &mut [u8]) -> (r: Result<(), SerializationError>)
        ensures final(writer)@.len() == old(writer)@.len(),
                old(writer)@.len() >= 32 ==> r is Ok && bytes_val(final(writer)@.subrange(0, 32)) == self.val()
                    && final(writer)@.subrange(32, old(writer)@.len() as int) == old(writer)@.subrange(32, old(writer)@.len() as int),
    { unimplemented!() }
}
pub mod lazy {
    use super::*;
    // once_cell::Lazy statics of src/ark_curve/constants.rs (R3); values proved in unit `consts`
    #[verifier::external_body]
    pub fn ONE() -> (r: Fq) ensures r.val() == 1 { unimplemented!() }
    #[verifier::external_body]
    pub fn TWO() -> (r: Fq) ensures r.val() == 2 { unimplemented!() }
}
#[verifier::external_body]
pub exec const ZETA: Fq ensures ZETA.val() == ZETA_() { Fq::dummy_() }
