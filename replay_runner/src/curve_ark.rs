//! Curve probes for the arkworks build: the real decaf377 API against the affine reference of oracle.rs.
use crate::oracle::*;
use crate::Ctx;
use ark_ec::{AffineRepr, CurveGroup, Group, ScalarMul, VariableBaseMSM};
use ark_ff::{Field, PrimeField, Zero};
use ark_serialize::{CanonicalDeserialize, CanonicalSerialize};
use core::convert::{TryFrom, TryInto};
use decaf377::{Element, Encoding, Fq, Fr};
use std::collections::hash_map::DefaultHasher;
use std::hash::{Hash, Hasher};

type Affine = <Element as CurveGroup>::Affine;

fn fq_of(v: &N) -> Fq { Fq::from_le_bytes_mod_order(&le32(&(v % q()))) }
fn fr_of(v: &N) -> Fr { Fr::from_le_bytes_mod_order(&le32(&(v % r()))) }
fn enc(e: &Element) -> N { N::from_bytes_le(&e.vartime_compress().0) }
fn h<T: Hash>(t: &T) -> u64 { let mut s = DefaultHasher::new(); t.hash(&mut s); s.finish() }

/// elements with a known reference point, in several internal representations
fn samples(cx: &mut Ctx, iters: usize) -> Vec<(Element, Aff, String)> {
    let g = Element::GENERATOR;
    let mut out: Vec<(Element, Aff, String)> = Vec::new();
    let rr = r();
    let mut ks = vec![n(0), n(1), n(2), n(3), n(5), &rr - n(1), &rr - n(2), (&rr - n(1)) / n(2), (&rr + n(1)) / n(2), n(1) << 64, n(1) << 128];
    for _ in 0..iters.min(12) { ks.push(cx.rng.below(&rr)); }
    for k in ks.iter() {
        let want = smul(k, &gen());
        // (1) by scalar multiplication (Z != 1)
        out.push((g * fr_of(k), want.clone(), format!("G * {}", k)));
        // (2) the other coset representative: -( G * (r - k) )  and  (-1) * (G*(r-k)) ... as elements equal to [k]G
        let km = (&rr - (k % &rr)) % &rr;
        out.push((-(g * fr_of(&km)), want.clone(), format!("-(G * (r - {}))", k)));
        out.push(((g * fr_of(&km)) * fr_of(&(&rr - n(1))), want.clone(), format!("(G * (r - {})) * (r-1)", k)));
        // (3) normalised through the affine form (Z = 1)
        let a: Affine = (g * fr_of(k)).into_affine();
        out.push((a.into(), want.clone(), format!("affine(G * {})", k)));
    }
    out.push((Element::default(), id(), "default()".into()));
    out.push((Element::IDENTITY, id(), "IDENTITY".into()));
    // the identity reached the hard way: as the 2-torsion representative (0, -1), with Z = 1 and with Z != 1
    for k in [1u64, 2, 3, 6, 7, 12, 13] {
        let p = g * Fr::from(k);
        let dec = Encoding(p.vartime_compress().0).vartime_decompress().unwrap();
        out.push((p - dec, id(), format!("G*{} - decode(encode(G*{}))", k, k)));
        out.push((dec - p, id(), format!("decode(encode(G*{})) - G*{}", k, k)));
        let a: Affine = (p - dec).into_affine();
        out.push((a.into(), id(), format!("affine(G*{} - decode(encode(G*{})))", k, k)));
        out.push((p + p * fr_of(&(&rr - n(1))), id(), format!("G*{} + (r-1)*G*{}", k, k)));
        // negated decoded points and affine round trips of them (Z = 1, possibly the other coset member)
        let want = smul(&((&rr - n(k)) % &rr), &gen());
        out.push((-dec, want.clone(), format!("-decode(encode(G*{}))", k)));
        let a: Affine = (-dec).into_affine();
        out.push((a.into(), want.clone(), format!("affine(-decode(encode(G*{})))", k)));
    }
    out.push((g.mul_bigint(limbs_of(&rr)), id(), "G.mul_bigint(r)".into()));
    out
}
fn limbs_of(v: &N) -> Vec<u64> { let mut l: Vec<u64> = v.iter_u64_digits().collect(); if l.is_empty() { l.push(0); } l }

pub fn encode(cx: &mut Ctx, iters: usize) {
    for (e, want, how) in samples(cx, iters) {
        let d = || format!("element {}", how);
        let s = encode_aff(&want);
        cx.eq("vartime_compress == spec encoding", &d, e.vartime_compress().0, le32(&s));
        cx.eq("vartime_compress_to_field", &d, N::from_bytes_le(&e.vartime_compress_to_field().to_bytes()), s.clone());
        cx.eq("top three bits clear", &d, e.vartime_compress().0[31] >> 5, 0);
        let b: [u8; 32] = e.into(); cx.eq("From<Element> for [u8;32]", &d, b, le32(&s));
        let en: Encoding = e.into(); cx.eq("From<Element> for Encoding", &d, en.0, le32(&s));
        let en2: Encoding = (&e).into(); cx.eq("From<&Element> for Encoding", &d, en2.0, le32(&s));
        let mut buf = Vec::new(); e.serialize_compressed(&mut buf).unwrap(); cx.eq("CanonicalSerialize for Element", &d, buf, le32(&s).to_vec());
        let a: Affine = e.into(); let mut buf = Vec::new(); a.serialize_compressed(&mut buf).unwrap(); cx.eq("CanonicalSerialize for AffinePoint", &d, buf, le32(&s).to_vec());
        cx.eq("Debug shows the encoding", &d, format!("{:?}", e), format!("decaf377::Element({})", le32(&s).iter().map(|b| format!("{:02x}", b)).collect::<String>()));
        // round trip (C01)
        match Encoding(le32(&s)).vartime_decompress() { Ok(e2) => cx.eq("decode(encode(P)) == P", &d, e2 == e, true), Err(_) => cx.cex("decode(encode(P)) fails", d(), "Err".into(), "Ok".into()) }
    }
}

pub fn decode(cx: &mut Ctx, iters: usize) {
    let qq = q();
    let two256 = n(1) << 256;
    let mut cands: Vec<N> = Vec::new();
    for k in 0..200u64 { cands.push(n(k)); }
    for (_, p, _) in samples(cx, iters) {
        let s = encode_aff(&p);
        cands.push(s.clone()); cands.push(&s + &qq); cands.push(fq().neg(&s)); cands.push(&s + n(1)); if s > n(0) { cands.push(&s - n(1)); }
        for bit in [0usize, 1, 7, 8, 64, 128, 250, 251, 252, 253, 254, 255] { cands.push(&s ^ (n(1) << bit)); }
    }
    // valid and invalid encodings hugging the modulus and the limb boundaries
    for k in 0..300u64 { cands.push(&qq - n(1) - n(2 * k)); }
    for v in boundary(&qq) { cands.push(&v - (&v % n(2))); cands.push(v); }
    let top = &qq >> 192usize << 192usize;
    for k in 0..40u64 { cands.push(&top + n(2 * k)); if top > n(2 * k + 2) { cands.push(&top - n(2 * k + 2)); } }
    for v in [&qq - n(2), &qq - n(1), qq.clone(), &qq + n(1), &qq + n(2), n(1) << 253, (n(1) << 253) - n(1), &two256 - n(1), n(1) << 255, n(1) << 254, n(1) << 252] { cands.push(v); }
    for _ in 0..iters { cands.push(cx.rng.below(&two256)); { let v = cx.rng.below(&qq); cands.push(&v - (&v % n(2))); } }
    for v in cands.iter() {
        if v >= &two256 { continue; }
        let bytes = le32(v);
        let d = || format!("bytes {} (integer {})", bytes.iter().map(|b| format!("{:02x}", b)).collect::<String>(), v);
        let want = decode_bytes(&bytes);
        let got = Encoding(bytes).vartime_decompress();
        cx.eq("decode verdict", &d, got.is_ok(), want.is_some());
        if let (Ok(e), Some(p)) = (&got, &want) {
            cx.eq("decoded element re-encodes to the input (C01)", &d, e.vartime_compress().0, bytes);
            cx.eq("decoded element equals the specification's point", &d, enc(e), encode_aff(p));
        }
        if let Err(e) = &got { cx.eq("error kind", &d, format!("{:?}", e), "InvalidEncoding".to_string()); }
        // all entry points agree
        let v1 = Element::try_from(bytes).ok().map(|e| enc(&e));
        let v2 = Element::try_from(&bytes[..]).ok().map(|e| enc(&e));
        let v3 = Element::try_from(Encoding(bytes)).ok().map(|e| enc(&e));
        let v4 = Element::try_from(&Encoding(bytes)).ok().map(|e| enc(&e));
        let v5 = Element::deserialize_compressed(&bytes[..]).ok().map(|e| enc(&e));
        let v6 = Affine::deserialize_compressed(&bytes[..]).ok().map(|a| { let e: Element = a.into(); enc(&e) });
        let base = got.as_ref().ok().map(|e| enc(e));
        for (nm, vv) in [("TryFrom<[u8;32]>", v1), ("TryFrom<&[u8]>", v2), ("TryFrom<Encoding>", v3), ("TryFrom<&Encoding>", v4), ("CanonicalDeserialize Element", v5), ("CanonicalDeserialize AffinePoint", v6)] {
            cx.eq(&format!("entry point {} agrees with vartime_decompress", nm), &d, vv, base.clone());
        }
    }
    // stream entry points: anything but exactly 32 bytes must be refused, however the reader delivers them
    {
        struct Chunked<'a> { data: &'a [u8], pos: usize, step: usize }
        impl<'a> ark_std::io::Read for Chunked<'a> {
            fn read(&mut self, buf: &mut [u8]) -> ark_std::io::Result<usize> {
                let nb = buf.len().min(self.step).min(self.data.len() - self.pos);
                buf[..nb].copy_from_slice(&self.data[self.pos..self.pos + nb]);
                self.pos += nb;
                Ok(nb)
            }
        }
        let mut encs: Vec<[u8; 32]> = vec![[0u8; 32]];
        for k in 1..6u64 { encs.push((Element::GENERATOR * Fr::from(k)).vartime_compress().0); }
        let mut e8 = [0u8; 32]; e8[0] = 8; encs.push(e8);
        for e in encs.iter() {
            let full = Encoding(*e).vartime_decompress().ok().map(|x| enc(&x));
            for len in 0..32usize {
                let dd = || format!("first {} bytes of the encoding {:02x?}", len, e);
                cx.eq("short stream refused (Element)", &dd, Element::deserialize_compressed(&e[..len]).is_err(), true);
                cx.eq("short stream refused (Encoding)", &dd, Encoding::deserialize_compressed(&e[..len]).is_err(), true);
                cx.eq("short stream refused (AffinePoint)", &dd, Affine::deserialize_compressed(&e[..len]).is_err(), true);
            }
            for step in [1usize, 3, 7, 16, 31, 32, 64] {
                let dd = || format!("encoding {:02x?} delivered {} bytes per read", e, step);
                let got = Element::deserialize_compressed(Chunked { data: &e[..], pos: 0, step }).ok().map(|x| enc(&x));
                cx.eq("chunked reader: same verdict and element as the direct call", &dd, got, full.clone());
                let got = Affine::deserialize_compressed(Chunked { data: &e[..], pos: 0, step }).ok().map(|a| { let x: Element = a.into(); enc(&x) });
                cx.eq("chunked reader (AffinePoint): same verdict and element", &dd, got, full.clone());
            }
        }
    }
    for len in 0..=80usize {
        let bytes = vec![0u8; len];
        let d = || format!("slice of length {}", len);
        let r1 = Element::try_from(&bytes[..]);
        cx.eq("slice length verdict (Element)", &d, r1.is_ok(), len == 32);
        if len != 32 { cx.eq("length error kind", &d, format!("{:?}", r1.err().unwrap()), "InvalidSliceLength".to_string()); }
        cx.eq("slice length verdict (Encoding)", &d, Encoding::try_from(&bytes[..]).is_ok(), len == 32);
    }
}

pub fn ops(cx: &mut Ctx, iters: usize) {
    let ss = samples(cx, iters.min(6));
    let idx: Vec<usize> = (0..ss.len()).collect();
    for &i in idx.iter() {
        for &j in [i, (i * 7 + 3) % ss.len(), (i * 5 + 1) % ss.len(), ss.len() - 1, ss.len() - 2].iter() {
            let (p, rp, hp) = &ss[i]; let (o, ro, ho) = &ss[j];
            let (p, o) = (*p, *o);
            let d = || format!("P = {}, Q = {}", hp, ho);
            let sum = encode_aff(&te_add(rp, ro));
            let dif = encode_aff(&te_add(rp, &te_neg(ro)));
            let ap: Affine = p.into(); let ao: Affine = o.into();
            let ce = |cx: &mut Ctx, nm: &str, e: Element, w: &N| cx.eq(nm, &d, enc(&e), w.clone());
            ce(cx, "&P + &Q", &p + &o, &sum); ce(cx, "P + &Q", p + &o, &sum); ce(cx, "&P + Q", &p + o, &sum); ce(cx, "P + Q", p + o, &sum);
            ce(cx, "&P - &Q", &p - &o, &dif); ce(cx, "P - &Q", p - &o, &dif); ce(cx, "&P - Q", &p - o, &dif); ce(cx, "P - Q", p - o, &dif);
            let mut t = p; t += &o; ce(cx, "P += &Q", t, &sum); let mut t = p; t += o; ce(cx, "P += Q", t, &sum);
            let mut t = p; t -= &o; ce(cx, "P -= &Q", t, &dif); let mut t = p; t -= o; ce(cx, "P -= Q", t, &dif);
            ce(cx, "-P", -p, &encode_aff(&te_neg(rp))); ce(cx, "negate()", p.negate(), &encode_aff(&te_neg(rp)));
            ce(cx, "P + &affine Q", p + &ao, &sum); ce(cx, "P + affine Q", p + ao, &sum);
            ce(cx, "affine P + affine Q", ap + ao, &sum); ce(cx, "affine P + Q", ap + o, &sum); ce(cx, "affine P + &Q", ap + &o, &sum);
            ce(cx, "affine P + &affine Q", ap + &ao, &sum);
            ce(cx, "&affine P + &affine Q", (&ap + &ao).into(), &sum); ce(cx, "&affine P + affine Q", (&ap + ao).into(), &sum);
            let mut t = p; t += &ao; ce(cx, "P += &affine Q", t, &sum); let mut t = p; t += ao; ce(cx, "P += affine Q", t, &sum);
            let mut t = p; t -= &ao; ce(cx, "P -= &affine Q", t, &dif); let mut t = p; t -= ao; ce(cx, "P -= affine Q", t, &dif);
            ce(cx, "P - &affine Q", p - &ao, &dif); ce(cx, "P - affine Q", p - ao, &dif);
            ce(cx, "&affine P - &affine Q", (&ap - &ao).into(), &dif); ce(cx, "affine P - &affine Q", (ap - &ao).into(), &dif);
            ce(cx, "&affine P - affine Q", (&ap - ao).into(), &dif); ce(cx, "affine P - affine Q", (ap - ao).into(), &dif);
            let mut t = ap; t += &ao; ce(cx, "affine P += &affine Q", t.into(), &sum); let mut t = ap; t += ao; ce(cx, "affine P += affine Q", t.into(), &sum);
            let mut t = ap; t -= &ao; ce(cx, "affine P -= &affine Q", t.into(), &dif); let mut t = ap; t -= ao; ce(cx, "affine P -= affine Q", t.into(), &dif);
            ce(cx, "-affine P", (-ap).into(), &encode_aff(&te_neg(rp)));
            ce(cx, "Sum<Element>", [p, o, p].into_iter().sum(), &encode_aff(&te_add(&te_add(rp, ro), rp)));
            ce(cx, "Sum<&Element>", [p, o].iter().sum(), &sum);
            ce(cx, "Sum<AffinePoint>", [ap, ao].into_iter().sum(), &sum);
            ce(cx, "Sum<&AffinePoint>", [ap, ao].iter().sum(), &sum);
            let mut t = p; t.double_in_place(); ce(cx, "double_in_place", t, &encode_aff(&te_add(rp, rp)));
            ce(cx, "double", p.double(), &encode_aff(&te_add(rp, rp)));
        }
    }
}

pub fn mul(cx: &mut Ctx, iters: usize) {
    let ss = samples(cx, 3);
    let rr = r();
    let mut ks = boundary(&rr);
    for _ in 0..iters.min(16) { ks.push(cx.rng.below(&rr)); }
    for (p, rp, hp) in ss.iter().take(9) {
        let p = *p;
        let ap: Affine = p.into();
        for k in ks.iter() {
            let d = || format!("P = {}, k = {}", hp, k);
            let w = encode_aff(&smul(k, rp));
            let kk = fr_of(k);
            let ce = |cx: &mut Ctx, nm: &str, e: Element| cx.eq(nm, &d, enc(&e), w.clone());
            ce(cx, "&P * &k", &p * &kk); ce(cx, "&k * &P", &kk * &p); ce(cx, "P * &k", p * &kk); ce(cx, "&P * k", &p * kk); ce(cx, "P * k", p * kk);
            ce(cx, "k * &P", kk * &p); ce(cx, "&k * P", &kk * p); ce(cx, "k * P", kk * p);
            let mut t = p; t *= &kk; ce(cx, "P *= &k", t); let mut t = p; t *= kk; ce(cx, "P *= k", t);
            ce(cx, "&affine * &k", (&ap * &kk).into()); ce(cx, "&k * &affine", (&kk * &ap).into()); ce(cx, "affine * &k", ap * &kk); ce(cx, "&affine * k", (&ap * kk).into());
            ce(cx, "affine * k", ap * kk); ce(cx, "k * &affine", (kk * &ap).into()); ce(cx, "&k * affine", (&kk * ap).into()); ce(cx, "k * affine", (kk * ap).into());
            let mut t = ap; t *= &kk; ce(cx, "affine *= &k", t.into()); let mut t = ap; t *= kk; ce(cx, "affine *= k", t.into());
            ce(cx, "Group::mul_bigint", p.mul_bigint(kk.into_bigint()));
            ce(cx, "AffineRepr::mul_bigint", ap.mul_bigint(kk.into_bigint()));
        }
        // integers longer than the modulus
        for limbs in [vec![0u64, 0, 0, 0, 1], vec![u64::MAX; 5], vec![1, 0, 0, 0, 0, 0, 7]] {
            let kv = N::from_bytes_le(&limbs.iter().flat_map(|w| w.to_le_bytes()).collect::<Vec<u8>>());
            let d = || format!("P = {}, integer limbs {:?}", hp, limbs);
            cx.eq("mul_bigint (long integer)", &d, enc(&p.mul_bigint(&limbs[..])), encode_aff(&smul(&kv, rp)));
        }
        let d = || format!("P = {}", hp);
        cx.eq("[r]P is the identity", &d, (p * fr_of(&(&rr - n(1))) + p).is_identity(), true);
    }
    // multiscalar / MSM
    // four DIFFERENT non-identity elements in different internal representations (samples come in groups of four per scalar)
    let pick: Vec<usize> = [4usize, 9, 14, 19].iter().map(|i| i % ss.len()).collect();
    let pts: Vec<Element> = pick.iter().map(|&i| ss[i].0).collect();
    let rps: Vec<Aff> = pick.iter().map(|&i| ss[i].1.clone()).collect();
    let kv: Vec<N> = (0..4).map(|_| cx.rng.below(&rr)).collect();
    let kr: Vec<Fr> = kv.iter().map(fr_of).collect();
    let mut want = id();
    for i in 0..4 { want = te_add(&want, &smul(&kv[i], &rps[i])); }
    let d = || format!("scalars {:?}", kv);
    cx.eq("vartime_multiscalar_mul", &d, enc(&Element::vartime_multiscalar_mul(kr.iter(), pts.iter())), encode_aff(&want));
    for zero_at in 0..4usize {
        for second in [None, Some((zero_at + 1) % 4)] {
            let mut kz = kv.clone(); kz[zero_at] = n(0); if let Some(j) = second { kz[j] = n(0); }
            let krz: Vec<Fr> = kz.iter().map(fr_of).collect();
            let mut w = id();
            for i in 0..4 { w = te_add(&w, &smul(&kz[i], &rps[i])); }
            let dz = || format!("scalars {:?} (zero scalars at positions {} {:?})", kz, zero_at, second);
            cx.eq("vartime_multiscalar_mul with zero scalars", &dz, enc(&Element::vartime_multiscalar_mul(krz.iter(), pts.iter())), encode_aff(&w));
            // a zero that is computed rather than literal
            let mut krc = krz.clone(); krc[zero_at] = fr_of(&n(77)) + (-fr_of(&n(77)));
            cx.eq("vartime_multiscalar_mul with a computed zero scalar", &dz, enc(&Element::vartime_multiscalar_mul(krc.iter(), pts.iter())), encode_aff(&w));
            let b2 = Element::batch_convert_to_mul_base(&pts);
            cx.eq("VariableBaseMSM::msm with zero scalars", &dz, enc(&<Element as VariableBaseMSM>::msm(&b2, &krz).unwrap()), encode_aff(&w));
        }
    }
    let none_k: Vec<Fr> = Vec::new(); let none_p: Vec<Element> = Vec::new();
    cx.eq("vartime_multiscalar_mul of nothing", &d, enc(&Element::vartime_multiscalar_mul(none_k.iter(), none_p.iter())), n(0));
    cx.eq("vartime_multiscalar_mul by value", &d, enc(&Element::vartime_multiscalar_mul(kr.clone(), pts.clone())), encode_aff(&want));
    let bases = Element::batch_convert_to_mul_base(&pts);
    cx.eq("VariableBaseMSM::msm", &d, enc(&<Element as VariableBaseMSM>::msm(&bases, &kr).unwrap()), encode_aff(&want));
    cx.eq("generator is not the identity", &d, Element::GENERATOR.is_identity(), false);
}

pub fn elligator(cx: &mut Ctx, iters: usize) {
    let qq = q();
    let mut rs = boundary(&qq);
    for k in 0..48u32 { let e = (&qq - n(1)) >> (k as usize); rs.push(fq().pow(&n(15), &e)); } // elements of small 2-power order
    for _ in 0..iters { rs.push(cx.rng.below(&qq)); }
    for r0 in rs.iter() {
        let d = || format!("r0 = {}", r0);
        let w = encode_aff(&crate::oracle::elligator(r0));
        cx.eq("encode_to_curve == specification's Elligator map", &d, enc(&Element::encode_to_curve(&fq_of(r0))), w.clone());
        cx.eq("encode_to_curve(-r0) == encode_to_curve(r0)", &d, enc(&Element::encode_to_curve(&fq_of(&fq().neg(r0)))), w.clone());
        let e = Element::encode_to_curve(&fq_of(r0));
        cx.eq("output is a valid element", &d, Encoding(e.vartime_compress().0).vartime_decompress().map(|x| x == e).unwrap_or(false), true);
    }
    for i in 0..rs.len() {
        for j in [i, (i * 3 + 1) % rs.len()] {
            for neg in [false, true] {
                let r1 = &rs[i]; let r2 = if neg { fq().neg(&rs[j]) } else { rs[j].clone() };
                let d = || format!("r1 = {}, r2 = {}", r1, r2);
                let w = encode_aff(&te_add(&crate::oracle::elligator(r1), &crate::oracle::elligator(&r2)));
                cx.eq("hash_to_curve == map(r1) + map(r2)", &d, enc(&Element::hash_to_curve(&fq_of(r1), &fq_of(&r2))), w);
            }
        }
    }
}

pub fn eqhash(cx: &mut Ctx, iters: usize) {
    let ss = samples(cx, iters.min(6));
    for i in 0..ss.len() {
        for j in 0..ss.len() {
            let (p, rp, hp) = &ss[i]; let (o, ro, ho) = &ss[j];
            let d = || format!("P = {}, Q = {}", hp, ho);
            let same = encode_aff(rp) == encode_aff(ro);
            cx.eq("Element == iff same encoding", &d, p == o, same);
            let ap: Affine = (*p).into(); let ao: Affine = (*o).into();
            cx.eq("AffinePoint == iff same encoding", &d, ap == ao, same);
            if same {
                cx.eq("equal elements hash equally", &d, crate::curve_ark::h(p) == crate::curve_ark::h(o), true);
                cx.eq("equal affine points hash equally", &d, crate::curve_ark::h(&ap) == crate::curve_ark::h(&ao), true);
            }
        }
        let (p, rp, hp) = &ss[i];
        let d = || format!("P = {}", hp);
        let isid = rp.0 == n(0);
        cx.eq("is_identity", &d, p.is_identity(), isid);
        cx.eq("Zero::is_zero", &d, p.is_zero(), isid);
        cx.eq("== IDENTITY", &d, *p == Element::IDENTITY, isid);
        cx.eq("== default()", &d, *p == Element::default(), isid);
        let ap: Affine = (*p).into();
        cx.eq("AffineRepr::is_zero", &d, ap.is_zero(), isid);
        // every way of arriving at the identity (both curve points (0, 1) and (0, -1), any Z) is one element
        let minus_one = fr_of(&(r() - n(1)));
        let ids: Vec<(&str, Element)> = vec![("P - P", *p - *p), ("P + (-P)", *p + (-*p)), ("P + (r-1)*P", *p + *p * minus_one),
                                             ("(r-1)*P + P", *p * minus_one + *p), ("-(P - P)", -(*p - *p))];
        for (nm, z) in ids.iter() {
            let dz = || format!("P = {}, identity obtained as {}", hp, nm);
            let za: Affine = (*z).into();
            let da: Affine = Element::default().into();
            cx.eq("identity form == default()", &dz, *z == Element::default(), true);
            cx.eq("identity form hashes like default()", &dz, crate::curve_ark::h(z) == crate::curve_ark::h(&Element::default()), true);
            cx.eq("affine identity form == affine default", &dz, za == da, true);
            cx.eq("affine identity form hashes like affine default", &dz, crate::curve_ark::h(&za) == crate::curve_ark::h(&da), true);
            cx.eq("affine identity form is_zero", &dz, za.is_zero(), true);
            cx.eq("identity form encodes to zero bytes", &dz, z.vartime_compress().0, [0u8; 32]);
        }
        // the other representative of P (P + (0, -1)) as an affine point
        let two_torsion = *p + (Element::GENERATOR * minus_one + Element::GENERATOR);
        let (ta, pa): (Affine, Affine) = (two_torsion.into(), (*p).into());
        cx.eq("P + identity form: affine ==", &d, ta == pa, true);
        cx.eq("P + identity form: affine hash", &d, crate::curve_ark::h(&ta) == crate::curve_ark::h(&pa), true);
    }
}

pub fn ctor(cx: &mut Ctx, iters: usize) {
    let rr = r();
    let valid = |cx: &mut Ctx, what: &str, e: Element, input: String| {
        let d = || input.clone();
        let ok = Encoding(e.vartime_compress().0).vartime_decompress().map(|x| x == e).unwrap_or(false);
        cx.eq(&format!("{}: encoding decodes to an equal element", what), &d, ok, true);
        cx.eq(&format!("{}: r * P is the identity", what), &d, (e * fr_of(&(&rr - n(1))) + e).is_identity(), true);
        // the internal point is on the curve (affine form)
        let a: Affine = e.into();
        if let Some((x, y)) = a.xy() {
            let p = (N::from_bytes_le(&x.to_bytes()), N::from_bytes_le(&y.to_bytes()));
            cx.eq(&format!("{}: coordinates on the curve", what), &d, on_curve(&p), true);
        }
    };
    for i in 0..(iters as u32 * 4).max(200) {
        let mut bytes = [0u8; 32];
        bytes[..4].copy_from_slice(&i.to_le_bytes());
        bytes[7] = (cx.rng.next() & 0xff) as u8;
        if let Some(a) = Affine::from_random_bytes(&bytes) { valid(cx, "from_random_bytes", a.into(), format!("bytes {:02x?}", bytes)); }
    }
    // samplers: every RNG stream (structured: constant bytes, counters; and pseudo-random) yields a valid element
    {
        use ark_std::{rand::{RngCore, CryptoRng, Error}, UniformRand};
        // structured prefixes (a rejection sampler need not terminate on a purely structured stream, so every stream
        // turns pseudo-random after 48 draws)
        struct Stream { mode: u8, state: u64, calls: u64 }
        impl RngCore for Stream {
            fn next_u32(&mut self) -> u32 { (self.next_u64() >> 32) as u32 }
            fn next_u64(&mut self) -> u64 {
                self.calls += 1;
                match if self.calls % 97 > 48 { 1 } else { self.mode } {
                    0 => { self.state = self.state.wrapping_add(1); self.state }                      // counter
                    1 => { self.state ^= self.state << 13; self.state ^= self.state >> 7; self.state ^= self.state << 17; self.state }
                    _ => { self.state = self.state.wrapping_add(0x0101010101010101); if self.state % 5 == 0 { u64::MAX } else { self.state } }
                }
            }
            fn fill_bytes(&mut self, dest: &mut [u8]) { for ch in dest.chunks_mut(8) { let v = self.next_u64().to_le_bytes(); let n = ch.len(); ch.copy_from_slice(&v[..n]); } }
            fn try_fill_bytes(&mut self, dest: &mut [u8]) -> Result<(), Error> { self.fill_bytes(dest); Ok(()) }
        }
        impl CryptoRng for Stream {}
        for mode in 0..3u8 {
            let mut rng = Stream { mode, state: 0x9E3779B97F4A7C15 ^ (mode as u64), calls: 0 };
            for k in 0..(iters.max(32)) {
                let e = Element::rand(&mut rng);
                valid(cx, "Distribution<Element>::sample", e, format!("RNG stream mode {}, draw {}", mode, k));
                let a = Affine::rand(&mut rng);
                valid(cx, "Distribution<AffinePoint>::sample", a.into(), format!("RNG stream mode {}, draw {}", mode, k));
                let x = Fq::rand(&mut rng);
                cx.eq("Fq::rand is canonical", &|| format!("RNG stream mode {}, draw {}", mode, k), Fq::from_bytes_checked(&x.to_bytes()).is_ok(), true);
                let y = decaf377::Fr::rand(&mut rng);
                cx.eq("Fr::rand is canonical", &|| format!("RNG stream mode {}, draw {}", mode, k), decaf377::Fr::from_bytes_checked(&y.to_bytes()).is_ok(), true);
            }
        }
    }
    // samplers after a long run of rejections: the stream is scripted so that its first N candidate curve points are all ones
    // the sampler must reject (y is odd -- "negative" when read as an encoding -- and on the curve), then it turns pseudo-random
    {
        use ark_std::{rand::{Rng as _, RngCore, Error}, UniformRand};
        use ark_ff::{Field, PrimeField};
        struct X(u64);
        impl X { fn nx(&mut self) -> u64 { self.0 ^= self.0 << 13; self.0 ^= self.0 >> 7; self.0 ^= self.0 << 17; self.0 } }
        struct Tape { tape: Vec<u8>, pos: usize, rec: bool, inner: X }
        impl RngCore for Tape {
            fn next_u32(&mut self) -> u32 { let mut b = [0u8; 4]; self.fill_bytes(&mut b); u32::from_le_bytes(b) }
            fn next_u64(&mut self) -> u64 { let mut b = [0u8; 8]; self.fill_bytes(&mut b); u64::from_le_bytes(b) }
            fn fill_bytes(&mut self, dest: &mut [u8]) {
                if !self.rec && self.pos + dest.len() <= self.tape.len() {
                    dest.copy_from_slice(&self.tape[self.pos..self.pos + dest.len()]); self.pos += dest.len();
                } else {
                    for ch in dest.chunks_mut(8) { let v = self.inner.nx().to_le_bytes(); let k = ch.len(); ch.copy_from_slice(&v[..k]); }
                    if self.rec { self.tape.extend_from_slice(dest); }
                }
            }
            fn try_fill_bytes(&mut self, dest: &mut [u8]) -> Result<(), Error> { self.fill_bytes(dest); Ok(()) }
        }
        let on_curve_y = |y: &Fq| { let yy = y.square(); let den = -Fq::ONE - Fq::from(3021u64) * yy; match den.inverse() { Some(di) => ((Fq::ONE - yy) * di).sqrt().is_some(), None => false } };
        for (si, rounds) in [40usize, 130, 300, 1100].iter().enumerate() {
            let mut rec = Tape { tape: Vec::new(), pos: 0, rec: true, inner: X(0x2545F4914F6CDD1D ^ (cx.rng.next() | 1)) };
            let mut kept = 0;
            while kept < *rounds {
                let mark = rec.tape.len();
                let y = <Fq as UniformRand>::rand(&mut rec);
                let _greatest: bool = rec.gen();
                if y.into_bigint().0[0] & 1 == 1 && on_curve_y(&y) { kept += 1; } else { rec.tape.truncate(mark); }
            }
            for which in 0..2 {
                let mut rp = Tape { tape: rec.tape.clone(), pos: 0, rec: false, inner: X(0x9E3779B97F4A7C15 + si as u64) };
                let d = format!("RNG stream whose first {} candidate points must all be rejected", rounds);
                if which == 0 { let e = Element::rand(&mut rp); valid(cx, "Distribution<Element>::sample after a long run of rejections", e, d); }
                else { let a = Affine::rand(&mut rp); valid(cx, "Distribution<AffinePoint>::sample after a long run of rejections", a.into(), d); }
            }
        }
    }
    // uncompressed (de)serialisation: whatever the implementation does with Compress::No (the pinned code answers
    // unimplemented!()), it must not hand out a point outside the group
    {
        use ark_serialize::{Compress, Validate};
        let f = fq();
        let qq = q();
        let i = f.sqrt(&(&qq - n(1)));
        let mut pts: Vec<(String, N, N)> = vec![("(i, 0)".into(), i.clone(), n(0)), ("(-i, 0)".into(), f.neg(&i), n(0))];
        for k in [1u64, 2, 5] {
            let a: Affine = (Element::GENERATOR * Fr::from(k)).into_affine();
            let (x, y) = a.xy().map(|(x, y)| (N::from_bytes_le(&x.to_bytes()), N::from_bytes_le(&y.to_bytes()))).unwrap();
            pts.push((format!("G*{} + (i, 0)", k), f.mul(&i, &y), f.mul(&i, &x)));
            pts.push((format!("G*{} (a valid point)", k), x, y));
        }
        for (nm, x, y) in pts.iter() {
            let mut bytes = le32(x).to_vec(); bytes.extend_from_slice(&le32(y));
            for validate in [Validate::Yes, Validate::No] {
                let b2 = bytes.clone();
                let r = crate::no_panic_or(move || Affine::deserialize_with_mode(&b2[..], Compress::No, validate).ok());
                if let Some(Some(p)) = r { valid(cx, "AffinePoint::deserialize_with_mode(Compress::No)", p.into(), format!("64 bytes x||y of {}", nm)); } else { cx.n += 1; }
                let b3 = bytes.clone();
                let r = crate::no_panic_or(move || Element::deserialize_with_mode(&b3[..], Compress::No, validate).ok());
                if let Some(Some(p)) = r { valid(cx, "Element::deserialize_with_mode(Compress::No)", p, format!("64 bytes x||y of {}", nm)); } else { cx.n += 1; }
            }
        }
    }
    valid(cx, "AffineRepr::zero", Affine::zero().into(), "zero()".into());
    valid(cx, "AffineRepr::generator", Affine::generator().into(), "generator()".into());
    valid(cx, "Group::generator", <Element as Group>::generator(), "generator()".into());
    valid(cx, "Default", Element::default(), "default()".into());
    let a: Affine = Default::default(); valid(cx, "Default (affine)", a.into(), "default()".into());
    // batch conversion / normalisation with mixed Z
    let ss = samples(cx, 2);
    let n_ = ss.len();
    for rot in 0..n_.min(8) {
        let batch: Vec<Element> = (0..5).map(|k| ss[(rot + k * 3) % n_].0).collect();
        let want: Vec<N> = (0..5).map(|k| encode_aff(&ss[(rot + k * 3) % n_].1)).collect();
        let how: Vec<String> = (0..5).map(|k| ss[(rot + k * 3) % n_].2.clone()).collect();
        let d = || format!("batch {:?}", how);
        let out = Element::normalize_batch(&batch);
        for (k, a) in out.iter().enumerate() {
            let e: Element = (*a).into();
            cx.eq("normalize_batch element", &d, enc(&e), want[k].clone());
            valid(cx, "normalize_batch", e, d());
        }
        let out = Element::batch_convert_to_mul_base(&batch);
        for (k, a) in out.iter().enumerate() {
            let e: Element = (*a).into();
            cx.eq("batch_convert_to_mul_base element", &d, enc(&e), want[k].clone());
            valid(cx, "batch_convert_to_mul_base", e, d());
        }
        for (k, e) in batch.iter().enumerate() { let a = e.into_affine(); let e2: Element = a.into(); cx.eq("into_affine", &d, enc(&e2), want[k].clone()); }
    }
}

/// C09 bounded stand-in: structured inputs for the table-driven square root
pub fn sqrt(cx: &mut Ctx, iters: usize) {
    let f = fq();
    let qq = q();
    let m = (&qq - n(1)) >> 47;
    let g = f.pow(&zeta(), &m);                     // generator of the 2-primary subgroup (order 2^47)
    let mut ratios: Vec<N> = vec![n(0), n(1), zeta(), f.sq(&zeta())];
    for k in 0..48usize { ratios.push(f.pow(&g, &(n(1) << k))); }          // roots of unity of every order 2^k
    for k in 0..40u64 { ratios.push(f.pow(&zeta(), &n(k))); }
    // every value of every 8-bit window digit, other digits zero / all ones
    for w in 0..6usize {
        let shift = [0usize, 7, 15, 23, 31, 39][w];
        for dgt in 0..256u64 {
            for fill in [n(0), (n(1) << 47) - n(1)] {
                let width = if w == 0 { 7 } else { 8 };
                let mask = ((n(1) << width) - n(1)) << shift;
                let keep = &fill - (&fill & &mask); let e = (keep | (n(dgt) << shift)) % (n(1) << 47);
                ratios.push(f.pow(&g, &e));
            }
        }
    }
    for _ in 0..iters { ratios.push(cx.rng.below(&qq)); }
    let odd = [n(1), n(3), f.pow(&n(7), &(n(1) << 47)), f.pow(&n(11), &(n(1) << 47))];     // odd-order cofactors
    let mut cnt = 0usize;
    for x in ratios.iter() {
        for c in odd.iter() {
            cnt += 1;
            if cnt % 4 != 0 && ratios.len() > 2000 && cx.n > 40000 { continue; }
            let ratio = f.mul(x, c);
            for den in [n(1), n(5), cx.rng.below(&qq)] {
                if den == n(0) { continue; }
                let num = f.mul(&ratio, &den);
                let d = || format!("num = {}, den = {}", num, den);
                let (ws, y) = Fq::sqrt_ratio_zeta(&fq_of(&num), &fq_of(&den));
                cx.eq("sqrt_ratio_zeta four-case contract", &d, isqrt_ok(&num, &den, ws, &N::from_bytes_le(&y.to_bytes())), true);
            }
        }
    }
    let d = || "zero operands".to_string();
    let (ws, y) = Fq::sqrt_ratio_zeta(&fq_of(&n(0)), &fq_of(&n(0))); cx.eq("(0,0)", &d, (ws, y == Fq::ZERO), (true, true));
    let (ws, y) = Fq::sqrt_ratio_zeta(&fq_of(&n(5)), &fq_of(&n(0))); cx.eq("(5,0)", &d, (ws, y == Fq::ZERO), (false, true));
    for a in ratios.iter().take(200) {
        let d = || format!("a = {}", a);
        let x = fq_of(a);
        match x.sqrt() { Some(s) => cx.eq("Field::sqrt squares back", &d, s.square() == x, true), None => cx.eq("Field::sqrt None iff non-square", &d, f.is_sq(a), false) }
        let leg = x.legendre();
        cx.eq("legendre agrees with Euler", &d, format!("{:?}", leg), (if a == &n(0) { "Zero" } else if f.is_sq(a) { "QuadraticResidue" } else { "QuadraticNonResidue" }).to_string());
    }
}

/// C16 bounded stand-in: the crate's engine against the reference ark_bls12_377 on sampled inputs
pub fn bls(cx: &mut Ctx, iters: usize) {
    use ark_ec::pairing::Pairing;
    use decaf377::Bls12_377 as Ours;
    use ark_bls12_377::Bls12_377 as Ref;
    type G1o = <Ours as Pairing>::G1; type G2o = <Ours as Pairing>::G2;
    type G1r = <Ref as Pairing>::G1; type G2r = <Ref as Pairing>::G2;
    let ser = |x: &dyn Fn(&mut Vec<u8>)| { let mut v = Vec::new(); x(&mut v); v };
    let d = || "generators".to_string();
    cx.eq("G1 generator bytes", &d, ser(&|v| G1o::generator().serialize_compressed(v).unwrap()), ser(&|v| G1r::generator().serialize_compressed(v).unwrap()));
    cx.eq("G2 generator bytes", &d, ser(&|v| G2o::generator().serialize_compressed(v).unwrap()), ser(&|v| G2r::generator().serialize_compressed(v).unwrap()));
    for i in 0..iters.min(6) {
        let a = cx.rng.below(&r()); let b = cx.rng.below(&r());
        let d = || format!("a = {}, b = {} (#{})", a, b, i);
        let ao = <Ours as Pairing>::ScalarField::from_le_bytes_mod_order(&le32(&a)); let bo = <Ours as Pairing>::ScalarField::from_le_bytes_mod_order(&le32(&b));
        let ar = <Ref as Pairing>::ScalarField::from_le_bytes_mod_order(&le32(&a)); let br = <Ref as Pairing>::ScalarField::from_le_bytes_mod_order(&le32(&b));
        let p1o = G1o::generator() * ao; let p2o = G2o::generator() * bo;
        let p1r = G1r::generator() * ar; let p2r = G2r::generator() * br;
        cx.eq("aG1 bytes", &d, ser(&|v| p1o.serialize_compressed(v).unwrap()), ser(&|v| p1r.serialize_compressed(v).unwrap()));
        cx.eq("bG2 bytes", &d, ser(&|v| p2o.serialize_compressed(v).unwrap()), ser(&|v| p2r.serialize_compressed(v).unwrap()));
        let eo = Ours::pairing(p1o, p2o); let er = Ref::pairing(p1r, p2r);
        cx.eq("pairing output bytes", &d, ser(&|v| eo.serialize_compressed(v).unwrap()), ser(&|v| er.serialize_compressed(v).unwrap()));
        let lhs = Ours::pairing(G1o::generator(), G2o::generator()) * (ao * bo);
        cx.eq("bilinearity", &d, eo == lhs, true);
        // Frobenius of the target field for all twelve powers
        for k in 0..12usize {
            let mut xo = eo.0; xo.frobenius_map_in_place(k);
            let mut xr = er.0; xr.frobenius_map_in_place(k);
            cx.eq(&format!("Fp12 frobenius power {}", k), &d, ser(&|v| xo.serialize_compressed(v).unwrap()), ser(&|v| xr.serialize_compressed(v).unwrap()));
        }
    }
    let d = || "non-degeneracy".to_string();
    cx.eq("e(G1,G2) != 1", &d, Ours::pairing(G1o::generator(), G2o::generator()).is_zero(), false);
}
