//! R1CS gadget probes (features r1cs): honest synthesis on structured inputs, and the replay of known finding D6.
use crate::oracle::*;
use crate::Ctx;
use ark_r1cs_std::prelude::*;
use ark_r1cs_std::R1CSVar;
use ark_relations::r1cs::{ConstraintSystem, ConstraintSystemRef};
use decaf377::r1cs::fqvar_ext::FqVarExtension;
use decaf377::r1cs::{ElementVar, FqVar};
use decaf377::{Element, Encoding, Fq};

fn fq_of(v: &N) -> Fq { Fq::from_le_bytes_mod_order(&le32(&(v % q()))) }
fn val(x: &Fq) -> N { N::from_bytes_le(&x.to_bytes()) }
fn new_cs() -> ConstraintSystemRef<Fq> { ConstraintSystem::<Fq>::new_ref() }

pub fn d6(cx: &mut Ctx) {
    let f = fq();
    let qq = q();
    // (b) isqrt gadget, honest hints: output equals the native routine, constraints satisfied (C13)
    let mut dens = vec![n(0), n(1), n(2), zeta(), f.sq(&zeta()), &qq - n(1), n(4), n(9)];
    for _ in 0..24 { dens.push(cx.rng.below(&qq)); }
    for den in dens.iter() {
        let d = || format!("isqrt gadget input {}", den);
        let cs = new_cs();
        let v = FqVar::new_witness(cs.clone(), || Ok(fq_of(den))).unwrap();
        let (ws, y) = v.isqrt().unwrap();
        let (nws, ny) = Fq::sqrt_ratio_zeta(&Fq::ONE, &fq_of(den));
        cx.eq("isqrt gadget: honest synthesis is satisfied", &d, cs.is_satisfied().unwrap(), true);
        cx.eq("isqrt gadget flag == native", &d, ws.value().unwrap(), nws);
        cx.eq("isqrt gadget root == native", &d, val(&y.value().unwrap()), val(&ny));
        cx.eq("isqrt gadget output meets the four-case contract", &d, isqrt_ok(&n(1), den, ws.value().unwrap(), &val(&y.value().unwrap())), true);
    }
    // (a) decode gadget: satisfied exactly when native decoding succeeds, and then the values agree (C13 / C14)
    let mut ss: Vec<N> = (0..64u64).map(n).collect();
    for k in 1..8u64 { let e = Element::GENERATOR * decaf377::Fr::from(k); ss.push(N::from_bytes_le(&e.vartime_compress().0)); }
    ss.extend([&qq - n(1), &qq - n(2), &qq - n(3), (&qq - n(1)) / n(2)]);
    for _ in 0..24 { let v = cx.rng.below(&qq); ss.push(&v - (&v % n(2))); ss.push(v); }
    for s in ss.iter() {
        let d = || format!("decode gadget, encoding s = {}", s);
        let native = Encoding(le32(s)).vartime_decompress();
        let cs = new_cs();
        let sv = FqVar::new_witness(cs.clone(), || Ok(fq_of(s))).unwrap();
        let out = ElementVar::decompress_from_field(sv);
        let sat = out.is_ok() && cs.is_satisfied().unwrap();
        if s == &(&qq - n(1)) {
            // known finding D6 concerns *substituted* hints for this input; the honest prover must still be rejected
            cx.eq("decode gadget (honest prover) rejects s = q-1", &d, sat, false);
            continue;
        }
        cx.eq("decode gadget satisfied iff native decoding succeeds", &d, sat, native.is_ok());
        if let (Ok(ev), Ok(ne)) = (&out, &native) {
            if sat { cx.eq("decode gadget value == native element", &d, ev.value().unwrap() == *ne, true); }
        }
    }
    // (c) encode / Elligator gadgets equal native on sample points
    for k in 0..12u64 {
        let e = Element::GENERATOR * decaf377::Fr::from(k);
        let d = || format!("element G * {}", k);
        let cs = new_cs();
        let ev = ElementVar::new_witness(cs.clone(), || Ok(e)).unwrap();
        let enc = ev.compress_to_field().unwrap();
        cx.eq("encode gadget satisfied", &d, cs.is_satisfied().unwrap(), true);
        cx.eq("encode gadget == native", &d, val(&enc.value().unwrap()), val(&e.vartime_compress_to_field()));
    }
    for r0 in boundary(&qq).iter().take(24) {
        let d = || format!("r0 = {}", r0);
        let cs = new_cs();
        let rv = FqVar::new_witness(cs.clone(), || Ok(fq_of(r0))).unwrap();
        let ev = ElementVar::encode_to_curve(&rv).unwrap();
        cx.eq("Elligator gadget satisfied", &d, cs.is_satisfied().unwrap(), true);
        cx.eq("Elligator gadget == native", &d, ev.value().unwrap() == Element::encode_to_curve(&fq_of(r0)), true);
    }
}

fn limbs4(v: &N) -> [u64; 4] { let mut l: Vec<u64> = v.iter_u64_digits().collect(); l.resize(4, 0); [l[0], l[1], l[2], l[3]] }

/// replay of known finding D6 through the hint-override hook of /repo (`--cfg decaf377_verif`): decode s = q-1
/// in-circuit while the prover claims (was_square = true, y = 1).  True iff the REAL constraint system is satisfied.
pub fn d6_replay() -> bool {
    use decaf377::r1cs::fqvar_ext::verif_hook;
    let s = q() - n(1);
    verif_hook::set(Some((true, limbs4(&n(1)))));
    let cs = new_cs();
    let sv = FqVar::new_witness(cs.clone(), || Ok(fq_of(&s))).unwrap();
    let out = ElementVar::decompress_from_field(sv);
    verif_hook::set(None);
    out.is_ok() && cs.is_satisfied().unwrap_or(false) && Encoding(le32(&s)).vartime_decompress().is_err()
}

/// C14 bounded stand-in: adversarial hint pairs drawn from the set of the property's quantifier
/// (0, +-1, +-sqrt(1/x), +-sqrt(zeta/x), random) for structured gadget inputs.  A satisfied system whose output
/// disagrees with the native result (or whose input the native code rejects) is a counterexample -- except inside
/// the region of known finding D6 (isqrt input 0 with the claim was_square = true), which is reported separately.
pub fn hints(cx: &mut Ctx) {
    use decaf377::r1cs::fqvar_ext::verif_hook;
    let f = fq();
    let qq = q();
    let cand = |x: &N, cx: &mut Ctx| -> Vec<(bool, N)> {
        let mut ys = vec![n(0), n(1), &qq - n(1), cx.rng.below(&qq)];
        if x != &n(0) {
            let xi = f.inv(x);
            if f.is_sq(&xi) { let r = f.sqrt(&xi); ys.push(f.neg(&r)); ys.push(r); }
            let zx = f.mul(&zeta(), &xi);
            if f.is_sq(&zx) { let r = f.sqrt(&zx); ys.push(f.neg(&r)); ys.push(r); }
        }
        let mut out = Vec::new();
        for y in ys { out.push((true, y.clone())); out.push((false, y)); }
        out
    };
    // isqrt gadget itself
    let mut dens = vec![n(0), n(1), n(2), zeta(), &qq - n(1), n(4)];
    for _ in 0..8 { dens.push(cx.rng.below(&qq)); }
    for den in dens.iter() {
        for (flag, y) in cand(den, cx) {
            let d = || format!("isqrt gadget input {}, hint (was_square = {}, y = {})", den, flag, y);
            verif_hook::set(Some((flag, limbs4(&y))));
            let cs = new_cs();
            let v = FqVar::new_witness(cs.clone(), || Ok(fq_of(den))).unwrap();
            let r = v.isqrt();
            verif_hook::set(None);
            if r.is_ok() && cs.is_satisfied().unwrap() {
                if den == &n(0) && flag { continue; }    // known finding D6 region
                cx.eq("isqrt gadget: a satisfying hint must meet the four-case contract", &d, isqrt_ok(&n(1), den, flag, &y), true);
            } else { cx.n += 1; }
        }
    }
    // decode gadget
    let mut ss: Vec<N> = (0..24u64).map(n).collect();
    for k in 1..5u64 { let e = Element::GENERATOR * decaf377::Fr::from(k); ss.push(N::from_bytes_le(&e.vartime_compress().0)); }
    ss.extend([&qq - n(1), &qq - n(2), &qq - n(3)]);
    for _ in 0..8 { let v = cx.rng.below(&qq); ss.push(&v - (&v % n(2))); }
    for s in ss.iter() {
        let ssq = f.sq(s); let u1 = f.sub(&n(1), &ssq);
        let u2 = f.sub(&f.sq(&u1), &f.mul(&f.mul(&n(4), &d()), &ssq));
        let den = f.mul(&u2, &f.sq(&u1));
        let native = Encoding(le32(s)).vartime_decompress();
        for (flag, y) in cand(&den, cx) {
            let dd = || format!("decode gadget, s = {}, hint (was_square = {}, y = {})", s, flag, y);
            verif_hook::set(Some((flag, limbs4(&y))));
            let cs = new_cs();
            let sv = FqVar::new_witness(cs.clone(), || Ok(fq_of(s))).unwrap();
            let out = ElementVar::decompress_from_field(sv);
            verif_hook::set(None);
            if out.is_ok() && cs.is_satisfied().unwrap() {
                if den == n(0) && flag { continue; }     // known finding D6 region (s = q-1)
                cx.eq("decode gadget: satisfiable only if the native decoder accepts", &dd, native.is_ok(), true);
                if let (Ok(ev), Ok(ne)) = (&out, &native) { cx.eq("decode gadget: output equals the native element", &dd, ev.value().unwrap() == *ne, true); }
            } else { cx.n += 1; }
        }
    }
}
