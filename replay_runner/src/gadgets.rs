//! R1CS gadget probes (features r1cs): honest synthesis on structured inputs, and the replay of known finding D6.
use crate::oracle::*;
use crate::Ctx;
use ark_r1cs_std::prelude::*;
use ark_r1cs_std::R1CSVar;
use ark_relations::r1cs::{ConstraintSystem, ConstraintSystemRef};
use decaf377::r1cs::fqvar_ext::FqVarExtension;
use decaf377::r1cs::{ElementVar, FqVar};
use decaf377::{Element, Encoding, Fq};

fn fq_of(v: &N) -> Fq { Fq::from_le_bytes_mod_order(&le32(&(v % q()))) }
fn val(x: &Fq) -> N { N::from_bytes_le(&x.to_bytes()) }
fn new_cs() -> ConstraintSystemRef<Fq> { ConstraintSystem::<Fq>::new_ref() }

pub fn d6(cx: &mut Ctx) {
    let f = fq();
    let qq = q();
    // (b) isqrt gadget, honest hints: output equals the native routine, constraints satisfied (C13)
    let mut dens = vec![n(0), n(1), n(2), zeta(), f.sq(&zeta()), &qq - n(1), n(4), n(9)];
    for _ in 0..24 { dens.push(cx.rng.below(&qq)); }
    for den in dens.iter() {
        let d = || format!("isqrt gadget input {}", den);
        let cs = new_cs();
        let v = FqVar::new_witness(cs.clone(), || Ok(fq_of(den))).unwrap();
        let (ws, y) = v.isqrt().unwrap();
        let (nws, ny) = Fq::sqrt_ratio_zeta(&Fq::ONE, &fq_of(den));
        cx.eq("isqrt gadget: honest synthesis is satisfied", &d, cs.is_satisfied().unwrap(), true);
        cx.eq("isqrt gadget flag == native", &d, ws.value().unwrap(), nws);
        cx.eq("isqrt gadget root == native", &d, val(&y.value().unwrap()), val(&ny));
        cx.eq("isqrt gadget output meets the four-case contract", &d, isqrt_ok(&n(1), den, ws.value().unwrap(), &val(&y.value().unwrap())), true);
    }
    // (a) decode gadget: satisfied exactly when native decoding succeeds, and then the values agree (C13 / C14)
    let mut ss: Vec<N> = (0..64u64).map(n).collect();
    for k in 1..8u64 { let e = Element::GENERATOR * decaf377::Fr::from(k); ss.push(N::from_bytes_le(&e.vartime_compress().0)); }
    ss.extend([&qq - n(1), &qq - n(2), &qq - n(3), (&qq - n(1)) / n(2)]);
    for _ in 0..24 { let v = cx.rng.below(&qq); ss.push(&v - (&v % n(2))); ss.push(v); }
    for s in ss.iter() {
        let d = || format!("decode gadget, encoding s = {}", s);
        let native = Encoding(le32(s)).vartime_decompress();
        let cs = new_cs();
        let sv = FqVar::new_witness(cs.clone(), || Ok(fq_of(s))).unwrap();
        let out = ElementVar::decompress_from_field(sv);
        let sat = out.is_ok() && cs.is_satisfied().unwrap();
        if s == &(&qq - n(1)) {
            // known finding D6 concerns *substituted* hints for this input; the honest prover must still be rejected
            cx.eq("decode gadget (honest prover) rejects s = q-1", &d, sat, false);
            continue;
        }
        cx.eq("decode gadget satisfied iff native decoding succeeds", &d, sat, native.is_ok());
        if let (Ok(ev), Ok(ne)) = (&out, &native) {
            if sat { cx.eq("decode gadget value == native element", &d, ev.value().unwrap() == *ne, true); }
        }
    }
    // (c) encode / Elligator gadgets equal native on sample points
    for k in 0..12u64 {
        let e = Element::GENERATOR * decaf377::Fr::from(k);
        let d = || format!("element G * {}", k);
        let cs = new_cs();
        let ev = ElementVar::new_witness(cs.clone(), || Ok(e)).unwrap();
        let enc = ev.compress_to_field().unwrap();
        cx.eq("encode gadget satisfied", &d, cs.is_satisfied().unwrap(), true);
        cx.eq("encode gadget == native", &d, val(&enc.value().unwrap()), val(&e.vartime_compress_to_field()));
    }
    for r0 in boundary(&qq).iter().take(24) {
        let d = || format!("r0 = {}", r0);
        let cs = new_cs();
        let rv = FqVar::new_witness(cs.clone(), || Ok(fq_of(r0))).unwrap();
        let ev = ElementVar::encode_to_curve(&rv).unwrap();
        cx.eq("Elligator gadget satisfied", &d, cs.is_satisfied().unwrap(), true);
        cx.eq("Elligator gadget == native", &d, ev.value().unwrap() == Element::encode_to_curve(&fq_of(r0)), true);
    }
}

fn limbs4(v: &N) -> [u64; 4] { let mut l: Vec<u64> = v.iter_u64_digits().collect(); l.resize(4, 0); [l[0], l[1], l[2], l[3]] }

/// replay of known finding D6 through the hint-override hook of /repo (`--cfg decaf377_verif`): decode s = q-1
/// in-circuit while the prover claims (was_square = true, y = 1).  True iff the REAL constraint system is satisfied.
pub fn d6_replay() -> bool {
    use decaf377::r1cs::fqvar_ext::verif_hook;
    let s = q() - n(1);
    verif_hook::set(Some((true, limbs4(&n(1)))));
    let cs = new_cs();
    let sv = FqVar::new_witness(cs.clone(), || Ok(fq_of(&s))).unwrap();
    let out = ElementVar::decompress_from_field(sv);
    verif_hook::set(None);
    out.is_ok() && cs.is_satisfied().unwrap_or(false) && Encoding(le32(&s)).vartime_decompress().is_err()
}

/// C14 bounded stand-in: adversarial hint pairs drawn from the set of the property's quantifier
/// (0, +-1, +-sqrt(1/x), +-sqrt(zeta/x), random) for structured gadget inputs.  A satisfied system whose output
/// disagrees with the native result (or whose input the native code rejects) is a counterexample -- except inside
/// the region of known finding D6 (isqrt input 0 with the claim was_square = true), which is reported separately.
pub fn hints(cx: &mut Ctx) {
    use decaf377::r1cs::fqvar_ext::verif_hook;
    let f = fq();
    let qq = q();
    let cand = |x: &N, cx: &mut Ctx| -> Vec<(bool, N)> {
        let mut ys = vec![n(0), n(1), &qq - n(1), cx.rng.below(&qq)];
        if x != &n(0) {
            let xi = f.inv(x);
            if f.is_sq(&xi) { let r = f.sqrt(&xi); ys.push(f.neg(&r)); ys.push(r); }
            let zx = f.mul(&zeta(), &xi);
            if f.is_sq(&zx) { let r = f.sqrt(&zx); ys.push(f.neg(&r)); ys.push(r); }
        }
        let mut out = Vec::new();
        for y in ys { out.push((true, y.clone())); out.push((false, y)); }
        out
    };
    // isqrt gadget itself
    let mut dens = vec![n(0), n(1), n(2), zeta(), &qq - n(1), n(4)];
    for _ in 0..8 { dens.push(cx.rng.below(&qq)); }
    for den in dens.iter() {
        for (flag, y) in cand(den, cx) {
            let d = || format!("isqrt gadget input {}, hint (was_square = {}, y = {})", den, flag, y);
            verif_hook::set(Some((flag, limbs4(&y))));
            let cs = new_cs();
            let v = FqVar::new_witness(cs.clone(), || Ok(fq_of(den))).unwrap();
            let r = v.isqrt();
            verif_hook::set(None);
            if r.is_ok() && cs.is_satisfied().unwrap() {
                if den == &n(0) && flag { continue; }    // known finding D6 region
                cx.eq("isqrt gadget: a satisfying hint must meet the four-case contract", &d, isqrt_ok(&n(1), den, flag, &y), true);
            } else { cx.n += 1; }
        }
    }
    // decode gadget
    let mut ss: Vec<N> = (0..24u64).map(n).collect();
    for k in 1..5u64 { let e = Element::GENERATOR * decaf377::Fr::from(k); ss.push(N::from_bytes_le(&e.vartime_compress().0)); }
    ss.extend([&qq - n(1), &qq - n(2), &qq - n(3)]);
    for _ in 0..8 { let v = cx.rng.below(&qq); ss.push(&v - (&v % n(2))); }
    for s in ss.iter() {
        let ssq = f.sq(s); let u1 = f.sub(&n(1), &ssq);
        let u2 = f.sub(&f.sq(&u1), &f.mul(&f.mul(&n(4), &d()), &ssq));
        let den = f.mul(&u2, &f.sq(&u1));
        let native = Encoding(le32(s)).vartime_decompress();
        for (flag, y) in cand(&den, cx) {
            let dd = || format!("decode gadget, s = {}, hint (was_square = {}, y = {})", s, flag, y);
            verif_hook::set(Some((flag, limbs4(&y))));
            let cs = new_cs();
            let sv = FqVar::new_witness(cs.clone(), || Ok(fq_of(s))).unwrap();
            let out = ElementVar::decompress_from_field(sv);
            verif_hook::set(None);
            if out.is_ok() && cs.is_satisfied().unwrap() {
                if den == n(0) && flag { continue; }     // known finding D6 region (s = q-1)
                cx.eq("decode gadget: satisfiable only if the native decoder accepts", &dd, native.is_ok(), true);
                if let (Ok(ev), Ok(ne)) = (&out, &native) { cx.eq("decode gadget: output equals the native element", &dd, ev.value().unwrap() == *ne, true); }
            } else { cx.n += 1; }
        }
    }
}

// ---------------------------------------------------------------------------------------------------------------
/// C13 bounded stand-in for the lazy variable: every construction route x every pattern of forcing the cached
/// encoding / element (0, 1 or 2 times, either order) before and after every group operation.  Values must equal
/// the native ones, the system must stay satisfied, and forcing something already forced must add no constraint.
pub fn lazy(cx: &mut Ctx) {
    use ark_ec::CurveGroup;
    type Affine = <Element as CurveGroup>::Affine;
    let mut elems: Vec<(String, Element)> = Vec::new();
    for k in [0u64, 1, 2, 3, 7, 12] { elems.push((format!("G*{}", k), Element::GENERATOR * decaf377::Fr::from(k))); }
    elems.push(("G + (-G) (other representative of the identity)".into(), Element::GENERATOR + (-Element::GENERATOR)));
    elems.push(("hash(5)".into(), Element::encode_to_curve(&Fq::from(5u64))));
    let other = Element::GENERATOR * decaf377::Fr::from(5u64);
    let enc_of = |e: &Element| val(&e.vartime_compress_to_field());
    for (name, e) in elems.iter() {
        for route in 0..6u32 {
            for pre in 0..5u32 {
                for op in 0..16u32 {
                    for post in 0..3u32 {
                        let d = || format!("element {}, route {}, forcing-before {}, op {}, forcing-after {}", name, route, pre, op, post);
                        let cs = new_cs();
                        let v: ElementVar = match route {
                            0 => ElementVar::new_witness(cs.clone(), || Ok(*e)).unwrap(),
                            1 => <ElementVar as AllocVar<Affine, Fq>>::new_witness(cs.clone(), || Ok(e.into_affine())).unwrap(),
                            2 => ElementVar::new_input(cs.clone(), || Ok(*e)).unwrap(),
                            3 => ElementVar::new_constant(cs.clone(), *e).unwrap(),
                            4 => <ElementVar as AllocVar<Fq, Fq>>::new_witness(cs.clone(), || Ok(e.vartime_compress_to_field())).unwrap(),
                            _ => { let sv = FqVar::new_witness(cs.clone(), || Ok(e.vartime_compress_to_field())).unwrap(); ElementVar::decompress_from_field(sv).unwrap() }
                        };
                        let force = |v: &ElementVar, pat: u32, cx: &mut Ctx, want: &Element| {
                            match pat {
                                0 => {}
                                1 => { let s = v.compress_to_field().unwrap(); cx.eq("forced encoding == native", &d, val(&s.value().unwrap()), enc_of(want)); }
                                2 => { cx.eq("forced element == native", &d, v.value().unwrap() == *want, true); }
                                3 => { let s = v.compress_to_field().unwrap(); cx.eq("forced encoding == native", &d, val(&s.value().unwrap()), enc_of(want));
                                       cx.eq("forced element == native", &d, v.value().unwrap() == *want, true);
                                       let n0 = cs.num_constraints();
                                       let s2 = v.compress_to_field().unwrap(); let _ = v.value().unwrap();
                                       cx.eq("forcing twice: same encoding", &d, val(&s2.value().unwrap()), enc_of(want));
                                       cx.eq("forcing twice: no new constraints", &d, cs.num_constraints(), n0); }
                                _ => { cx.eq("forced element == native", &d, v.value().unwrap() == *want, true);
                                       let s = v.compress_to_field().unwrap(); cx.eq("forced encoding == native", &d, val(&s.value().unwrap()), enc_of(want)); }
                            }
                        };
                        force(&v, pre, cx, e);
                        let ov = ElementVar::new_witness(cs.clone(), || Ok(other)).unwrap();
                        let (w, want): (ElementVar, Element) = match op {
                            0 => (v.clone(), *e),
                            1 => (v.double().unwrap(), *e + *e),
                            2 => { let mut t = v.clone(); t.double_in_place().unwrap(); (t, *e + *e) }
                            3 => (v.negate().unwrap(), -*e),
                            4 => (v.clone() + ov.clone(), *e + other),
                            5 => (v.clone() - &ov, *e - other),
                            6 => { let mut t = v.clone(); t += &ov; t -= ov.clone(); t += other; (t, *e + other) }
                            9 => (v.clone() - ov.clone(), *e - other),
                            10 => (v.clone() + &ov, *e + other),
                            11 => { let mut t = v.clone(); t -= &ov; (t, *e - other) }
                            12 => { let mut t = v.clone(); t += ov.clone(); (t, *e + other) }
                            13 => (v.clone() - other, *e - other),
                            14 => (v.clone() + other, *e + other),
                            15 => { let mut t = v.clone(); t -= other; (t, *e - other) }
                            7 => (ElementVar::conditionally_select(&Boolean::constant(pre % 2 == 0), &v, &ov).unwrap(), if pre % 2 == 0 { *e } else { other }),
                            8 => { let bits: Vec<Boolean<Fq>> = [true, true, false, true].iter().map(|b| Boolean::new_witness(cs.clone(), || Ok(*b)).unwrap()).collect();
                                   (v.scalar_mul_le(bits.iter()).unwrap(), *e * decaf377::Fr::from(11u64)) }
                            _ => unreachable!(),
                        };
                        force(&w, [0u32, 3, 4][post as usize], cx, &want);
                        cx.eq("result encoding == native", &d, val(&w.compress_to_field().unwrap().value().unwrap()), enc_of(&want));
                        cx.eq("result element == native", &d, w.value().unwrap() == want, true);
                        // the operand is unchanged by whatever was done to its clone
                        cx.eq("operand encoding unchanged", &d, val(&v.compress_to_field().unwrap().value().unwrap()), enc_of(e));
                        cx.eq("operand element unchanged", &d, v.value().unwrap() == *e, true);
                        let eqv = v.is_eq(&w).unwrap();
                        cx.eq("is_eq == native equality", &d, eqv.value().unwrap(), *e == want);
                        cx.eq("honest synthesis is satisfied", &d, cs.is_satisfied().unwrap(), true);
                    }
                }
            }
        }
    }
}

/// C13 / C14: comparisons of variables that were built from an encoding and never forced must decode them (an invalid
/// encoding can never take part in a satisfied equality), and gadgets on Constant-mode inputs equal the native results
pub fn unforced(cx: &mut Ctx) {
    let qq = q();
    let f = fq();
    let valid: Vec<N> = (0..6u64).map(|k| N::from_bytes_le(&(Element::GENERATOR * decaf377::Fr::from(k)).vartime_compress().0)).collect();
    let mut invalid: Vec<N> = vec![n(1), n(3), &qq - n(1), &qq - n(2), n(2), n(5)];
    invalid.retain(|s| Encoding(le32(s)).vartime_decompress().is_err());
    for a in valid.iter().chain(invalid.iter()) {
        for b in valid.iter().chain(invalid.iter()) {
            for route in 0..3u32 {
                for op in 0..3u32 {
                    let d = || format!("encodings a = {}, b = {}, allocation route {}, comparison {}", a, b, route, op);
                    let cs = new_cs();
                    let mk = |s: &N| -> ElementVar { match route {
                        0 => <ElementVar as AllocVar<Fq, Fq>>::new_witness(cs.clone(), || Ok(fq_of(s))).unwrap(),
                        1 => <ElementVar as AllocVar<Fq, Fq>>::new_input(cs.clone(), || Ok(fq_of(s))).unwrap(),
                        _ => <ElementVar as AllocVar<Fq, Fq>>::new_constant(cs.clone(), fq_of(s)).unwrap() } };
                    let (va, vb) = (mk(a), mk(b));
                    let na = Encoding(le32(a)).vartime_decompress(); let nb = Encoding(le32(b)).vartime_decompress();
                    let r = match op { 0 => va.is_eq(&vb).map(|_| ()), 1 => va.enforce_equal(&vb), _ => va.enforce_not_equal(&vb) };
                    let sat = r.is_ok() && cs.is_satisfied().unwrap_or(false);
                    let native_ok = match (&na, &nb) { (Ok(x), Ok(y)) => match op { 0 => true, 1 => x == y, _ => x != y }, _ => false };
                    cx.eq("comparison of unforced variables is satisfied exactly when the native decode-and-compare succeeds", &d, sat, native_ok);
                }
            }
        }
    }
    // Constant-mode inputs: outputs equal the native results, invalid constants are refused
    let mut ss: Vec<N> = valid.clone(); ss.extend(invalid.iter().cloned()); ss.extend([n(4), n(6), f.sq(&n(3))]);
    for s in ss.iter() {
        let d = || format!("constant encoding s = {}", s);
        let cs = new_cs();
        let c = FqVar::new_constant(cs.clone(), fq_of(s)).unwrap();
        let native = Encoding(le32(s)).vartime_decompress();
        let out = ElementVar::decompress_from_field(c);
        let ok = out.is_ok() && cs.is_satisfied().unwrap_or(false);
        cx.eq("decode gadget on a constant accepts iff native decoding succeeds", &d, ok, native.is_ok());
        if let (Ok(ev), Ok(ne)) = (&out, &native) { if ok {
            cx.eq("decode gadget on a constant == native element", &d, ev.value().unwrap() == *ne, true);
            cx.eq("re-encoding the constant == native encoding", &d, val(&ev.compress_to_field().unwrap().value().unwrap()), val(&ne.vartime_compress_to_field()));
        } }
        let (nws, ny) = Fq::sqrt_ratio_zeta(&Fq::ONE, &fq_of(s));
        let (ws, y) = FqVar::constant(fq_of(s)).isqrt().unwrap();
        cx.eq("isqrt gadget on a constant == native (flag)", &d, ws.value().unwrap(), nws);
        cx.eq("isqrt gadget on a constant == native (root)", &d, val(&y.value().unwrap()), val(&ny));
        let ev = ElementVar::encode_to_curve(&FqVar::constant(fq_of(s))).unwrap();
        cx.eq("Elligator gadget on a constant == native", &d, ev.value().unwrap() == Element::encode_to_curve(&fq_of(s)), true);
    }
    for k in 0..6u64 {
        let e = Element::GENERATOR * decaf377::Fr::from(k);
        let d = || format!("constant element G * {}", k);
        let cs = new_cs();
        let ev = ElementVar::new_constant(cs.clone(), e).unwrap();
        cx.eq("encode gadget on a constant element == native", &d, val(&ev.compress_to_field().unwrap().value().unwrap()), val(&e.vartime_compress_to_field()));
    }
}

/// C14 bounded stand-in for witnessed coordinates: a malicious prover offers arbitrary coordinate pairs through both
/// `AllocVar<AffinePoint>` and `AllocVar<Element>` (Witness mode).  Pairs outside the image of the group (off the
/// curve, or on the curve but outside 2E) must leave the system unsatisfied; other representatives of a group
/// element must yield a variable equal to that element.
pub fn alloc(cx: &mut Ctx) {
    use ark_ec::{twisted_edwards::{Affine as TEA, Projective as TEP}, AffineRepr, CurveGroup};
    type AffinePoint = <Element as CurveGroup>::Affine;
    type Cfg = <AffinePoint as AffineRepr>::Config;
    let f = fq();
    let qq = q();
    let aff = |x: &N, y: &N| -> AffinePoint { let raw: TEA<Cfg> = TEA::<Cfg>::new_unchecked(fq_of(x), fq_of(y)); unsafe { core::mem::transmute::<TEA<Cfg>, AffinePoint>(raw) } };
    let proj = |x: &N, y: &N, z: &N| -> Element {
        let raw: TEP<Cfg> = TEP::<Cfg>::new_unchecked(fq_of(&f.mul(x, z)), fq_of(&f.mul(y, z)), fq_of(&f.mul(&f.mul(x, y), z)), fq_of(z));
        unsafe { core::mem::transmute::<TEP<Cfg>, Element>(raw) } };
    let i = f.sqrt(&(&qq - n(1)));
    let mut cases: Vec<(String, N, N, Option<Element>)> = Vec::new();
    cases.push(("4-torsion point (i, 0)".into(), i.clone(), n(0), None));
    cases.push(("4-torsion point (-i, 0)".into(), f.neg(&i), n(0), None));
    cases.push(("off-curve (0, 0)".into(), n(0), n(0), None));
    cases.push(("off-curve (1, 1)".into(), n(1), n(1), None));
    for k in [1u64, 2, 3, 5, 8] {
        let e = Element::GENERATOR * decaf377::Fr::from(k);
        let a = e.into_affine();
        let (x, y) = a.xy().map(|(x, y)| (val(x), val(y))).unwrap();
        // (x, y) + (i, 0) = (i*y, i*x) for a = -1
        cases.push((format!("G*{} + (i, 0): on the curve, outside the group", k), f.mul(&i, &y), f.mul(&i, &x), None));
        cases.push((format!("G*{} + (-i, 0): on the curve, outside the group", k), f.neg(&f.mul(&i, &y)), f.neg(&f.mul(&i, &x)), None));
        cases.push((format!("off-curve (2x, 2y) of G*{}", k), f.add(&x, &x), f.add(&y, &y), None));
        cases.push((format!("off-curve (x, y + 1) of G*{}", k), x.clone(), f.add(&y, &n(1)), None));
        cases.push((format!("G*{} itself", k), x.clone(), y.clone(), Some(e)));
        cases.push((format!("G*{} + (0, -1): the other representative", k), f.neg(&x), f.neg(&y), Some(e)));
    }
    cases.push(("identity (0, 1)".into(), n(0), n(1), Some(Element::default())));
    cases.push(("identity's other representative (0, -1)".into(), n(0), &qq - n(1), Some(Element::default())));
    for (name, x, y, want) in cases.iter() {
        for entry in 0..3u32 {
            let d = || format!("offered coordinates: {} = ({}, {}), entry point {}", name, x, y, ["AllocVar<AffinePoint>::new_witness", "AllocVar<Element>::new_witness (Z = 1)", "AllocVar<Element>::new_witness (Z = 7)"][entry as usize]);
            let cs = new_cs();
            let r = match entry {
                0 => <ElementVar as AllocVar<AffinePoint, Fq>>::new_witness(cs.clone(), || Ok(aff(x, y))),
                1 => ElementVar::new_witness(cs.clone(), || Ok(proj(x, y, &n(1)))),
                _ => ElementVar::new_witness(cs.clone(), || Ok(proj(x, y, &n(7)))),
            };
            let sat = r.is_ok() && cs.is_satisfied().unwrap();
            match want {
                None => cx.eq("coordinates outside the group must not satisfy the constraints", &d, sat, false),
                Some(e) => {
                    cx.eq("a representative of a group element is accepted", &d, sat, true);
                    if let Ok(v) = &r {
                        cx.eq("witnessed variable equals the element", &d, v.value().unwrap() == *e, true);
                        cx.eq("witnessed variable encodes like the element", &d, val(&v.compress_to_field().unwrap().value().unwrap()), val(&e.vartime_compress_to_field()));
                    }
                }
            }
        }
    }
}
