//! Probes for the self-contained (minimal) build: same reference, the API of src/min_curve.
use crate::oracle::*;
use crate::Ctx;
use decaf377::{Element, Encoding, Fq, Fr};

fn fq_of(v: &N) -> Fq { Fq::from_le_bytes_mod_order(&le32(&(v % q()))) }
fn fr_of(v: &N) -> Fr { Fr::from_le_bytes_mod_order(&le32(&(v % r()))) }
fn enc(e: &Element) -> N { N::from_bytes_le(&e.vartime_compress().0) }
fn limbs(v: &N) -> Vec<u64> { let mut l: Vec<u64> = v.iter_u64_digits().collect(); if l.is_empty() { l.push(0); } l }

pub fn all(cx: &mut Ctx, iters: usize) {
    let g = Element::GENERATOR;
    let rr = r();
    let mut ks = boundary(&rr);
    ks.extend([n(1) << 64, (n(1) << 64) * n(3), (n(1) << 128) + n(5), n(1) << 192, (n(7) << 128) + n(5)]);
    for _ in 0..iters.min(16) { ks.push(cx.rng.below(&rr)); }
    let mut ss: Vec<(Element, Aff, String)> = vec![(Element::IDENTITY, id(), "IDENTITY".into())];
    for k in ks.iter() {
        let want = smul(k, &gen());
        let d = || format!("k = {}", k);
        let w = encode_aff(&want);
        cx.eq("G * k (Mul<Fr>)", &d, enc(&(g * fr_of(k))), w.clone());
        cx.eq("scalar_mul_vartime", &d, enc(&g.scalar_mul_vartime(&limbs(k))), w.clone());
        cx.eq("scalar_mul (constant time)", &d, enc(&g.scalar_mul(&limbs(k))), w.clone());
        cx.eq("&G * &k", &d, enc(&(&g * &fr_of(k))), w.clone());
        cx.eq("&k * &G", &d, enc(&(&fr_of(k) * &g)), w.clone());
        cx.eq("k * G", &d, enc(&(fr_of(k) * g)), w.clone());
        let mut t = g; t *= fr_of(k); cx.eq("G *= k", &d, enc(&t), w.clone());
        if ss.len() < 12 { ss.push((g * fr_of(k), want, format!("G * {}", k))); }
    }
    // integers longer than the modulus
    for l in [vec![0u64, 0, 0, 0, 1], vec![u64::MAX; 5], vec![1, 0, 0, 0, 0, 0, 7], vec![]] {
        let kv = N::from_bytes_le(&l.iter().flat_map(|w| w.to_le_bytes()).collect::<Vec<u8>>());
        let d = || format!("integer limbs {:?}", l);
        cx.eq("scalar_mul_vartime (long integer)", &d, enc(&g.scalar_mul_vartime(&l)), encode_aff(&smul(&kv, &gen())));
        cx.eq("scalar_mul (long integer)", &d, enc(&g.scalar_mul(&l)), encode_aff(&smul(&kv, &gen())));
    }
    for i in 0..ss.len() {
        for j in [i, (i * 7 + 3) % ss.len(), ss.len() - 1] {
            let (p, rp, hp) = &ss[i]; let (o, ro, ho) = &ss[j];
            let (p, o) = (*p, *o);
            let d = || format!("P = {}, Q = {}", hp, ho);
            let sum = encode_aff(&te_add(rp, ro));
            let dif = encode_aff(&te_add(rp, &te_neg(ro)));
            cx.eq("P + Q", &d, enc(&(p + o)), sum.clone()); cx.eq("&P + &Q", &d, enc(&(&p + &o)), sum.clone());
            cx.eq("P + &Q", &d, enc(&(p + &o)), sum.clone()); cx.eq("&P + Q", &d, enc(&(&p + o)), sum.clone());
            cx.eq("P - Q", &d, enc(&(p - o)), dif.clone()); cx.eq("&P - &Q", &d, enc(&(&p - &o)), dif.clone());
            cx.eq("P - &Q", &d, enc(&(p - &o)), dif.clone()); cx.eq("&P - Q", &d, enc(&(&p - o)), dif.clone());
            let mut t = p; t += o; cx.eq("P += Q", &d, enc(&t), sum.clone()); let mut t = p; t += &o; cx.eq("P += &Q", &d, enc(&t), sum.clone());
            let mut t = p; t -= o; cx.eq("P -= Q", &d, enc(&t), dif.clone()); let mut t = p; t -= &o; cx.eq("P -= &Q", &d, enc(&t), dif.clone());
            cx.eq("-P", &d, enc(&(-p)), encode_aff(&te_neg(rp)));
            cx.eq("double", &d, enc(&p.double()), encode_aff(&te_add(rp, rp)));
            cx.eq("==", &d, p == o, encode_aff(rp) == encode_aff(ro));
            cx.eq("is_identity", &d, p.is_identity(), rp.0 == n(0));
            cx.eq("encode == spec", &d, enc(&p), encode_aff(rp));
            cx.eq("vartime_compress_to_field", &d, N::from_bytes_le(&p.vartime_compress_to_field().to_bytes()), encode_aff(rp));
            // every conversion form of the minimal backend (C03: all ways of encoding give the specified bytes)
            let want = le32(&encode_aff(rp));
            let b: [u8; 32] = p.into(); cx.eq("From<Element> for [u8;32]", &d, b, want);
            let en: Encoding = p.into(); cx.eq("From<Element> for Encoding", &d, en.0, want);
            let en2: Encoding = (&p).into(); cx.eq("From<&Element> for Encoding", &d, en2.0, want);
            let b2: [u8; 32] = en.into(); cx.eq("From<Encoding> for [u8;32]", &d, b2, want);
            cx.eq("top three bits clear", &d, b[31] >> 5, 0);
            let back = |r: Result<Element, decaf377::EncodingError>| r.ok().map(|e| enc(&e));
            cx.eq("TryFrom<[u8;32]> for Element", &d, back(Element::try_from(want)), Some(encode_aff(rp)));
            cx.eq("TryFrom<&[u8]> for Element", &d, back(Element::try_from(&want[..])), Some(encode_aff(rp)));
            cx.eq("TryFrom<Encoding> for Element", &d, back(Element::try_from(Encoding(want))), Some(encode_aff(rp)));
            cx.eq("TryFrom<&Encoding> for Element", &d, back(Element::try_from(&Encoding(want))), Some(encode_aff(rp)));
            cx.eq("TryFrom<&[u8]> for Element (31 bytes)", &d, Element::try_from(&want[..31]).is_err(), true);
        }
    }
    // decoding
    let qq = q();
    let two256 = n(1) << 256;
    let mut cands: Vec<N> = (0..200u64).map(n).collect();
    for (_, p, _) in ss.iter() { let s = encode_aff(p); cands.push(s.clone()); cands.push(&s + &qq); cands.push(fq().neg(&s)); for b in [0usize, 1, 8, 64, 250, 252, 253, 254, 255] { cands.push(&s ^ (n(1) << b)); } }
    for v in [&qq - n(2), &qq - n(1), qq.clone(), &qq + n(1), n(1) << 253, &two256 - n(1)] { cands.push(v); }
    for _ in 0..iters { cands.push(cx.rng.below(&two256)); { let v = cx.rng.below(&qq); cands.push(&v - (&v % n(2))); } }
    for v in cands.iter() {
        if v >= &two256 { continue; }
        let bytes = le32(v);
        let d = || format!("integer {}", v);
        let want = decode_bytes(&bytes);
        let got = Encoding(bytes).vartime_decompress();
        cx.eq("decode verdict", &d, got.is_ok(), want.is_some());
        if let (Ok(e), Some(p)) = (&got, &want) {
            cx.eq("decoded element re-encodes to the input", &d, e.vartime_compress().0, bytes);
            cx.eq("decoded element equals the specification's point", &d, enc(e), encode_aff(p));
        }
    }
    // Elligator
    let mut rs = boundary(&qq);
    for _ in 0..iters { rs.push(cx.rng.below(&qq)); }
    for (i, r0) in rs.iter().enumerate() {
        let d = || format!("r0 = {}", r0);
        let w = encode_aff(&elligator(r0));
        cx.eq("encode_to_curve == specification's Elligator map", &d, enc(&Element::encode_to_curve(&fq_of(r0))), w.clone());
        cx.eq("encode_to_curve(-r0)", &d, enc(&Element::encode_to_curve(&fq_of(&fq().neg(r0)))), w);
        let r2 = &rs[(i * 3 + 1) % rs.len()];
        let d = || format!("r1 = {}, r2 = {}", r0, r2);
        cx.eq("hash_to_curve", &d, enc(&Element::hash_to_curve(&fq_of(r0), &fq_of(r2))), encode_aff(&te_add(&elligator(r0), &elligator(r2))));
        cx.eq("hash_to_curve(r, r)", &d, enc(&Element::hash_to_curve(&fq_of(r0), &fq_of(r0))), encode_aff(&te_add(&elligator(r0), &elligator(r0))));
    }
    // square root of ratio (C09, minimal implementation), structured inputs
    let f = fq();
    let m = (&qq - n(1)) >> 47;
    let gg = f.pow(&zeta(), &m);
    let mut ratios: Vec<N> = vec![n(0), n(1), zeta()];
    for k in 0..48usize { ratios.push(f.pow(&gg, &(n(1) << k))); }
    for k in 0..20u64 { ratios.push(f.pow(&zeta(), &n(k))); }
    for _ in 0..iters { ratios.push(cx.rng.below(&qq)); }
    // zero operands in every combination (the four-case contract orders its cases: num = 0 first)
    for (num, den) in [(n(0), n(0)), (n(0), n(1)), (n(0), n(7)), (n(1), n(0)), (n(7), n(0)), (zeta(), n(0))] {
        let d = || format!("num = {}, den = {}", num, den);
        let (ws, y) = Fq::non_arkworks_sqrt_ratio_zeta(&fq_of(&num), &fq_of(&den));
        cx.eq("non_arkworks_sqrt_ratio_zeta four-case contract (zero operands)", &d, isqrt_ok(&num, &den, ws, &N::from_bytes_le(&y.to_bytes())), true);
    }
    for x in ratios.iter() {
        for den in [n(1), n(5)] {
            let num = f.mul(x, &den);
            let d = || format!("num = {}, den = {}", num, den);
            let (ws, y) = Fq::non_arkworks_sqrt_ratio_zeta(&fq_of(&num), &fq_of(&den));
            cx.eq("non_arkworks_sqrt_ratio_zeta four-case contract", &d, isqrt_ok(&num, &den, ws, &N::from_bytes_le(&y.to_bytes())), true);
        }
    }
}
