//! Independent reference arithmetic over num-bigint (transcribed from the decaf377 specification, not from /repo).
use num_bigint::BigUint;

pub type N = BigUint;
pub fn n(x: u64) -> N { N::from(x) }
pub fn dec(s: &str) -> N { N::parse_bytes(s.as_bytes(), 10).unwrap() }
pub fn q() -> N { dec("8444461749428370424248824938781546531375899335154063827935233455917409239041") }
pub fn r() -> N { dec("2111115437357092606062206234695386632838870926408408195193685246394721360383") }
pub fn pbls() -> N { dec("258664426012969094010652733694893533536393512754914660539884262666720468348340822774968888139573360124440321458177") }
pub fn zeta() -> N { dec("2841681278031794617739547238867782961338435681360110683443920362658525667816") }

#[derive(Clone)]
pub struct F { pub p: N }
impl F {
    pub fn new(p: N) -> F { F { p } }
    pub fn add(&self, a: &N, b: &N) -> N { (a + b) % &self.p }
    pub fn sub(&self, a: &N, b: &N) -> N { (a + &self.p - (b % &self.p)) % &self.p }
    pub fn mul(&self, a: &N, b: &N) -> N { (a * b) % &self.p }
    pub fn neg(&self, a: &N) -> N { (&self.p - (a % &self.p)) % &self.p }
    pub fn sq(&self, a: &N) -> N { self.mul(a, a) }
    pub fn pow(&self, a: &N, e: &N) -> N { a.modpow(e, &self.p) }
    pub fn inv(&self, a: &N) -> N { self.pow(a, &(&self.p - n(2))) }
    pub fn is_sq(&self, a: &N) -> bool { a == &n(0) || self.pow(a, &((&self.p - n(1)) / n(2))) == n(1) }
    /// Tonelli-Shanks (a must be a square)
    pub fn sqrt(&self, a: &N) -> N {
        if a == &n(0) { return n(0); }
        let p = &self.p;
        let mut qq = p - n(1);
        let mut s = 0u32;
        while &qq % n(2) == n(0) { qq /= n(2); s += 1; }
        let mut z = n(2);
        while self.is_sq(&z) { z += n(1); }
        let mut m = s;
        let mut c = self.pow(&z, &qq);
        let mut t = self.pow(a, &qq);
        let mut rr = self.pow(a, &((&qq + n(1)) / n(2)));
        while t != n(1) {
            let mut i = 0u32;
            let mut t2 = t.clone();
            while t2 != n(1) { t2 = self.sq(&t2); i += 1; }
            let b = self.pow(&c, &(n(1) << ((m - i - 1) as usize)));
            m = i;
            c = self.sq(&b);
            t = self.mul(&t, &c);
            rr = self.mul(&rr, &b);
        }
        rr
    }
}
pub fn is_neg(a: &N) -> bool { a % n(2) == n(1) }
pub fn fq() -> F { F::new(q()) }
pub fn abs(a: &N) -> N { if is_neg(a) { fq().neg(a) } else { a.clone() } }

/// four-case contract check (spec "inverse square roots")
pub fn isqrt_ok(num: &N, den: &N, ws: bool, y: &N) -> bool {
    let f = fq();
    if y >= &f.p { return false; }
    if num == &n(0) { return ws && y == &n(0); }
    if den == &n(0) { return !ws && y == &n(0); }
    let lhs = f.mul(&f.sq(y), den);
    if ws { &lhs == num } else { lhs == f.mul(&zeta(), num) }
}
/// reference sqrt_ratio_zeta (some root)
pub fn sqrt_ratio(num: &N, den: &N) -> (bool, N) {
    let f = fq();
    if num == &n(0) { return (true, n(0)); }
    if den == &n(0) { return (false, n(0)); }
    let x = f.mul(num, &f.inv(den));
    if f.is_sq(&x) { (true, f.sqrt(&x)) } else { (false, f.sqrt(&f.mul(&zeta(), &x))) }
}

pub fn d() -> N { n(3021) }
pub fn a() -> N { q() - n(1) }
pub type Aff = (N, N);
pub fn id() -> Aff { (n(0), n(1)) }
/// affine twisted Edwards addition, a = -1, d = 3021
pub fn te_add(p: &Aff, o: &Aff) -> Aff {
    let f = fq();
    let (x1, y1) = p; let (x2, y2) = o;
    let dxy = f.mul(&d(), &f.mul(&f.mul(x1, x2), &f.mul(y1, y2)));
    let x3 = f.mul(&f.add(&f.mul(x1, y2), &f.mul(y1, x2)), &f.inv(&f.add(&n(1), &dxy)));
    let y3 = f.mul(&f.add(&f.mul(y1, y2), &f.mul(x1, x2)), &f.inv(&f.sub(&n(1), &dxy)));
    (x3, y3)
}
pub fn te_neg(p: &Aff) -> Aff { (fq().neg(&p.0), p.1.clone()) }
pub fn smul(k: &N, p: &Aff) -> Aff {
    let mut acc = id();
    let bits = k.bits();
    for i in (0..bits).rev() {
        acc = te_add(&acc, &acc);
        if k.bit(i) { acc = te_add(&acc, p); }
    }
    acc
}
pub fn on_curve(p: &Aff) -> bool {
    let f = fq();
    let (x, y) = p;
    f.add(&f.mul(&a(), &f.sq(x)), &f.sq(y)) == f.add(&n(1), &f.mul(&d(), &f.mul(&f.sq(x), &f.sq(y))))
}
/// spec "Encoding" on extended coordinates
pub fn encode(x: &N, _y: &N, z: &N, t: &N) -> N {
    let f = fq();
    let amd = f.sub(&a(), &d());
    let u1 = f.mul(&f.add(x, t), &f.sub(x, t));
    let (_, v) = sqrt_ratio(&n(1), &f.mul(&f.mul(&u1, &amd), &f.sq(x)));
    let u2 = abs(&f.mul(&v, &u1));
    let u3 = f.sub(&f.mul(&u2, z), t);
    abs(&f.mul(&f.mul(&f.mul(&amd, &v), &u3), x))
}
pub fn encode_aff(p: &Aff) -> N { encode(&p.0, &p.1, &n(1), &fq().mul(&p.0, &p.1)) }
/// spec "Decoding" of an integer (already known < 2^256)
pub fn decode(s: &N) -> Option<Aff> {
    let f = fq();
    if s >= &f.p || is_neg(s) { return None; }
    let ss = f.sq(s);
    let u1 = f.sub(&n(1), &ss);
    let u2 = f.sub(&f.sq(&u1), &f.mul(&f.mul(&n(4), &d()), &ss));
    let (ws, mut v) = sqrt_ratio(&n(1), &f.mul(&u2, &f.sq(&u1)));
    if !ws { return None; }
    let tsu1 = f.mul(&f.mul(&n(2), s), &u1);
    if is_neg(&f.mul(&tsu1, &v)) { v = f.neg(&v); }
    let x = f.mul(&f.mul(&tsu1, &f.sq(&v)), &u2);
    let y = f.mul(&f.mul(&f.add(&n(1), &ss), &v), &u1);
    Some((x, y))
}
pub fn decode_bytes(b: &[u8; 32]) -> Option<Aff> {
    if b[31] >> 5 != 0 { return None; }
    decode(&N::from_bytes_le(b))
}
/// ristretto.sage `elligatorSpec`-style unoptimised map: computed through the optimised step list but with the
/// reference sqrt (the result as a group element does not depend on the root chosen)
pub fn elligator(r0: &N) -> Aff {
    let f = fq();
    let aa = a(); let dd = d();
    let rr = f.mul(&zeta(), &f.sq(r0));
    let dma = f.sub(&dd, &aa);
    let den = f.mul(&f.sub(&f.mul(&dd, &rr), &dma), &f.sub(&f.mul(&dma, &rr), &dd));
    let a2d = f.sub(&aa, &f.mul(&n(2), &dd));
    let num = f.mul(&f.add(&rr, &n(1)), &a2d);
    let x = f.mul(&num, &den);
    let (iss, isri0) = sqrt_ratio(&n(1), &x);
    let (sgn, tw) = if iss { (n(1), n(1)) } else { (f.neg(&n(1)), r0.clone()) };
    let isri = f.mul(&isri0, &tw);
    let mut s = f.mul(&isri, &num);
    let t = f.sub(&f.mul(&f.mul(&f.mul(&f.mul(&f.neg(&sgn), &isri), &s), &f.sub(&rr, &n(1))), &f.sq(&a2d)), &n(1));
    if is_neg(&s) == iss { s = f.neg(&s); }
    let e = f.mul(&n(2), &s);
    let ff = f.add(&n(1), &f.mul(&aa, &f.sq(&s)));
    let g = f.sub(&n(1), &f.mul(&aa, &f.sq(&s)));
    let h = t;
    // (E*H : F*G : F*H)
    (f.mul(&e, &f.inv(&ff)), f.mul(&g, &f.inv(&h)))
}
pub fn gen() -> Aff {
    (dec("4959445789346820725352484487855828915252512307947624787834978378872129235627"),
     dec("6060471950081851567114691557659790004756535011754163002297540472747064943288"))
}
pub fn le32(x: &N) -> [u8; 32] { let mut b = [0u8; 32]; let v = x.to_bytes_le(); b[..v.len()].copy_from_slice(&v); b }

/// deterministic xorshift PRNG (seeded by VERIF_SEED)
pub struct Rng(pub u64);
impl Rng {
    pub fn next(&mut self) -> u64 { let mut x = self.0; x ^= x << 13; x ^= x >> 7; x ^= x << 17; self.0 = x; x }
    pub fn below(&mut self, m: &N) -> N {
        let nb = (m.bits() as usize + 7) / 8 + 8;
        let mut v = Vec::new();
        while v.len() < nb { v.extend_from_slice(&self.next().to_le_bytes()); }
        N::from_bytes_le(&v) % m
    }
}
/// boundary values of [0, p) named in the properties' quantifier texts
pub fn boundary(p: &N) -> Vec<N> {
    let mut v = vec![n(0), n(1), n(2), n(3), n(4), n(8), p - n(1), p - n(2), (p - n(1)) / n(2), (p + n(1)) / n(2),
                     n(0xffff_ffff), n(u64::MAX), n(u64::MAX) + n(1), (n(1) << 128), (n(1) << 128) - n(1), (n(1) << 192), (n(1) << 64) * n(3)];
    let bits = p.bits() as usize;
    for k in [31usize, 32, 63, 64, 65, 127, 128, 191, 192, 250, 251, 252] { if k < bits - 1 { v.push(n(1) << k); v.push((n(1) << k) - n(1)); } }
    v.into_iter().map(|x| x % p).collect()
}
