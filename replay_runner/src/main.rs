//! replay_runner <probe> <seed>
//! Prints `CEX {json}` for the first disagreement between the real crate and the reference oracle, else `OK <n checks>`.
mod oracle;
use oracle::*;
use std::fmt::Debug;

pub static QUIET_PANIC: std::sync::atomic::AtomicBool = std::sync::atomic::AtomicBool::new(false);
/// run `f`, treating a panic as "nothing was handed out" (used where the pristine code answers with unimplemented!())
pub fn no_panic_or<T>(f: impl FnOnce() -> T + std::panic::UnwindSafe) -> Option<T> {
    QUIET_PANIC.store(true, std::sync::atomic::Ordering::SeqCst);
    let r = std::panic::catch_unwind(f).ok();
    QUIET_PANIC.store(false, std::sync::atomic::Ordering::SeqCst);
    r
}
pub struct Ctx { pub n: u64, pub rng: Rng }
impl Ctx {
    fn cex(&self, check: &str, input: String, got: String, want: String) -> ! {
        let esc = |s: &str| s.replace('\\', "\\\\").replace('"', "'");
        println!("CEX {{\"check\":\"{}\",\"input\":\"{}\",\"got\":\"{}\",\"want\":\"{}\"}}", esc(check), esc(&input), esc(&got), esc(&want));
        std::process::exit(0);
    }
    fn eq<T: PartialEq + Debug>(&mut self, check: &str, input: &dyn Fn() -> String, got: T, want: T) {
        self.n += 1;
        if got != want { self.cex(check, input(), format!("{:?}", got), format!("{:?}", want)); }
    }
}

mod field;
#[cfg(feature = "ark")]
mod curve_ark;
#[cfg(not(feature = "ark"))]
mod curve_min;
#[cfg(feature = "r1cs")]
mod gadgets;

fn main() {
    let args: Vec<String> = std::env::args().collect();
    let probe = args.get(1).map(|s| s.as_str()).unwrap_or("all");
    let seed: u64 = args.get(2).and_then(|s| s.parse().ok()).unwrap_or(1);
    let mut cx = Ctx { n: 0, rng: Rng(seed.wrapping_mul(0x9E3779B97F4A7C15) | 1) };
    // a panic inside the real crate is a counterexample too ("never panics")
    let hook_probe = probe.to_string();
    std::panic::set_hook(Box::new(move |info| {
        if QUIET_PANIC.load(std::sync::atomic::Ordering::SeqCst) { return; }
        let msg = format!("{}", info).replace('"', "'").replace('\n', " ");
        println!("CEX {{\"check\":\"panic in probe {}\",\"input\":\"see message\",\"got\":\"{}\",\"want\":\"no panic\"}}", hook_probe, msg);
        std::process::exit(0);
    }));
    let quick = std::env::var("REPLAY_ITERS").ok().and_then(|s| s.parse().ok()).unwrap_or(64usize);
    if probe.starts_with("fiat:") { field::fiat_replay(&mut cx, probe); println!("OK {}", cx.n); return; }
    match probe {
        "field.fq" => field::probe_fq(&mut cx, quick),
        "field.fr" => field::probe_fr(&mut cx, quick),
        "field.fp" => field::probe_fp(&mut cx, quick),
        #[cfg(feature = "ark")]
        "curve.decode" => curve_ark::decode(&mut cx, quick),
        #[cfg(feature = "ark")]
        "curve.encode" => curve_ark::encode(&mut cx, quick),
        #[cfg(feature = "ark")]
        "curve.ops" => curve_ark::ops(&mut cx, quick),
        #[cfg(feature = "ark")]
        "curve.mul" => curve_ark::mul(&mut cx, quick),
        #[cfg(feature = "ark")]
        "curve.elligator" => curve_ark::elligator(&mut cx, quick),
        #[cfg(feature = "ark")]
        "curve.eqhash" => curve_ark::eqhash(&mut cx, quick),
        #[cfg(feature = "ark")]
        "curve.ctor" => curve_ark::ctor(&mut cx, quick),
        #[cfg(feature = "ark")]
        "curve.sqrt" => curve_ark::sqrt(&mut cx, quick),
        #[cfg(feature = "ark")]
        "bls" => curve_ark::bls(&mut cx, quick),
        #[cfg(not(feature = "ark"))]
        "min.all" => curve_min::all(&mut cx, quick),
        #[cfg(feature = "r1cs")]
        "r1cs.d6" => gadgets::d6(&mut cx),
        #[cfg(feature = "r1cs")]
        "r1cs.hints" => gadgets::hints(&mut cx),
        #[cfg(feature = "r1cs")]
        "r1cs.lazy" => gadgets::lazy(&mut cx),
        #[cfg(feature = "r1cs")]
        "r1cs.alloc" => gadgets::alloc(&mut cx),
        #[cfg(feature = "r1cs")]
        "r1cs.unforced" => gadgets::unforced(&mut cx),
        #[cfg(feature = "r1cs")]
        "r1cs.d6replay" => { println!("{}", if gadgets::d6_replay() { "D6 reproduces" } else { "D6 does not reproduce" }); return; }
        "all" => {
            field::probe_fq(&mut cx, quick); field::probe_fr(&mut cx, quick); field::probe_fp(&mut cx, quick);
            #[cfg(feature = "ark")]
            { curve_ark::decode(&mut cx, quick); curve_ark::encode(&mut cx, quick); curve_ark::ops(&mut cx, quick); curve_ark::mul(&mut cx, quick);
              curve_ark::elligator(&mut cx, quick); curve_ark::eqhash(&mut cx, quick); curve_ark::ctor(&mut cx, quick); curve_ark::sqrt(&mut cx, quick); curve_ark::bls(&mut cx, quick); }
            #[cfg(not(feature = "ark"))]
            curve_min::all(&mut cx, quick);
        }
        _ => { println!("NOPROBE {}", probe); return; }
    }
    println!("OK {}", cx.n);
}
