//! Field probes: every operator / method / conversion of Fq, Fr, Fp against BigUint arithmetic (C10, C11).
use crate::oracle::*;
use crate::Ctx;
use core::iter::{Product, Sum};
use decaf377::{Fp, Fq, Fr};

macro_rules! field_probe {
    ($name:ident, $T:ty, $p:expr, $nb:expr, $tag:expr) => {
        pub fn $name(cx: &mut Ctx, iters: usize) {
            let p: N = $p;
            let f = F::new(p.clone());
            let to = |x: &$T| -> N { N::from_bytes_le(&x.to_bytes()) };
            let le = |v: &N| -> [u8; $nb] { let mut b = [0u8; $nb]; let s = v.to_bytes_le(); b[..s.len()].copy_from_slice(&s); b };
            let of = |v: &N| -> $T { <$T>::from_le_bytes_mod_order(&le(&(v % &p))) };
            let mut vals = boundary(&p);
            for _ in 0..iters { vals.push(cx.rng.below(&p)); }
            // conversions (C11)
            for v in vals.iter() {
                let x = of(v);
                let d = || format!("{} value {}", $tag, v);
                cx.eq("to_bytes(from_le_bytes_mod_order(le(v))) == le(v)", &d, to(&x), v.clone());
                cx.eq("to_bytes_le == to_bytes", &d, x.to_bytes_le(), x.to_bytes());
                match <$T>::from_bytes_checked(&le(v)) {
                    Ok(y) => cx.eq("from_bytes_checked(canonical) value", &d, to(&y), v.clone()),
                    Err(_) => cx.cex("from_bytes_checked rejects a canonical encoding", d(), "Err".into(), "Ok".into()),
                }
                cx.eq("Default is zero", &d, to(&<$T>::default()), n(0));
            }
            // non-canonical strings must be rejected
            let top = n(1) << (8 * $nb);
            let mut bad = vec![p.clone(), &p + n(1), &p + n(2), &top - n(1), &top - n(2)];
            for v in vals.iter().take(12) { if &(v + &p) < &top { bad.push(v + &p); } }
            for k in ($nb * 8 - 16)..($nb * 8) { let v = n(1) << k; if v >= p { bad.push(v); } }
            for v in bad.iter() {
                let d = || format!("{} non-canonical integer {}", $tag, v);
                cx.n += 1;
                if <$T>::from_bytes_checked(&le(v)).is_ok() { cx.cex("from_bytes_checked accepts a non-canonical encoding", d(), "Ok".into(), "Err".into()); }
                cx.eq("from_le_bytes_mod_order reduces", &d, to(&<$T>::from_le_bytes_mod_order(&le(v))), v % &p);
            }
            // reduction of byte strings of any length
            for len in 0..=96usize {
                for pat in 0..3 {
                    let bytes: Vec<u8> = (0..len).map(|i| match pat { 0 => 0xffu8, 1 => (cx.rng.next() & 0xff) as u8, _ => if i + 1 == len { 1 } else { 0 } }).collect();
                    let want = N::from_bytes_le(&bytes) % &p;
                    let d = || format!("{} bytes (len {}) {:02x?}", $tag, len, bytes);
                    cx.eq("from_le_bytes_mod_order(any length)", &d, to(&<$T>::from_le_bytes_mod_order(&bytes)), want);
                }
            }
            // arkworks trait surface of every field (C11, C16, C17): big-integer conversions, both endiannesses, streams, flags, roots
            #[cfg(feature = "ark")]
            {
                use ark_ff::{Field, PrimeField, Zero, One, BigInteger};
                use ark_serialize::{CanonicalDeserialize, CanonicalSerialize, CanonicalSerializeWithFlags, CanonicalDeserializeWithFlags, EmptyFlags};
                type BI = <$T as PrimeField>::BigInt;
                for a in vals.iter() {
                    let d = || format!("{} a = {}", $tag, a);
                    let bi = BI::try_from(a.clone()).ok().unwrap();
                    match <$T>::from_bigint(bi) { Some(x) => cx.eq("from_bigint", &d, to(&x), a.clone()), None => cx.cex("from_bigint rejects canonical", d(), "None".into(), "Some".into()) }
                    cx.eq("into_bigint", &d, of(a).into_bigint(), bi);
                    cx.eq("is_zero", &d, of(a).is_zero(), a == &n(0));
                    cx.eq("is_one", &d, of(a).is_one(), a == &n(1));
                    cx.eq("double", &d, to(&of(a).double()), f.add(a, a));
                    let mut bytes = [0u8; $nb];
                    of(a).serialize_compressed(&mut bytes[..]).unwrap();
                    cx.eq("serialize_compressed", &d, bytes, le(a));
                    let mut bytes = [0u8; $nb];
                    of(a).serialize_uncompressed(&mut bytes[..]).unwrap();
                    cx.eq("serialize_uncompressed", &d, bytes, le(a));
                    match <$T>::deserialize_compressed(&le(a)[..]) { Ok(x) => cx.eq("deserialize_compressed", &d, to(&x), a.clone()), Err(_) => cx.cex("deserialize_compressed rejects canonical", d(), "Err".into(), "Ok".into()) }
                    let mut v = Vec::new();
                    of(a).serialize_with_flags(&mut v, EmptyFlags).unwrap();
                    cx.eq("serialize_with_flags(EmptyFlags)", &d, v.clone(), le(a).to_vec());
                    match <$T>::deserialize_with_flags::<_, EmptyFlags>(&v[..]) { Ok((x, _)) => cx.eq("deserialize_with_flags", &d, to(&x), a.clone()), Err(_) => cx.cex("deserialize_with_flags rejects canonical", d(), "Err".into(), "Ok".into()) }
                    // every stream entry point: both compression modes, checked and unchecked, exact consumption, short streams, sizes
                    {
                        use ark_serialize::{Compress, Validate, SerializationError};
                        for (cm, vm) in [(Compress::Yes, Validate::Yes), (Compress::Yes, Validate::No), (Compress::No, Validate::Yes), (Compress::No, Validate::No)] {
                            let mut stream: Vec<u8> = le(a).to_vec(); stream.extend_from_slice(&[0xAB, 0xCD, 0xEF]);
                            let mut rd: &[u8] = &stream[..];
                            match <$T>::deserialize_with_mode(&mut rd, cm, vm) {
                                Ok(x) => { cx.eq("deserialize_with_mode (every mode)", &d, to(&x), a.clone()); cx.eq("deserialize_with_mode consumes exactly the element", &d, rd.to_vec(), vec![0xABu8, 0xCD, 0xEF]); }
                                Err(_) => cx.cex("deserialize_with_mode rejects canonical bytes", d(), "Err".into(), "Ok".into()) }
                            let mut w = Vec::new();
                            of(a).serialize_with_mode(&mut w, cm).unwrap();
                            cx.eq("serialize_with_mode (every mode)", &d, w, le(a).to_vec());
                            cx.eq("serialized_size", &d, of(a).serialized_size(cm), $nb);
                            cx.eq("short stream is refused", &d, <$T>::deserialize_with_mode(&le(a)[..$nb - 1], cm, vm).is_err(), true);
                        }
                        cx.eq("empty stream is refused", &d, <$T>::deserialize_compressed(&[][..]).is_err(), true);
                        let mut small = [0u8; $nb - 1];
                        cx.eq("serialising into a full writer fails", &d, of(a).serialize_compressed(&mut small[..]).is_err(), true);
                        cx.eq("serialized_size_with_flags::<EmptyFlags>", &d, of(a).serialized_size_with_flags::<EmptyFlags>(), $nb);
                        cx.eq("check", &d, ark_serialize::Valid::check(&of(a)).is_ok(), true);
                        let _ = SerializationError::InvalidData;
                    }
                    // flag bits round-trip value and flags: the standard flag types and a full-byte / oversized custom one
                {
                    use ark_ec::{twisted_edwards::TEFlags, short_weierstrass::SWFlags};
                    use ark_serialize::Flags;
                    let bits = <$T as PrimeField>::MODULUS_BIT_SIZE as usize;
                    for fl in [TEFlags::XIsPositive, TEFlags::XIsNegative] {
                        let mut v = Vec::new();
                        of(a).serialize_with_flags(&mut v, fl).unwrap();
                        cx.eq("serialize_with_flags(TEFlags) length", &d, v.len(), (bits + 1 + 7) / 8);
                        match <$T>::deserialize_with_flags::<_, TEFlags>(&v[..]) { Ok((x, f2)) => { cx.eq("TEFlags round trip value", &d, to(&x), a.clone()); cx.eq("TEFlags round trip flag", &d, f2, fl); } Err(_) => cx.cex("deserialize_with_flags(TEFlags) rejects its own output", d(), "Err".into(), "Ok".into()) }
                    }
                    for fl in [SWFlags::YIsPositive, SWFlags::YIsNegative, SWFlags::PointAtInfinity] {
                        let mut v = Vec::new();
                        of(a).serialize_with_flags(&mut v, fl).unwrap();
                        cx.eq("serialize_with_flags(SWFlags) length", &d, v.len(), (bits + 2 + 7) / 8);
                        match <$T>::deserialize_with_flags::<_, SWFlags>(&v[..]) { Ok((x, f2)) => { cx.eq("SWFlags round trip value", &d, to(&x), a.clone()); cx.eq("SWFlags round trip flag", &d, f2, fl); } Err(_) => cx.cex("deserialize_with_flags(SWFlags) rejects its own output", d(), "Err".into(), "Ok".into()) }
                    }
                    #[derive(Clone, Copy, PartialEq, Eq, Debug, Default)]
                    struct F8(u8);
                    impl Flags for F8 { const BIT_SIZE: usize = 8; fn u8_bitmask(&self) -> u8 { self.0 } fn from_u8(v: u8) -> Option<Self> { Some(F8(v)) } }
                    for fb in [0u8, 1, 0x80, 0xff] {
                        let mut v = Vec::new();
                        of(a).serialize_with_flags(&mut v, F8(fb)).unwrap();
                        cx.eq("serialize_with_flags(8-bit flags) length", &d, v.len(), (bits + 8 + 7) / 8);
                        cx.eq("8-bit flags: value bytes untouched", &d, v[..$nb].to_vec(), le(a).to_vec());
                        cx.eq("8-bit flags: flag byte appended", &d, v[$nb], fb);
                        match <$T>::deserialize_with_flags::<_, F8>(&v[..]) { Ok((x, f2)) => { cx.eq("8-bit flags round trip value", &d, to(&x), a.clone()); cx.eq("8-bit flags round trip flag", &d, f2, F8(fb)); } Err(_) => cx.cex("deserialize_with_flags(8-bit flags) rejects its own output", d(), "Err".into(), "Ok".into()) }
                    }
                    // every width 0..=8, flags in the high bits of the byte that carries them
                    macro_rules! width { ($W:expr, $Name:ident) => {{
                        #[derive(Clone, Copy, PartialEq, Eq, Debug, Default)]
                        struct $Name(u8);
                        impl Flags for $Name { const BIT_SIZE: usize = $W; fn u8_bitmask(&self) -> u8 { if $W == 0 { 0 } else { self.0 << (8 - $W) } } fn from_u8(v: u8) -> Option<Self> { Some($Name(if $W == 0 { 0 } else { v >> (8 - $W) })) } }
                        for fv in [0u8, 1, ((1u16 << $W) - 1) as u8] {
                            if $W == 0 && fv != 0 { continue; }
                            let mut v = Vec::new();
                            of(a).serialize_with_flags(&mut v, $Name(fv)).unwrap();
                            cx.eq("serialize_with_flags(width W) length", &d, v.len(), (bits + $W + 7) / 8);
                            match <$T>::deserialize_with_flags::<_, $Name>(&v[..]) { Ok((x, f2)) => { cx.eq("width-W flags round trip value", &d, to(&x), a.clone()); cx.eq("width-W flags round trip flag", &d, f2, $Name(fv)); } Err(_) => cx.cex("deserialize_with_flags(width W) rejects its own output", format!("{} W = {}", d(), $W), "Err".into(), "Ok".into()) }
                        }
                    }}}
                    width!(0, W0); width!(1, W1); width!(2, W2); width!(3, W3); width!(4, W4); width!(5, W5); width!(6, W6); width!(7, W7); width!(8, W8);
                    #[derive(Clone, Copy, PartialEq, Eq, Debug, Default)]
                    struct F9;
                    impl Flags for F9 { const BIT_SIZE: usize = 9; fn u8_bitmask(&self) -> u8 { 0 } fn from_u8(_v: u8) -> Option<Self> { Some(F9) } }
                    let mut v = Vec::new();
                    cx.eq("flags wider than a byte are refused", &d, of(a).serialize_with_flags(&mut v, F9).is_err(), true);
                    cx.eq("flags wider than a byte are refused (deserialize)", &d, <$T>::deserialize_with_flags::<_, F9>(&[0u8; 64][..]).is_err(), true);
                }
                // decimal strings and BigUint
                    let back: N = of(a).into();
                    cx.eq("Into<BigUint>", &d, back, a.clone());
                    cx.eq("From<BigUint>", &d, to(&<$T>::from(a.clone())), a.clone());
                    match <$T as core::str::FromStr>::from_str(&a.to_string()) { Ok(x) => cx.eq("FromStr(decimal)", &d, to(&x), a.clone()), Err(_) => { if a != &n(0) { cx.cex("FromStr rejects a canonical decimal", d(), "Err".into(), "Ok".into()) } } }
                    // square roots: sqrt(a^2) squares back to a^2; legendre agrees with Euler's criterion
                    let sq = f.sq(a);
                    match of(&sq).sqrt() { Some(y) => cx.eq("sqrt(a^2)^2 == a^2", &d, f.sq(&to(&y)), sq.clone()), None => cx.cex("sqrt rejects a square", d(), "None".into(), "Some".into()) }
                    let euler = f.pow(a, &((&p - n(1)) / n(2)));
                    let lg = of(a).legendre();
                    cx.eq("legendre vs Euler", &d, (lg.is_zero(), lg.is_qr()), (euler == n(0), euler == n(1)));
                    if euler != n(1) && euler != n(0) { cx.n += 1; if of(a).sqrt().is_some() { cx.cex("sqrt accepts a non-square", d(), "Some".into(), "None".into()); } }
                    // hashing is consistent with equality: equal values built along different routes hash alike
                    use std::hash::{Hash, Hasher};
                    let h = |x: &$T| { let mut s = std::collections::hash_map::DefaultHasher::new(); x.hash(&mut s); s.finish() };
                    let other = of(a) + <$T>::one() - <$T>::one();
                    cx.eq("Hash(a) == Hash(a + 1 - 1)", &d, h(&of(a)), h(&other));
                }
                // decimal strings of every length: powers of two and of ten around every machine-word boundary, values above the
                // modulus (reduced), leading zeros, the empty string; anything that is not a string of digits is refused
                {
                    let mut ints: Vec<N> = Vec::new();
                    for k in 0..=($nb * 8 + 8usize) { let v: N = n(1) << k; ints.push(&v - n(1)); ints.push(v.clone()); ints.push(&v + n(1)); }
                    let mut t = n(1);
                    for _ in 0..=($nb * 8 * 3 / 10 + 4usize) { ints.push(&t - n(1)); ints.push(t.clone()); ints.push(&t * n(9)); t = &t * n(10); }
                    for v in ints.iter() {
                        let txt = v.to_string();
                        let d = || format!("{} decimal string {:?}", $tag, txt);
                        // a canonical integer must parse to itself; above the modulus the parser may reduce or refuse, never anything else
                        match { let t2 = txt.clone(); crate::no_panic_or(move || <$T as core::str::FromStr>::from_str(&t2)) } {
                            Some(Ok(x)) => cx.eq("FromStr(decimal string) == value mod p", &d, to(&x), v % &p),
                            Some(Err(_)) => { cx.n += 1; if v < &p && v != &n(0) { cx.cex("FromStr rejects the decimal form of a canonical integer", d(), "Err".into(), "Ok".into()) } }
                            None => cx.cex("FromStr panics on a string of decimal digits", d(), "panic".into(), "Ok or Err".into()) }
                        // leading zeros: accepted with the same value, or refused
                        let padded = format!("000{}", txt);
                        match { let t2 = padded.clone(); crate::no_panic_or(move || <$T as core::str::FromStr>::from_str(&t2)) } {
                            Some(Ok(x)) => cx.eq("FromStr(leading zeros)", &d, to(&x), v % &p),
                            Some(Err(_)) => { cx.n += 1; }
                            None => cx.cex("FromStr panics on leading zeros", d(), "panic".into(), "Ok or Err".into()) }
                    }
                    // zero goes through its own printed form (the empty string upstream)
                    let d = || format!("{} printed form of zero", $tag);
                    let z = <$T>::zero().to_string();
                    match <$T as core::str::FromStr>::from_str(&z) { Ok(x) => cx.eq("FromStr(Display(0)) == 0", &d, to(&x), n(0)), Err(_) => cx.cex("FromStr rejects the printed form of zero", d(), "Err".into(), "Ok".into()) }
                }
                // exactly the integers below p are accepted
                let mut edge = vec![p.clone(), &p + n(1), &top - n(1)];
                for k in ($nb * 8 - 16)..($nb * 8) { let v = n(1) << k; if v >= p { edge.push(v); } }
                for v in edge.iter() {
                    let d = || format!("{} non-canonical integer {}", $tag, v);
                    cx.n += 1;
                    if <$T>::from_bigint(BI::try_from(v.clone()).ok().unwrap()).is_some() { cx.cex("from_bigint accepts an integer >= modulus", d(), "Some".into(), "None".into()); }
                    cx.n += 1;
                    if <$T>::deserialize_compressed(&le(v)[..]).is_ok() { cx.cex("deserialize_compressed accepts >= modulus", d(), "Ok".into(), "Err".into()); }
                    cx.n += 1;
                    if <$T>::deserialize_with_flags::<_, EmptyFlags>(&le(v)[..]).is_ok() { cx.cex("deserialize_with_flags accepts >= modulus", d(), "Ok".into(), "Err".into()); }
                    {
                        use ark_serialize::{Compress, Validate, SerializationError};
                        for (cm, vm) in [(Compress::Yes, Validate::Yes), (Compress::Yes, Validate::No), (Compress::No, Validate::Yes), (Compress::No, Validate::No)] {
                            cx.n += 1;
                            match <$T>::deserialize_with_mode(&le(v)[..], cm, vm) {
                                Err(_) => {}
                                Ok(_) => cx.cex("deserialize_with_mode accepts >= modulus", d(), "Ok".into(), "Err".into()) }
                        }
                    }
                }
                // reduction of byte strings of any length, both endiannesses
                for len in 0..=200usize {
                    for pat in 0..3 {
                        let bytes: Vec<u8> = (0..len).map(|i| match pat { 0 => 0xffu8, 1 => (cx.rng.next() & 0xff) as u8, _ => if i == 0 { 1 } else { 0 } }).collect();
                        let d = || format!("{} bytes (len {}) {:02x?}", $tag, len, bytes);
                        cx.eq("from_be_bytes_mod_order(any length)", &d, to(&<$T>::from_be_bytes_mod_order(&bytes)), N::from_bytes_be(&bytes) % &p);
                        cx.eq("PrimeField::from_le_bytes_mod_order(any length)", &d, to(&<$T as PrimeField>::from_le_bytes_mod_order(&bytes)), N::from_bytes_le(&bytes) % &p);
                    }
                }
                // published constants agree with the modulus
                cx.eq("MODULUS", &|| $tag.to_string(), { let m: N = <$T as PrimeField>::MODULUS.into(); m }, p.clone());
                cx.eq("MODULUS_MINUS_ONE_DIV_TWO", &|| $tag.to_string(), { let m: N = <$T as PrimeField>::MODULUS_MINUS_ONE_DIV_TWO.into(); m }, (&p - n(1)) / n(2));
                cx.eq("MODULUS_BIT_SIZE", &|| $tag.to_string(), <$T as PrimeField>::MODULUS_BIT_SIZE as u64, p.bits());
                let _ = BI::from(1u64).is_zero();
            }
            // folds over nothing and over one element, all four forms
            {
                let none: Vec<$T> = Vec::new();
                let d0 = || format!("{} empty iterator", $tag);
                cx.eq("Sum of nothing", &d0, to(&<$T as Sum<$T>>::sum(none.clone().into_iter())), n(0));
                cx.eq("Sum<&> of nothing", &d0, to(&<$T as Sum<&$T>>::sum(none.iter())), n(0));
                cx.eq("Product of nothing", &d0, to(&<$T as Product<$T>>::product(none.clone().into_iter())), n(1) % &p);
                cx.eq("Product<&> of nothing", &d0, to(&<$T as Product<&$T>>::product(none.iter())), n(1) % &p);
                for v in vals.iter().take(6) {
                    let one = vec![of(v)];
                    let d1 = || format!("{} single element {}", $tag, v);
                    cx.eq("Sum of one", &d1, to(&<$T as Sum<$T>>::sum(one.clone().into_iter())), v.clone());
                    cx.eq("Sum<&> of one", &d1, to(&<$T as Sum<&$T>>::sum(one.iter())), v.clone());
                    cx.eq("Product of one", &d1, to(&<$T as Product<$T>>::product(one.clone().into_iter())), v.clone());
                    cx.eq("Product<&> of one", &d1, to(&<$T as Product<&$T>>::product(one.iter())), v.clone());
                }
            }
            // arithmetic (C10)
            let nv = vals.len();
            for i in 0..nv {
                let a = &vals[i];
                let xa = of(a);
                let d1 = || format!("{} a = {}", $tag, a);
                cx.eq("neg", &d1, to(&(-xa)), f.neg(a));
                cx.eq("square", &d1, to(&xa.square()), f.sq(a));
                match xa.inverse() {
                    None => cx.eq("inverse(None) iff zero", &d1, a.clone(), n(0)),
                    Some(inv) => { cx.n += 1; if a == &n(0) { cx.cex("inverse of zero must be absent", d1(), "Some".into(), "None".into()); }
                                   cx.eq("inverse", &d1, to(&inv), f.inv(a)); }
                }
                cx.eq("From<u128>", &d1, to(&<$T>::from({ let lo: N = a % (n(1) << 128); lo.iter_u64_digits().enumerate().fold(0u128, |acc: u128, (k, w): (usize, u64)| acc | ((w as u128) << (64 * k))) })), (a % (n(1) << 128)) % &p);
                cx.eq("From<u64>", &d1, to(&<$T>::from({ let lo: N = a % (n(1) << 64); lo.iter_u64_digits().next().unwrap_or(0u64) })), (a % (n(1) << 64)) % &p);
                // ordering against close neighbours (differences of single bits at limb boundaries)
                for k in [0usize, 1, 31, 32, 33, 63, 64, 65, 95, 96, 127, 128, 160, 191, 192, 224, 250] {
                    let b = a + (n(1) << k);
                    if b >= p { continue; }
                    let xb = of(&b);
                    let d = || format!("{} a = {}, b = a + 2^{}", $tag, a, k);
                    cx.eq("Ord::cmp (neighbours)", &d, xa.cmp(&xb), core::cmp::Ordering::Less);
                    cx.eq("Ord::cmp (neighbours, reversed)", &d, xb.cmp(&xa), core::cmp::Ordering::Greater);
                    cx.eq("b - a", &d, to(&(xb - xa)), n(1) << k);
                }
                for j in [i, (i * 7 + 3) % nv, (i * 13 + 5) % nv, nv - 1 - i] {
                    let b = &vals[j];
                    let xb = of(b);
                    let d = || format!("{} a = {}, b = {}", $tag, a, b);
                    cx.eq("a + b", &d, to(&(xa + xb)), f.add(a, b));
                    cx.eq("a + &b", &d, to(&(xa + &xb)), f.add(a, b));
                    cx.eq("a - b", &d, to(&(xa - xb)), f.sub(a, b));
                    cx.eq("a - &b", &d, to(&(xa - &xb)), f.sub(a, b));
                    cx.eq("a * b", &d, to(&(xa * xb)), f.mul(a, b));
                    cx.eq("a * &b", &d, to(&(xa * &xb)), f.mul(a, b));
                    let mut t = xa; t += xb; cx.eq("a += b", &d, to(&t), f.add(a, b));
                    let mut t = xa; t += &xb; cx.eq("a += &b", &d, to(&t), f.add(a, b));
                    let mut t = xa; t -= xb; cx.eq("a -= b", &d, to(&t), f.sub(a, b));
                    let mut t = xa; t -= &xb; cx.eq("a -= &b", &d, to(&t), f.sub(a, b));
                    let mut t = xa; t *= xb; cx.eq("a *= b", &d, to(&t), f.mul(a, b));
                    let mut t = xa; t *= &xb; cx.eq("a *= &b", &d, to(&t), f.mul(a, b));
                    let mut mb = xb;
                    cx.eq("a + &mut b", &d, to(&(xa + &mut mb)), f.add(a, b));
                    cx.eq("a * &mut b", &d, to(&(xa * &mut mb)), f.mul(a, b));
                    if b != &n(0) {
                        cx.eq("a / b", &d, to(&(xa / xb)), f.mul(a, &f.inv(b)));
                        cx.eq("a / &b", &d, to(&(xa / &xb)), f.mul(a, &f.inv(b)));
                        let mut t = xa; t /= xb; cx.eq("a /= b", &d, to(&t), f.mul(a, &f.inv(b)));
                    }
                    cx.eq("Sum", &d, to(&<$T as Sum<$T>>::sum([xa, xb, xa].into_iter())), f.add(&f.add(a, b), a));
                    cx.eq("Sum<&>", &d, to(&<$T as Sum<&$T>>::sum([xa, xb].iter())), f.add(a, b));
                    cx.eq("Product", &d, to(&<$T as Product<$T>>::product([xa, xb, xa].into_iter())), f.mul(&f.mul(a, b), a));
                    cx.eq("Product<&>", &d, to(&<$T as Product<&$T>>::product([xa, xb].iter())), f.mul(a, b));
                    cx.eq("Ord::cmp", &d, xa.cmp(&xb), a.cmp(b));
                    cx.eq("PartialEq", &d, xa == xb, a == b);
                }
            }
        }
    };
}
field_probe!(probe_fq_common, Fq, q(), 32, "Fq");
field_probe!(probe_fr, Fr, r(), 32, "Fr");
field_probe!(probe_fp, Fp, pbls(), 48, "Fp");

pub fn probe_fq(cx: &mut Ctx, iters: usize) {
    probe_fq_common(cx, iters);
    use subtle::{Choice, ConditionallySelectable, ConstantTimeEq};
    let p = q();
    let f = F::new(p.clone());
    let of = |v: &N| -> Fq { Fq::from_le_bytes_mod_order(&le32(&(v % &p))) };
    let to = |x: &Fq| -> N { N::from_bytes_le(&x.to_bytes()) };
    let mut vals = boundary(&p);
    for _ in 0..iters { vals.push(cx.rng.below(&p)); }
    // limb-permutation pairs (Montgomery limbs that XOR-cancel etc.)
    let nv = vals.len();
    for i in 0..nv {
        let a = &vals[i];
        let xa = of(a);
        for j in [i, (i * 5 + 1) % nv, (i * 11 + 7) % nv] {
            let b = &vals[j];
            let xb = of(b);
            let d = || format!("Fq a = {}, b = {}", a, b);
            cx.eq("conditional_select(a, b, 0)", &d, to(&Fq::conditional_select(&xa, &xb, Choice::from(0))), a.clone());
            cx.eq("conditional_select(a, b, 1)", &d, to(&Fq::conditional_select(&xa, &xb, Choice::from(1))), b.clone());
            cx.eq("ct_eq", &d, xa.ct_eq(&xb).unwrap_u8() == 1, a == b);
        }
    }
    // ct_eq on elements whose Montgomery limbs are permutations / shifts of one another
    let rinv = f.inv(&((n(1) << 256) % &p));
    for (l1, l2) in [([1u64, 0, 0, 0], [0u64, 1, 0, 0]), ([5, 7, 0, 0], [7, 5, 0, 0]), ([1, 2, 3, 4], [4, 3, 2, 1]), ([9, 9, 0, 0], [0, 0, 9, 9])] {
        let v1 = f.mul(&N::from_bytes_le(&l1.iter().flat_map(|w| w.to_le_bytes()).collect::<Vec<u8>>()), &rinv);
        let v2 = f.mul(&N::from_bytes_le(&l2.iter().flat_map(|w| w.to_le_bytes()).collect::<Vec<u8>>()), &rinv);
        let d = || format!("Fq Montgomery limbs {:?} vs {:?}", l1, l2);
        cx.eq("ct_eq (structured limbs)", &d, of(&v1).ct_eq(&of(&v2)).unwrap_u8() == 1, v1 == v2);
    }
    // power with multi-limb exponents
    for a in vals.iter().take(10) {
        for e in [vec![0u64], vec![1], vec![2, 1], vec![0, 1], vec![u64::MAX, u64::MAX, 3], vec![5, 0, 7, 0], vec![]] {
            let ev = N::from_bytes_le(&e.iter().flat_map(|w| w.to_le_bytes()).collect::<Vec<u8>>());
            let d = || format!("Fq a = {}, exponent limbs {:?}", a, e);
            cx.eq("power(limbs)", &d, to(&of(a).power(&e[..])), f.pow(a, &ev));
        }
    }
    #[cfg(feature = "ark")]
    {
        use ark_ff::{BigInteger256, Field, PrimeField, Zero, One};
        use ark_serialize::{CanonicalDeserialize, CanonicalSerialize};
        for a in vals.iter() {
            let d = || format!("Fq a = {}", a);
            let limbs: Vec<u64> = { let mut l: Vec<u64> = a.iter_u64_digits().collect(); l.resize(4, 0); l };
            let bi = BigInteger256::new([limbs[0], limbs[1], limbs[2], limbs[3]]);
            match Fq::from_bigint(bi) { Some(x) => cx.eq("from_bigint", &d, to(&x), a.clone()), None => cx.cex("from_bigint rejects canonical", d(), "None".into(), "Some".into()) }
            cx.eq("into_bigint", &d, of(a).into_bigint(), bi);
            cx.eq("is_zero", &d, of(a).is_zero(), a == &n(0));
            cx.eq("is_one", &d, of(a).is_one(), a == &n(1));
            cx.eq("double", &d, to(&of(a).double()), f.add(a, a));
            let mut bytes = [0u8; 32];
            of(a).serialize_compressed(&mut bytes[..]).unwrap();
            cx.eq("serialize_compressed", &d, bytes, le32(a));
            match Fq::deserialize_compressed(&le32(a)[..]) { Ok(x) => cx.eq("deserialize_compressed", &d, to(&x), a.clone()), Err(_) => cx.cex("deserialize_compressed rejects canonical", d(), "Err".into(), "Ok".into()) }
        }
        for v in [p.clone(), &p + n(1), (n(1) << 256) - n(1), n(1) << 253, n(1) << 255] {
            let d = || format!("Fq non-canonical integer {}", v);
            let mut l: Vec<u64> = v.iter_u64_digits().collect(); l.resize(4, 0);
            cx.n += 1;
            if Fq::from_bigint(BigInteger256::new([l[0], l[1], l[2], l[3]])).is_some() { cx.cex("from_bigint accepts >= modulus", d(), "Some".into(), "None".into()); }
            cx.n += 1;
            if Fq::deserialize_compressed(&le32(&v)[..]).is_ok() { cx.cex("deserialize_compressed accepts >= modulus", d(), "Ok".into(), "Err".into()); }
        }
    }
}

/// Replay of a Kani counterexample for a fiat routine on the REAL crate (minimal build): `fiat:<f>:<op>:<hexA>:<hexB>`.
/// A and B are the Montgomery-domain limb integers Kani chose; the public operator is applied to the elements with exactly
/// those internal limbs, and the result is compared with integer arithmetic on the Montgomery values.
pub fn fiat_replay(cx: &mut Ctx, spec: &str) {
    let parts: Vec<&str> = spec.split(':').collect();
    if parts.len() < 5 { println!("NOPROBE {}", spec); std::process::exit(0); }
    let (fld, op) = (parts[1], parts[2]);
    let a = N::parse_bytes(parts[3].as_bytes(), 16).unwrap();
    let b = N::parse_bytes(parts[4].as_bytes(), 16).unwrap();
    macro_rules! go { ($T:ty, $p:expr, $nl:expr, $nb:expr) => {{
        let p: N = $p;
        let f = F::new(p.clone());
        let rinv = f.inv(&((n(1) << (8 * $nb)) % &p));
        // the element whose internal Montgomery limbs are A is the one with value A * R^-1 (limbs are canonical, A < p)
        let mk = |v: &N| -> $T { let x = f.mul(v, &rinv); let mut b = [0u8; $nb]; let t = x.to_bytes_le(); b[..t.len()].copy_from_slice(&t); <$T>::from_le_bytes_mod_order(&b) };
        let xa = mk(&a);
        let xb = mk(&b);
        let val = |x: &$T| -> N { N::from_bytes_le(&x.to_bytes()) };
        let d = || format!("{} Montgomery limbs A = 0x{:x}, B = 0x{:x} (values {} and {})", fld, a, b, f.mul(&a, &rinv), f.mul(&b, &rinv));
        match op {
            "add" => cx.eq("a + b (fiat add on these limbs)", &d, val(&(xa + xb)), f.mul(&f.add(&a, &b), &rinv)),
            "sub" => cx.eq("a - b (fiat sub on these limbs)", &d, val(&(xa - xb)), f.mul(&f.sub(&a, &b), &rinv)),
            "opp" => cx.eq("-a (fiat opp on these limbs)", &d, val(&(-xa)), f.mul(&f.neg(&a), &rinv)),
            _ => { println!("NOPROBE {}", spec); std::process::exit(0); }
        }
    }}}
    match fld {
        "fq" => go!(Fq, q(), 4, 32),
        "fr" => go!(Fr, r(), 4, 32),
        "fp" => go!(Fp, pbls(), 6, 48),
        _ => { println!("NOPROBE {}", spec); std::process::exit(0); }
    }
}
