//! Demonstrates the genuine defects D1-D5 of the pinned tree against the real crate.
//! Place as tests/defects_demo.rs ; `cargo test --offline --test defects_demo`.
#![cfg(feature = "arkworks")]
use ark_ec::{AffineRepr, CurveGroup, Group};
use ark_ff::{FftField, Field, PrimeField, Zero, One};
use decaf377::{Element, Fq, Fr};
use subtle::{Choice, ConditionallySelectable};
use std::hash::{Hash, Hasher};
use std::collections::hash_map::DefaultHasher;

type Affine = <Element as CurveGroup>::Affine;

fn h<T: Hash>(t: &T) -> u64 { let mut s = DefaultHasher::new(); t.hash(&mut s); s.finish() }

#[test]
fn d1_affine_plus_affine() {
    let g = Element::GENERATOR;
    let p: Affine = (g + g).into_affine();
    let q: Affine = g.into_affine();
    let sum: Element = p + q;
    assert_eq!(sum, g + g + g, "AffinePoint + AffinePoint must be the group sum");
}

#[test]
fn d2_from_random_bytes_in_group() {
    let mut bad = 0;
    let mut ok = 0;
    for i in 0..200u32 {
        let mut bytes = [0u8; 32];
        bytes[..4].copy_from_slice(&i.to_le_bytes());
        if let Some(p) = Affine::from_random_bytes(&bytes) {
            let e: Element = p.into();
            // valid element: encoding decodes to an equal element
            let enc = e.vartime_compress();
            match enc.vartime_decompress() { Ok(e2) if e2 == e => ok += 1, _ => bad += 1 }
        }
    }
    assert_eq!(bad, 0, "from_random_bytes returned {} points outside the group ({} ok)", bad, ok);
}

#[test]
fn d3_hash_and_is_zero() {
    let q = Element::GENERATOR * Fr::from(5u64);
    let a = q * (-Fr::one());
    let b = -q;
    assert_eq!(a, b);
    assert_eq!(h(&a), h(&b), "equal elements must hash equally");
    let z = q + a;
    assert!(z.is_identity());
    assert!(z.is_zero(), "is_zero must agree with is_identity");
}

#[test]
fn d4_select_power_product() {
    let a = Fq::from(3u64);
    let b = Fq::from(7u64);
    assert_eq!(Fq::conditional_select(&a, &b, Choice::from(0)), a);
    assert_eq!(Fq::conditional_select(&a, &b, Choice::from(1)), b);
    assert_eq!(a.power([2u64, 1u64]), a.pow([2u64, 1u64]), "power must honour all limbs");
    let p: Fr = vec![Fr::from(2u64), Fr::from(3u64)].into_iter().product();
    assert_eq!(p, Fr::from(6u64));
}

#[test]
fn d5_fr_constants() {
    // trace * 2^s == r - 1
    let t: num_bigint::BigUint = Fr::TRACE.into();
    let r: num_bigint::BigUint = Fr::MODULUS.into();
    assert_eq!(t << (Fr::TWO_ADICITY as usize), r.clone() - 1u32, "TRACE");
    let th: num_bigint::BigUint = Fr::TRACE_MINUS_ONE_DIV_TWO.into();
    let t: num_bigint::BigUint = Fr::TRACE.into();
    assert_eq!(th * 2u32 + 1u32, t, "TRACE_MINUS_ONE_DIV_TWO");
    // root of unity has order exactly 2^s
    let w = Fr::TWO_ADIC_ROOT_OF_UNITY;
    assert!(w.pow([1u64 << Fr::TWO_ADICITY]).is_one(), "TWO_ADIC_ROOT_OF_UNITY ^ 2^s");
    assert!(!w.pow([1u64 << (Fr::TWO_ADICITY - 1)]).is_one());
    assert_eq!(Fr::GENERATOR.pow(Fr::TRACE), w, "root = g^t");
}
