use ark_serialize::{CanonicalSerializeWithFlags, CanonicalDeserializeWithFlags, Flags};
use decaf377::{Fq, Fr, Fp};
#[derive(Clone, Copy, PartialEq, Eq, Debug, Default)]
struct F8(u8);
impl Flags for F8 { const BIT_SIZE: usize = 8; fn u8_bitmask(&self) -> u8 { self.0 } fn from_u8(v: u8) -> Option<Self> { Some(F8(v)) } }
#[derive(Clone, Copy, PartialEq, Eq, Debug, Default)]
struct F4(u8);
impl Flags for F4 { const BIT_SIZE: usize = 4; fn u8_bitmask(&self) -> u8 { self.0 << 4 } fn from_u8(v: u8) -> Option<Self> { Some(F4(v >> 4)) } }
macro_rules! rt { ($T:ty, $name:ident) => {
#[test]
fn $name() {
    let x = <$T>::from(123456789u64);
    let mut v = Vec::new();
    x.serialize_with_flags(&mut v, F8(0xA5)).unwrap();
    println!("{} serialized with 8-bit flags: {} bytes", stringify!($T), v.len());
    let (y, f) = <$T>::deserialize_with_flags::<_, F8>(&v[..]).unwrap();
    assert_eq!((y, f), (x, F8(0xA5)));
    let mut v = Vec::new();
    x.serialize_with_flags(&mut v, F4(0x9)).unwrap();
    println!("{} serialized with 4-bit flags: {} bytes", stringify!($T), v.len());
    let (y, f) = <$T>::deserialize_with_flags::<_, F4>(&v[..]).unwrap();
    assert_eq!((y, f), (x, F4(0x9)));
} } }
rt!(Fq, fq_flags_round_trip);
rt!(Fr, fr_flags_round_trip);
rt!(Fp, fp_flags_round_trip);
