#![cfg(feature = "r1cs")]
use ark_r1cs_std::prelude::*;
use ark_r1cs_std::R1CSVar;
use ark_relations::r1cs::ConstraintSystem;
use decaf377::r1cs::{ElementVar, FqVar};
use decaf377::{Element, Fq};
#[test]
fn constant_element_can_be_encoded() {
    let cs = ConstraintSystem::<Fq>::new_ref();
    let e = Element::GENERATOR;
    let v = ElementVar::new_constant(cs.clone(), e).unwrap();
    println!("value ok: {:?}", v.value().map(|x| x == e));
    let r = v.compress_to_field();
    println!("compress_to_field on constant: {:?}", r.as_ref().map(|s| s.value()));
    let c = FqVar::new_constant(cs.clone(), e.vartime_compress_to_field()).unwrap();
    let r2 = ElementVar::decompress_from_field(c);
    println!("decompress_from_field on constant: {:?}", r2.as_ref().map(|_| ()).map_err(|e| format!("{:?}", e)));
    let r3 = ElementVar::encode_to_curve(&FqVar::new_constant(cs.clone(), Fq::from(5u64)).unwrap());
    println!("encode_to_curve on constant: {:?}", r3.as_ref().map(|_| ()).map_err(|e| format!("{:?}", e)));
    // mixed: constant + witness
    let w = ElementVar::new_witness(cs.clone(), || Ok(e)).unwrap();
    let s = (v.clone() + w).compress_to_field();
    println!("constant + witness compress: {:?}", s.as_ref().map(|_| ()).map_err(|e| format!("{:?}", e)));
    let s = v.double().unwrap().compress_to_field();
    println!("double(constant) compress: {:?}", s.as_ref().map(|_| ()).map_err(|e| format!("{:?}", e)));
    assert!(r.is_ok() && r2.is_ok() && r3.is_ok());
}
